"""Positive fixtures for vlib/lints.py (never imported): each function contains exactly the slip its rule looks for."""


def l1_fixture(rule):
    bindings = [rule] + list(rule.additional_bindings)
    return [parse(rule) for binding in bindings]


def l2_fixture(entries):
    out = {}
    retry = None
    for e in entries:
        timeout = e.get("timeout")
        if "retryPolicy" in e:
            retry = make(e)
        out[e["name"]] = (retry, timeout)
    return out


def l3_fixture(messages):
    answer = set()
    for m in messages:
        modules = {}
        for t in m.types:
            modules.setdefault(t.module, set()).add(t.package)
    answer.update(k for k, v in modules.items() if len(v) > 1)
    return answer


def l4_fixture(message, visited=None):
    if visited is None:
        visited = set()
    visited.add(message)
    out = []
    for f in message.fields:
        if f.type in visited:
            continue
        out += l4_fixture(f.type, visited=visited)
    return out


def l5_fixture(services, mixin_methods):
    has_overrides = False
    for service in services.values():
        has_overrides = not mixin_methods.keys().isdisjoint(service.methods)
    return has_overrides


def l6_fixture(field_pbs, oneof_names):
    out = []
    for field_pb in field_pbs:
        idx = field_pb.oneof_index if field_pb.HasField("oneof_index") else None
        out.append(oneof_names[idx] if idx and idx < len(oneof_names) else None)
    return out


def l7_fixture(pattern, uri, fix):
    def one(match):
        name = match.group("name")
        return match.group(0).replace(name, fix(name))
    return pattern.sub(one, uri)


def l8_fixture(services):
    index = {}
    for s in services:
        index[s.name] = dict.fromkeys(s.methods, {"sync": None, "async": None})
    return index
