"""Positive fixtures for vlib/lints.py (never imported): each function contains exactly the slip its rule looks for."""


def l1_fixture(rule):
    bindings = [rule] + list(rule.additional_bindings)
    return [parse(rule) for binding in bindings]


def l2_fixture(entries):
    out = {}
    retry = None
    for e in entries:
        timeout = e.get("timeout")
        if "retryPolicy" in e:
            retry = make(e)
        out[e["name"]] = (retry, timeout)
    return out


def l3_fixture(messages):
    answer = set()
    for m in messages:
        modules = {}
        for t in m.types:
            modules.setdefault(t.module, set()).add(t.package)
    answer.update(k for k, v in modules.items() if len(v) > 1)
    return answer


def l4_fixture(message, visited=None):
    if visited is None:
        visited = set()
    visited.add(message)
    out = []
    for f in message.fields:
        if f.type in visited:
            continue
        out += l4_fixture(f.type, visited=visited)
    return out


def l5_fixture(services, mixin_methods):
    has_overrides = False
    for service in services.values():
        has_overrides = not mixin_methods.keys().isdisjoint(service.methods)
    return has_overrides
