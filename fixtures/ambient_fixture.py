"""Positive fixture for rule C10.3 (never imported): the ambient-input matcher must
recognise these call shapes on every run, so that 'zero reachable ambient inputs' is
not a vacuous pass."""
import os
import time


def stamp():
    return "%s-%s" % (time.time(), os.getcwd())
