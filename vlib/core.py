"""Driver infrastructure shared by all property checkers.

Exit-code discipline (DESIGN.md section 3.1 / 6):
  0  every obligation held (KNOWN-FINDING lines for listed findings)
  1  at least one obligation failed that known_findings.json does not list
     -> a line "VIOLATION property=<id> replay=<path>" per violation
  2  the analysis itself cannot stand (anchor vanished, floor missed, crash)
     -> a line "ANALYSIS-ERROR property=<id> ..."
"""
from __future__ import annotations

import hashlib
import json
import os
import re
import sys
import time
import traceback

VERIF = os.path.dirname(os.path.dirname(os.path.abspath(__file__)))
REPO = os.environ.get("VERIF_REPO", "/repo")
GAPIC = os.path.join(REPO, "gapic")
TEMPLATES = os.path.join(GAPIC, "templates")
ADS_TEMPLATES = os.path.join(GAPIC, "ads-templates")
EVIDENCE_DIR = os.environ.get("VERIF_EVIDENCE_DIR") or os.path.join(VERIF, "evidence")
KNOWN_FINDINGS = os.path.join(VERIF, "known_findings.json")


class AnalysisError(Exception):
    """The analysis cannot give a verdict (anchor missing, floor missed)."""

    def __init__(self, rule: str, anchor: str, msg: str = ""):
        super().__init__(f"rule={rule} anchor={anchor} {msg}")
        self.rule, self.anchor, self.msg = rule, anchor, msg


def norm_ws(s: str) -> str:
    return re.sub(r"\s+", " ", s).strip()


def relpath(p: str) -> str:
    p = str(p)
    if p.startswith(REPO + "/"):
        return p[len(REPO) + 1:]
    return p


class Rule:
    def __init__(self, report: "Report", rid: str, text: str, floor: int):
        self.report, self.id, self.text, self.floor = report, rid, text, floor
        self.instances = 0
        self.obligations = 0
        self.samples: list = []
        self.violations: list = []
        self.notes: list = []

    # -- bookkeeping ---------------------------------------------------
    def instance(self, desc=None, n: int = 1):
        """Count a matched instance of the rule's anchor (for the floor)."""
        self.instances += n
        if desc is not None and len(self.samples) < 6:
            self.samples.append(desc if isinstance(desc, (dict, list)) else str(desc))

    def ok(self, n: int = 1):
        self.obligations += n

    def note(self, s: str):
        if len(self.notes) < 20:
            self.notes.append(s)

    def need(self, cond, anchor: str, msg: str = ""):
        """Anchor must exist, else the analysis fails (exit 2)."""
        if not cond:
            raise AnalysisError(self.id, anchor, msg)
        return cond

    def check(self, cond, file, line, construct: str, msg: str, **extra) -> bool:
        """One obligation: counted, and a violation if cond is false."""
        self.obligations += 1
        if not cond:
            self.violation(file, line, construct, msg, _counted=True, **extra)
        return bool(cond)

    def violation(self, file, line, construct: str, msg: str, _counted=False, **extra):
        if not _counted:
            self.obligations += 1
        v = {
            "property": self.report.pid,
            "rule": self.id,
            "rule_text": self.text,
            "file": relpath(file),
            "line": line,
            "construct": norm_ws(construct),
            "message": msg,
        }
        v.update(extra)
        # same rule + file + construct reported once
        key = (v["rule"], v["file"], v["construct"])
        for old in self.violations:
            if (old["rule"], old["file"], old["construct"]) == key:
                also = old.setdefault("also", [])
                if len(also) < 5:
                    also.append({"line": line, "message": msg})
                old["also_count"] = old.get("also_count", 0) + 1
                return
        self.violations.append(v)


class Report:
    def __init__(self, pid: str, tier: str):
        self.pid, self.tier = pid, tier
        self.rules: dict = {}
        self.analysed: dict = {}
        self.assumptions: list = []
        self.explanation = ""
        self.t0 = time.time()
        self.extra_samples: list = []

    def rule(self, rid: str, text: str, floor: int = 1) -> Rule:
        if rid not in self.rules:
            self.rules[rid] = Rule(self, rid, text, floor)
        return self.rules[rid]

    def count(self, key: str, n=1):
        self.analysed[key] = self.analysed.get(key, 0) + n

    def set(self, key: str, v):
        self.analysed[key] = v


def load_known():
    try:
        with open(KNOWN_FINDINGS) as f:
            data = json.load(f)
    except FileNotFoundError:
        return []
    return data.get("findings", [])


def match_known(v, known):
    for k in known:
        if k.get("status") != "known":
            continue
        if k.get("property") != v["property"] or k.get("rule") != v["rule"]:
            continue
        c = k.get("construct", {})
        if c.get("file") and c["file"] != v["file"]:
            continue
        if norm_ws(c.get("normalized", "")) != v["construct"]:
            continue
        return k
    return None


def finish(report: Report, seed: int) -> int:
    """Floors, known-findings matching, evidence file, exit code."""
    pid = report.pid
    errors = []
    for r in report.rules.values():
        if r.instances < r.floor:
            errors.append(
                f"ANALYSIS-ERROR property={pid} rule={r.id} anchor=floor "
                f"matched={r.instances} floor={r.floor} (rule matched fewer instances than confirmed by hand)"
            )
    known = load_known()
    viol, knownhits = [], []
    for r in report.rules.values():
        for v in r.violations:
            k = match_known(v, known)
            (knownhits if k else viol).append((v, k))
    vdir = os.path.join(EVIDENCE_DIR, "violations")
    lines = []
    if os.path.isdir(vdir):
        for fn in os.listdir(vdir):
            if fn.startswith(pid + "-"):
                os.unlink(os.path.join(vdir, fn))
    if viol:
        os.makedirs(vdir, exist_ok=True)
    for i, (v, _) in enumerate(viol):
        h = hashlib.sha1((v["rule"] + v["file"] + v["construct"]).encode()).hexdigest()[:10]
        path = os.path.join(vdir, f"{pid}-{h}.json")
        with open(path, "w") as f:
            json.dump(v, f, indent=1, default=str)
        lines.append(
            f"VIOLATION property={pid} replay={path}\n"
            f"    rule {v['rule']}: {v['rule_text']}\n"
            f"    at {v['file']}:{v['line']}: {v['message']}\n"
            f"    construct: {v['construct'][:300]}"
        )
    for v, k in knownhits:
        print(f"KNOWN-FINDING: property={pid} rule={v['rule']} {v['file']}:{v['line']} {v['message']} [{k.get('id','')}]")
    for l in lines:
        print(l)
    for e in errors:
        print(e)

    obligations = sum(r.obligations for r in report.rules.values())
    instances = sum(r.instances for r in report.rules.values())
    samples = []
    for r in report.rules.values():
        for s in r.samples[:3]:
            samples.append({"rule": r.id, "instance": s})
    samples.extend(report.extra_samples[:10])
    if not samples:
        samples = [{"note": "no instance samples recorded"}]
    ev = {
        "property_id": pid,
        "tier": report.tier,
        "seed": seed,
        "level": "other",
        "coverage": {
            "explanation": report.explanation
            or "static analysis of /repo sources (Python ast + Jinja parse trees); see rules",
            "evaluations": max(obligations, 1),
            "distinct_nontrivial": max(instances, 0),
            "rule": "one evaluation = one obligation checked inside a matched rule anchor; "
            "distinct_nontrivial = number of distinct anchor instances (call sites, template "
            "constructs, skeleton variants) matched by the rules",
            "obligations": obligations,
            "discharged": obligations - sum(len(r.violations) for r in report.rules.values()),
            "rules": {
                r.id: {
                    "text": r.text,
                    "instances": r.instances,
                    "floor": r.floor,
                    "obligations": r.obligations,
                    "violations": len(r.violations),
                    "notes": r.notes,
                }
                for r in report.rules.values()
            },
            "analysed": report.analysed,
            "samples": samples,
            "known_findings_matched": [
                {"rule": v["rule"], "file": v["file"], "construct": v["construct"][:200]} for v, _ in knownhits
            ],
            "exhaustive": False,
        },
        "assumptions": report.assumptions,
        "wall_s": round(time.time() - report.t0, 3),
        "violations": len(viol),
    }
    os.makedirs(EVIDENCE_DIR, exist_ok=True)
    with open(os.path.join(EVIDENCE_DIR, f"{pid}.json"), "w") as f:
        json.dump(ev, f, indent=1, default=str)
    print(
        f"[{pid}] tier={report.tier} rules={len(report.rules)} instances={instances} "
        f"obligations={obligations} violations={len(viol)} known={len(knownhits)} "
        f"errors={len(errors)} wall={ev['wall_s']}s"
    )
    for r in report.rules.values():
        print(f"    {r.id:<10} inst={r.instances:<5} (floor {r.floor}) oblig={r.obligations:<6} viol={len(r.violations)}  {r.text[:90]}")
    if viol:
        return 1   # a reported violation is the verdict even if it also starved another rule of its instances
    if errors:
        return 2
    return 0


def selftest(report: Report):
    """Thorough tier: run this property's self-test cases (hand-made mutants, behaviour-preserving twins and the seeded
    changes of the sub-agent rounds) on scratch copies of /repo/gapic. A mutant that stays silent or a twin that fires is a
    defect of the checker: analysis error, never a violation of the property."""
    import subprocess
    r = subprocess.run([os.path.join(VERIF, "tools", "selftest.py"), "--prop", report.pid, "--seeds", "--jobs", "8"],
                       cwd=VERIF, capture_output=True, text=True)
    last = [l for l in r.stdout.strip().split("\n") if l.startswith("{")]
    summary = json.loads(last[-1]) if last else {"cases": 0, "failed": ["no output"]}
    report.set("selftest", summary)
    rule = report.rule("SELFTEST", "checker self-test: every mutant / seeded change of this property fires, every twin stays silent", floor=1)
    rule.instance(summary, n=max(summary.get("cases", 0), 0))
    rule.ok(summary.get("cases", 0))
    if r.returncode != 0 or summary.get("failed"):
        raise AnalysisError("SELFTEST", "self-test corpus", f"misbehaving cases: {summary.get('failed')}")


def run_property(pid: str, tier: str, fn) -> int:
    seed = int(os.environ.get("VERIF_SEED", "0") or 0)
    report = Report(pid, tier)
    try:
        from . import lints
        lints.run_for(report)
        fn(report)
        if tier == "thorough" and not os.environ.get("VERIF_REPO") and not os.environ.get("VERIF_NO_SELFTEST"):
            selftest(report)
    except AnalysisError as e:
        print(f"ANALYSIS-ERROR property={pid} {e}")
        try:
            # a violation already established by an earlier rule stands, whatever anchor vanished afterwards
            if finish(report, seed) == 1:
                return 1
        except Exception:
            pass
        return 2
    except Exception:
        tb = traceback.format_exc()
        print(f"ANALYSIS-ERROR property={pid} rule=? anchor=exception\n{tb}")
        return 2
    return finish(report, seed)
