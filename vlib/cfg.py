"""Statement-level control-flow graph for Python function bodies (hand built;
the standard library has none).  Used on repository functions (Engine P) and
on emitted-program skeletons (Engine S).

Nodes are ast statement objects (compound statements contribute their header
as a node: the `if`/`while` test, the `for` iterator, the `with` items, the
`try` entry).  ENTRY and EXIT are sentinel strings; `raise` and `return`
statements have an edge to EXIT.
"""
from __future__ import annotations

import ast
from typing import Dict, List, Optional, Set

ENTRY = "ENTRY"
EXIT = "EXIT"


class CFG:
    def __init__(self, body: List[ast.stmt]):
        self.succ: Dict[object, Set[object]] = {ENTRY: set(), EXIT: set()}
        self.nodes: List[object] = [ENTRY, EXIT]
        self.stmt_of: Dict[int, ast.stmt] = {}
        self._loop_stack: List[tuple] = []
        self._handlers: List[List[object]] = []
        ends = self._block(body, {ENTRY})
        for e in ends:
            self._edge(e, EXIT)
        self._index(body)
        self._dom: Optional[Dict[object, Set[object]]] = None

    # -- construction ------------------------------------------------------
    def _add(self, n):
        if n not in self.succ:
            self.succ[n] = set()
            self.nodes.append(n)

    def _edge(self, a, b):
        self._add(a)
        self._add(b)
        self.succ[a].add(b)

    def _block(self, body, preds: Set[object]) -> Set[object]:
        cur = set(preds)
        for st in body:
            cur = self._stmt(st, cur)
        return cur

    def _enter(self, st, preds):
        self._add(st)
        for p in preds:
            self._edge(p, st)
        # any statement inside a try may raise into the handlers
        for hs in self._handlers[-1:]:
            for h in hs:
                self._edge(st, h)

    def _stmt(self, st, preds: Set[object]) -> Set[object]:
        if isinstance(st, (ast.Return, ast.Raise)):
            self._enter(st, preds)
            if isinstance(st, ast.Raise) and self._handlers and self._handlers[-1]:
                pass  # edges to handlers already added by _enter
            else:
                self._edge(st, EXIT)
            if isinstance(st, ast.Return):
                self._edge(st, EXIT)
            return set()
        if isinstance(st, ast.If):
            self._enter(st, preds)
            a = self._block(st.body, {st})
            b = self._block(st.orelse, {st}) if st.orelse else {st}
            return a | b
        if isinstance(st, (ast.For, ast.AsyncFor, ast.While)):
            self._enter(st, preds)
            self._loop_stack.append((st, set()))
            body_end = self._block(st.body, {st})
            for e in body_end:
                self._edge(e, st)
            _, breaks = self._loop_stack.pop()
            out = {st}
            if st.orelse:
                out = self._block(st.orelse, {st})
            infinite = isinstance(st, ast.While) and isinstance(st.test, ast.Constant) and st.test.value is True
            if infinite:
                out = set()
            return out | breaks
        if isinstance(st, ast.Break):
            self._enter(st, preds)
            if self._loop_stack:
                self._loop_stack[-1][1].add(st)
            return set()
        if isinstance(st, ast.Continue):
            self._enter(st, preds)
            if self._loop_stack:
                self._edge(st, self._loop_stack[-1][0])
            return set()
        if isinstance(st, (ast.With, ast.AsyncWith)):
            self._enter(st, preds)
            return self._block(st.body, {st})
        if isinstance(st, ast.Try) or type(st).__name__ == "TryStar":
            self._enter(st, preds)
            handler_entries = []
            for h in st.handlers:
                self._add(h)
                handler_entries.append(h)
            self._handlers.append(handler_entries)
            body_end = self._block(st.body, {st})
            self._handlers.pop()
            for h in handler_entries:
                self._edge(st, h)
            else_end = self._block(st.orelse, body_end) if st.orelse else body_end
            ends = set(else_end)
            for h in st.handlers:
                ends |= self._block(h.body, {h})
            if st.finalbody:
                ends = self._block(st.finalbody, ends)
            return ends
        if isinstance(st, ast.Match):
            self._enter(st, preds)
            ends = {st}
            for c in st.cases:
                ends |= self._block(c.body, {st})
            return ends
        # simple statements, nested defs/classes (not descended)
        self._enter(st, preds)
        return {st}

    def _index(self, body):
        """Map every ast node inside a statement header to its CFG node."""
        def own_nodes(st):
            # nodes belonging to the statement itself, excluding nested blocks
            if isinstance(st, (ast.If, ast.While)):
                return [st.test]
            if isinstance(st, (ast.For, ast.AsyncFor)):
                return [st.target, st.iter]
            if isinstance(st, (ast.With, ast.AsyncWith)):
                return list(st.items)
            if isinstance(st, ast.Try) or type(st).__name__ == "TryStar":
                return []
            if isinstance(st, ast.Match):
                return [st.subject]
            if isinstance(st, (ast.FunctionDef, ast.AsyncFunctionDef, ast.ClassDef)):
                return list(st.decorator_list)
            return [st]

        def blocks(st):
            out = []
            for f in ("body", "orelse", "finalbody"):
                b = getattr(st, f, None)
                if isinstance(b, list) and b and isinstance(b[0], ast.stmt):
                    out.append(b)
            for h in getattr(st, "handlers", []) or []:
                self.stmt_of[id(h)] = h
                out.append(h.body)
            for c in getattr(st, "cases", []) or []:
                out.append(c.body)
            return out

        def visit(body):
            for st in body:
                self.stmt_of[id(st)] = st
                for root in own_nodes(st):
                    for n in ast.walk(root):
                        self.stmt_of.setdefault(id(n), st)
                if not isinstance(st, (ast.FunctionDef, ast.AsyncFunctionDef, ast.ClassDef)):
                    for b in blocks(st):
                        visit(b)
        visit(body)

    # -- queries -------------------------------------------------------------
    def node_of(self, n: ast.AST):
        return self.stmt_of.get(id(n))

    def dominators(self):
        if self._dom is not None:
            return self._dom
        nodes = [n for n in self.nodes if n is not EXIT] + [EXIT]
        pred: Dict[object, Set[object]] = {n: set() for n in nodes}
        for a, ss in self.succ.items():
            for b in ss:
                pred.setdefault(b, set()).add(a)
        reach = self.reachable_from(ENTRY)
        allr = set(reach)
        dom = {n: set(allr) for n in reach}
        dom[ENTRY] = {ENTRY}
        changed = True
        order = [n for n in nodes if n in reach and n is not ENTRY]
        while changed:
            changed = False
            for n in order:
                ps = [dom[p] for p in pred[n] if p in reach]
                new = set.intersection(*ps) if ps else set()
                new = new | {n}
                if new != dom[n]:
                    dom[n] = new
                    changed = True
        self._dom = dom
        return dom

    def dominates(self, a, b) -> bool:
        """Every path ENTRY -> b passes through a (a, b: CFG nodes)."""
        dom = self.dominators()
        if b not in dom:
            return True  # b unreachable
        return a in dom[b]

    def reachable_from(self, start, avoid=()) -> Set[object]:
        avoid = set(avoid)
        seen, stack = set(), [start]
        while stack:
            n = stack.pop()
            if n in seen or n in avoid:
                continue
            seen.add(n)
            stack.extend(self.succ.get(n, ()))
        return seen

    def reachable(self, a, b, avoid=()) -> bool:
        return b in self.reachable_from(a, avoid)

    def must_pass(self, through, target) -> bool:
        """Every path ENTRY -> target passes through one of `through`."""
        return target not in self.reachable_from(ENTRY, avoid=through) or target in through

    def returns(self) -> List[ast.Return]:
        return [n for n in self.nodes if isinstance(n, ast.Return)]

    def exits_normally(self) -> List[object]:
        """Nodes with an edge to EXIT that are not raise statements."""
        return [n for n, ss in self.succ.items() if EXIT in ss and not isinstance(n, ast.Raise)]


def func_cfg(fn) -> CFG:
    return CFG(fn.body)
