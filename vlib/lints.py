"""Repository-specific bug-pattern rules over Engine P (contradiction / belief rules in the sense of Engler et al.).

Each rule reports a specific construct; each was confirmed silent on the unchanged tree (expected count zero), so a
positive fixture (fixtures/lint_fixture.py) must match on every run.

  L1 a loop / comprehension variable that is never used: the body works on something else (typically the collection's
     parent object) - every iteration does the same thing
  L2 stale loop-carried state: a variable initialised to None ("absent") before a loop, assigned inside it only under a condition, and read in
     the same iteration outside that condition - an iteration that does not assign it sees the previous iteration's value
  L3 per-iteration accumulator: a container created afresh inside a loop body and read after the loop - only the last
     iteration's content survives
  L4 shared visited-set: a recursive function that creates its optional `visited`-style set on first entry, mutates it in
     place and hands the same object to its recursive calls - siblings see each other's marks, so a node reachable twice is
     expanded only once (path-scoped sets must be copied: `visited | {x}`)
  L5 last iteration wins: a flag / value initialised before a loop, overwritten from the loop variable in every iteration (no
     accumulation, no break) and only read after the loop - all iterations but the last are ignored
"""
from __future__ import annotations

import ast
import re
from typing import Iterable, List, Tuple

from . import core

EMPTY_CONTAINERS = ("{}", "[]", "set()", "dict()", "list()", "collections.OrderedDict()", "OrderedDict()")


def _names_loaded(node) -> set:
    return {n.id for n in ast.walk(node) if isinstance(n, ast.Name) and isinstance(n.ctx, ast.Load)}


def _target_names(t) -> List[str]:
    return [n.id for n in ast.walk(t) if isinstance(n, ast.Name)]


def l1_unused_loop_var(fn) -> Iterable[Tuple[ast.AST, str]]:
    for n in ast.walk(fn):
        if isinstance(n, (ast.For, ast.AsyncFor)):
            used = set()
            for st in n.body + n.orelse:
                used |= _names_loaded(st)
            names = _target_names(n.target)
            if names and not any(x.startswith("_") or x in used for x in names):
                yield n, f"no loop variable of `for {ast.unparse(n.target)} in {ast.unparse(n.iter)[:60]}` is used in the loop body: every iteration does the same thing"
        elif isinstance(n, (ast.ListComp, ast.SetComp, ast.GeneratorExp, ast.DictComp)):
            used = set()
            parts = ([n.key, n.value] if isinstance(n, ast.DictComp) else [n.elt])
            for g in n.generators:
                parts += list(g.ifs)
            for i, g in enumerate(n.generators):
                if i:
                    parts.append(g.iter)
            for p in parts:
                used |= _names_loaded(p)
            for g in n.generators:
                names = _target_names(g.target)
                if names and not any(x.startswith("_") or x in used for x in names):
                    yield n, f"comprehension variable `{ast.unparse(g.target)}` (in {ast.unparse(g.iter)[:60]}) is never used: every element is computed from something else"


def _assigned_names(st) -> set:
    out = set()
    for n in ast.walk(st):
        if isinstance(n, ast.Assign):
            for t in n.targets:
                if isinstance(t, ast.Name):
                    out.add(t.id)
        elif isinstance(n, (ast.AnnAssign, ast.AugAssign)) and isinstance(n.target, ast.Name):
            out.add(n.target.id)
    return out


def l2_stale_loop_state(fn) -> Iterable[Tuple[ast.AST, str]]:
    def scan(body, before: set):
        none_init = set()      # variables whose latest straight-line assignment before the loop is the "absent" marker None
        for idx, st in enumerate(body):
            if isinstance(st, (ast.Assign, ast.AnnAssign)) and st.value is not None:
                tgts = st.targets if isinstance(st, ast.Assign) else [st.target]
                for t in tgts:
                    if isinstance(t, ast.Name):
                        (none_init.add if isinstance(st.value, ast.Constant) and st.value.value is None else none_init.discard)(t.id)
            if isinstance(st, (ast.For, ast.AsyncFor)):
                uncond = set()
                for s in st.body:
                    if isinstance(s, (ast.Assign, ast.AnnAssign, ast.AugAssign)):
                        uncond |= _assigned_names(s)
                cond = {}
                for s in st.body:
                    if isinstance(s, (ast.If, ast.Try, ast.With)):
                        for v in _assigned_names(s):
                            cond.setdefault(v, s)
                for v, where_ in cond.items():
                    if v in uncond or v not in none_init:
                        continue
                    # read in this loop body outside the conditional statement that assigns it?
                    for s in st.body:
                        if s is where_:
                            continue
                        if v in _names_loaded(s):
                            # the initial value before the loop must be a plain reset value (None / constant)
                            yield s, (f"`{v}` is set before the loop, re-assigned only under `{ast.unparse(where_.test)[:50] if isinstance(where_, ast.If) else type(where_).__name__}` "
                                      f"inside it, and read in the same iteration: an iteration that skips the assignment re-uses the previous iteration's value")
                            break
                scan(st.body, before | _assigned_names(st))
            elif isinstance(st, (ast.If, ast.With, ast.Try, ast.While)):
                for f in ("body", "orelse", "finalbody"):
                    b = getattr(st, f, None)
                    if isinstance(b, list) and b and isinstance(b[0], ast.stmt):
                        scan(b, set(before))
            before |= _assigned_names(st) if not isinstance(st, (ast.FunctionDef, ast.AsyncFunctionDef, ast.ClassDef)) else set()
    args = {a.arg for a in fn.args.args + fn.args.kwonlyargs}
    yield from scan(fn.body, set(args))


def l3_per_iteration_accumulator(fn) -> Iterable[Tuple[ast.AST, str]]:
    def scan(body):
        for idx, st in enumerate(body):
            if isinstance(st, (ast.For, ast.AsyncFor)):
                fresh = {}
                for s in st.body:
                    if isinstance(s, (ast.Assign, ast.AnnAssign)) and s.value is not None:
                        v = ast.unparse(s.value)
                        if v in EMPTY_CONTAINERS or v.startswith(("collections.defaultdict(", "defaultdict(")):
                            t = s.targets[0] if isinstance(s, ast.Assign) else s.target
                            if isinstance(t, ast.Name):
                                fresh[t.id] = s
                after = set()
                for later in body[idx + 1:]:
                    after |= _names_loaded(later)
                for name, s in fresh.items():
                    if name in after:
                        yield s, (f"`{name}` is created afresh in every iteration of `for {ast.unparse(st.target)} in {ast.unparse(st.iter)[:50]}` "
                                  f"but read after the loop: only the last iteration's content is seen")
                scan(st.body)
            elif isinstance(st, (ast.If, ast.With, ast.Try, ast.While)):
                for f in ("body", "orelse", "finalbody"):
                    b = getattr(st, f, None)
                    if isinstance(b, list) and b and isinstance(b[0], ast.stmt):
                        scan(b)
    yield from scan(fn.body)


def l4_shared_visited_set(fn) -> Iterable[Tuple[ast.AST, str]]:
    params = [a for a in fn.args.args + fn.args.kwonlyargs]
    defaults = {}
    pos = fn.args.args
    for a, d in zip(pos[len(pos) - len(fn.args.defaults):], fn.args.defaults):
        defaults[a.arg] = d
    for a, d in zip(fn.args.kwonlyargs, fn.args.kw_defaults):
        if d is not None:
            defaults[a.arg] = d
    for name, d in defaults.items():
        if not (isinstance(d, ast.Constant) and d.value is None):
            continue
        created = any(isinstance(n, ast.If) and ast.unparse(n.test) == f"{name} is None" and
                      any(isinstance(s, ast.Assign) and ast.unparse(s.targets[0]) == name and ast.unparse(s.value) in ("set()", "set([])") for s in n.body)
                      for n in ast.walk(fn))
        mutated = any(isinstance(n, ast.Call) and isinstance(n.func, ast.Attribute) and isinstance(n.func.value, ast.Name)
                      and n.func.value.id == name and n.func.attr in ("add", "update") for n in ast.walk(fn))
        passed = [n for n in ast.walk(fn) if isinstance(n, ast.Call) and ast.unparse(n.func).split(".")[-1] == fn.name
                  and any(k.arg == name and isinstance(k.value, ast.Name) and k.value.id == name for k in n.keywords)]
        if created and mutated and passed:
            yield passed[0], (f"`{name}` is created on first entry, mutated in place and passed unchanged to the recursive call: sibling branches share "
                              f"it, so a node needed at two places is expanded only at the first")


def l5_last_iteration_wins(fn) -> Iterable[Tuple[ast.AST, str]]:
    def scan(body):
        for idx, st in enumerate(body):
            if isinstance(st, (ast.For, ast.AsyncFor)):
                has_break = any(isinstance(n, (ast.Break, ast.Return)) for s in st.body for n in ast.walk(s))
                after = set()
                for later in body[idx + 1:]:
                    after |= _names_loaded(later)
                loop_targets = set(_target_names(st.target))
                if not has_break and not st.orelse:
                    for s in st.body:
                        if isinstance(s, ast.Assign) and len(s.targets) == 1 and isinstance(s.targets[0], ast.Name):
                            v = s.targets[0].id
                            reads_in_loop = any(v in _names_loaded(x) for x in st.body)
                            # a value computed from the loop variable, never read in the loop, read after it, and initialised before it
                            init_before = any(isinstance(b, (ast.Assign, ast.AnnAssign)) and v in _assigned_names(b) for b in body[:idx])
                            if (not reads_in_loop and v in after and init_before and (_names_loaded(s.value) & loop_targets)
                                    and not isinstance(s.value, ast.Name)):
                                yield s, (f"`{v}` is initialised before the loop, overwritten (not accumulated) in every iteration of "
                                          f"`for {ast.unparse(st.target)} in {ast.unparse(st.iter)[:50]}` and only read afterwards: "
                                          f"only the last iteration decides")
                scan(st.body)
            elif isinstance(st, (ast.If, ast.With, ast.Try, ast.While)):
                for f in ("body", "orelse", "finalbody"):
                    b = getattr(st, f, None)
                    if isinstance(b, list) and b and isinstance(b[0], ast.stmt):
                        scan(b)
    yield from scan(fn.body)


_INDEX_ATTR = re.compile(r"(^|_)index$")


def l6_index_truthiness(fn) -> Iterable[Tuple[ast.AST, str]]:
    """A position (``x.oneof_index``, ``s.find(..)``, ``l.index(..)``, or a local bound to one, possibly as ``p if c else None``)
    used as a truth value: position 0 is a valid position, so the test silently excludes the first element."""
    def source(e, names):
        if isinstance(e, ast.IfExp):
            arms = [a for a in (e.body, e.orelse) if not (isinstance(a, ast.Constant) and a.value is None)]
            return len(arms) == 1 and source(arms[0], names)
        if isinstance(e, ast.Attribute):
            return bool(_INDEX_ATTR.search(e.attr))
        if isinstance(e, ast.Call) and isinstance(e.func, ast.Attribute) and e.func.attr in ("index", "find", "rfind"):
            return True
        return isinstance(e, ast.Name) and e.id in names
    names = set()
    for _ in range(2):
        for n in ast.walk(fn):
            if isinstance(n, ast.Assign) and len(n.targets) == 1 and isinstance(n.targets[0], ast.Name) and source(n.value, names):
                names.add(n.targets[0].id)
            elif isinstance(n, ast.AnnAssign) and n.value is not None and isinstance(n.target, ast.Name) and source(n.value, names):
                names.add(n.target.id)
    # a name that is also bound to something else is not tracked
    for n in ast.walk(fn):
        if isinstance(n, ast.Assign) and len(n.targets) == 1 and isinstance(n.targets[0], ast.Name) and n.targets[0].id in names \
                and not source(n.value, names):
            names.discard(n.targets[0].id)

    def truth_atoms(e):
        if isinstance(e, ast.BoolOp):
            for v in e.values:
                yield from truth_atoms(v)
        elif isinstance(e, ast.UnaryOp) and isinstance(e.op, ast.Not):
            yield from truth_atoms(e.operand)
        else:
            yield e
    for n in ast.walk(fn):
        tests = []
        if isinstance(n, (ast.If, ast.IfExp, ast.While, ast.Assert)):
            tests.append(n.test)
        elif isinstance(n, ast.comprehension):
            tests.extend(n.ifs)
        elif isinstance(n, ast.BoolOp) or (isinstance(n, ast.UnaryOp) and isinstance(n.op, ast.Not)):
            tests.append(n)
        for t in tests:
            for a in truth_atoms(t):
                if isinstance(a, (ast.Name, ast.Attribute, ast.Call)) and source(a, names) and not isinstance(a, ast.IfExp):
                    yield a, (f"`{ast.unparse(a)}` is a position and is used as a truth value: position 0 (the first element) is treated "
                              f"like 'absent'")
                    return


def l7_replace_matched_by_value(fn) -> Iterable[Tuple[ast.AST, str]]:
    """``text.replace(part, new)`` where ``part`` is a named group / span of a regex match and ``text`` is the whole match (or the
    searched string): the rewrite is by value, not by position, so every other occurrence of the same characters in ``text``
    (the rest of the match, e.g. the template after the variable name) is rewritten too."""
    def is_group(e, names, nonzero):
        if isinstance(e, ast.Name) and e.id in names:
            return True
        if isinstance(e, ast.Call) and isinstance(e.func, ast.Attribute) and e.func.attr == "group":
            whole = not e.args or (isinstance(e.args[0], ast.Constant) and e.args[0].value == 0)
            return (not whole) if nonzero else whole
        if isinstance(e, ast.Subscript) and isinstance(e.slice, ast.Constant) and not nonzero:
            return e.slice.value == 0
        return False
    parts, wholes, searched = set(), set(), set()
    for n in ast.walk(fn):
        if isinstance(n, ast.Assign) and len(n.targets) == 1 and isinstance(n.targets[0], ast.Name):
            if is_group(n.value, (), True):
                parts.add(n.targets[0].id)
            elif is_group(n.value, (), False):
                wholes.add(n.targets[0].id)
        if isinstance(n, ast.Call) and isinstance(n.func, ast.Attribute) and n.func.attr in ("finditer", "search", "match", "fullmatch", "sub") and n.args:
            a = n.args[-1] if n.func.attr != "sub" or len(n.args) < 2 else n.args[1]
            if isinstance(a, ast.Name):
                searched.add(a.id)
    for n in ast.walk(fn):
        if (isinstance(n, ast.Call) and isinstance(n.func, ast.Attribute) and n.func.attr == "replace" and len(n.args) == 2 and not n.keywords
                and is_group(n.args[0], parts, True)):
            recv = n.func.value
            if is_group(recv, wholes, False) or (isinstance(recv, ast.Attribute) and recv.attr == "string") or (isinstance(recv, ast.Name) and recv.id in searched):
                yield n, (f"`{ast.unparse(n)[:80]}` rewrites every occurrence of the matched part inside the whole match / searched text, "
                          f"not the matched span: equal characters elsewhere (the rest of the pattern) are rewritten as well")
                return


def l8_shared_mutable_fill(fn) -> Iterable[Tuple[ast.AST, str]]:
    """``dict.fromkeys(keys, <mutable>)`` / ``[<mutable>] * n``: every key / position refers to the SAME dict, list or set, so a later
    ``table[k][slot] = v`` (or append / add) written for one key shows up under all of them."""
    def mutable(e):
        if isinstance(e, (ast.Dict, ast.List, ast.Set, ast.DictComp, ast.ListComp, ast.SetComp)):
            return True
        return isinstance(e, ast.Call) and isinstance(e.func, ast.Name) and e.func.id in ("dict", "list", "set", "defaultdict", "OrderedDict")
    for n in ast.walk(fn):
        if isinstance(n, ast.Call) and isinstance(n.func, ast.Attribute) and n.func.attr == "fromkeys" and len(n.args) == 2 and mutable(n.args[1]):
            yield n, (f"`{ast.unparse(n)[:90]}` gives every key the same {type(n.args[1]).__name__.lower()} object: an entry written for one key "
                      f"is seen (and overwritten) under every other key")
            return
        if isinstance(n, ast.BinOp) and isinstance(n.op, ast.Mult):
            for side in (n.left, n.right):
                if isinstance(side, ast.List) and len(side.elts) == 1 and mutable(side.elts[0]):
                    yield n, f"`{ast.unparse(n)[:90]}` repeats one mutable object: all positions alias it"
                    return


LINTS = (("L8", l8_shared_mutable_fill), ("L7", l7_replace_matched_by_value), ("L6", l6_index_truthiness), ("L5", l5_last_iteration_wins), ("L1", l1_unused_loop_var), ("L2", l2_stale_loop_state), ("L3", l3_per_iteration_accumulator), ("L4", l4_shared_visited_set))


W, A = "gapic.schema.wrappers.", "gapic.schema.api."
PB = A + "_ProtoBuilder."


def _m(prefix, names):
    return [prefix + n for n in names.split()]


# property -> (functions its mechanisms live in, description).  An entry is an exact qualified name, a prefix (class, module or
# package: everything below it) or `*.name` (that method of any class).  Functions reached from an entry through `self.x` /
# module-level calls are included too (so a helper split out of a mechanism stays in scope).  The lists are deliberately narrow:
# a slip in a function that is not a mechanism of the property is reported under the properties it does belong to, not here.
SCOPES = {
    "C01": (["gapic.generator.generator.Generator", "gapic.cli.generate.generate", A + "API.build", A + "Proto.build", A + "Proto.python_modules",
             A + "Proto.names", A + "Proto.disambiguate", "gapic.schema.metadata.Address", "gapic.schema.naming", "gapic.schema.imp"],
            "the generator driver, proto/module naming, addresses"),
    "C02": (_m(PB, "__init__ proto api_enums api_messages _load_children _get_oneofs _get_fields _load_message _load_enum")
            + _m(W + "Field.", "name ident is_primitive map proto_type repeated required type with_context __getattr__")
            + _m(W + "MessageType.", "oneof_fields field_types recursive_field_types map ident get_field with_context __getattr__")
            + _m(W + "EnumType.", "ident with_context __getattr__") + [W + "Oneof", W + "EnumValueType", W + "PythonType", W + "PrimitiveType",
                                                                     "gapic.schema.metadata.Address"],
            "the descriptor loaders and the field / message / enum wrappers"),
    "C03": (_m(W + "Method.", "grpc_stub_type client_output client_output_async _client_output void ident ref_types flat_ref_types _ref_types "
                              "with_context __getattr__ client_method_name transport_safe_name")
            + _m(PB, "_get_methods _load_service")
            + _m(W + "Service.", "host client_name async_client_name transport_name grpc_transport_name grpc_asyncio_transport_name with_context "
                               "__getattr__ any_client_streaming any_server_streaming"),
            "method / service wrappers and loaders"),
    "C04": ([W + "HttpRule", "gapic.utils.uri_conv", "gapic.utils.case"] + _m(W + "Method.", "http_options http_opt path_params query_params body_fields")
            + _m(W + "MessageType.", "get_field required_fields"), "HTTP rule parsing and URI helpers"),
    "C05": (_m(W + "Method.", "flattened_fields _fields_mapping flattened_field_to_key legacy_flattened_fields flattened_oneof_fields")
            + _m(W + "Field.", "ident type repeated map is_primitive"), "flattened-field derivation"),
    "C06": ([W + "RoutingParameter", W + "RoutingRule", W + "FieldHeader"] + _m(W + "Method.", "field_headers explicit_routing routing_rule"),
            "routing-rule and field-header derivation"),
    "C07": (_m(W + "Method.", "paged_result_field _validate_paged_field_size_type client_output client_output_async _client_output")
            + _m(PB, "_load_message _get_fields") + [W + "Service.has_pagers"], "paging classification and the field loaders it depends on"),
    "C08": (_m(PB, "_maybe_get_lro _maybe_get_extended_lro _get_methods") + _m(A + "API.", "http_options get_custom_operation_service get_extended_operations_services")
            + [W + "OperationInfo", W + "ExtendedOperationInfo"]
            + _m(W + "Method.", "operation_service is_operation_polling_method client_output client_output_async _client_output")
            + _m(W + "Service.", "has_lro has_extended_lro operation_polling_method any_extended_operations_methods")
            + _m(W + "MessageType.", "extended_operation_request_fields extended_operation_response_fields differently_named_extended_operation_fields "
                                   "is_extended_operation extended_operation_status_field")
            + _m(W + "Field.", "operation_field operation_request_field operation_response_field"),
            "LRO resolution, operations-client HTTP options, operation wrappers"),
    "C09": (_m(PB, "_get_retry_and_timeout _to_float _get_methods") + ["gapic.utils.options.Options.build"],
            "the service-config reader and retry/timeout carriers"),
    "C11": (["gapic.generator.generator.Generator", "gapic.schema.naming", "gapic.utils.options.Options.build", "gapic.utils.filename",
             A + "API.subpackages", A + "API.build"], "file-set driver and naming"),
    "C12": ([A + "Proto.names", A + "Proto.disambiguate", A + "API.build", "gapic.utils.uri_conv", "gapic.utils.case", W + "Field.name", W + "FieldHeader",
             W + "HttpRule.try_parse_http_rule", W + "MessageType.get_field", W + "Service.names"]
            + _m("gapic.schema.metadata.Address.", "module_alias with_context python_import")
            + _m(W + "Method.", "client_method_name transport_safe_name _fields_mapping"), "renaming and collision sites"),
    "C14": (["gapic.samplegen", "gapic.samplegen_utils", "gapic.generator.generator.Generator._generate_samples_and_manifest"], "sample generation"),
    "C15": (_m(A + "API.", "gapic_metadata gapic_metadata_json"), "metadata JSON"),
    "C16": (["*.add_to_address_allowlist", "*.prune_messages_for_selective_generation", "*.with_internal_methods", A + "API.build"],
            "selective-generation traversal and pruning"),
    "C17": (_m(A + "API.", "mixin_api_signatures mixin_api_methods mixin_http_options has_location_mixin has_iam_mixin has_operations_mixin "
                          "_has_iam_overrides _get_methods_from_service") + [W + "MixinHttpRule"], "mixin configuration"),
    "C18": (_m(A + "API.", "all_method_settings enforce_valid_method_settings all_methods") + [W + "Field.uuid4"], "auto-populated field resolution"),
    "C19": (_m(W + "MessageType.", "resource_path resource_type resource_type_full_path resource_path_args resource_path_formatted path_regex_str "
                                   "recursive_resource_fields")
            + [W + "CommonResource", W + "Service.resource_messages", W + "Service.resource_messages_dict", A + "Proto.resource_messages",
               W + "Field.resource_reference"], "resource path derivation"),
    "C20": (["gapic.utils.lines", "gapic.utils.rst", "gapic.utils.doc", "gapic.generator.formatter", "gapic.schema.metadata.Metadata.doc"],
            "comment and whitespace utilities"),
}


def _matches(q: str, entry: str) -> bool:
    if entry.startswith("*."):
        return q.endswith(entry[1:])
    return q == entry or q.startswith(entry + ".")


def _allocated(q: str) -> bool:
    return any(_matches(q, e) for ent, _ in SCOPES.values() for e in ent)


def scope_functions(pm, entries) -> List[str]:
    """entries plus the helpers they reach through `self.x` / `cls.x` members and bare-name module functions (precise edges only);
    the closure stops at functions that are themselves listed as a mechanism of some property (they are checked where they belong)"""
    out = [q for q in pm.functions if any(_matches(q, e) for e in entries)]
    seen = set(out)
    work = list(out)
    while work:
        q = work.pop()
        fi = pm.functions[q]
        for n in ast.walk(fi.node):
            tgt = None
            if isinstance(n, ast.Attribute) and isinstance(n.value, ast.Name) and n.value.id in ("self", "cls") and fi.cls is not None:
                mem = pm.member(fi.cls, n.attr)
                if mem is not None:
                    tgt = f"{mem.owner}.{n.attr}"
            elif isinstance(n, ast.Call) and isinstance(n.func, ast.Name):
                tgt = f"{fi.module.name}.{n.func.id}"
                if tgt not in pm.functions:
                    nested = f"{q}.<locals>.{n.func.id}"
                    tgt = nested if nested in pm.functions else None
            if tgt and tgt in pm.functions and tgt not in seen and not _allocated(tgt):
                seen.add(tgt)
                out.append(tgt)
                work.append(tgt)
    return sorted(out)


def run_for(report):
    scope = SCOPES.get(report.pid)
    if not scope:
        return None
    from .skq import pm
    return run(report, pm(), scope[0], f"{report.pid}.L", scope[1])


def run(report, pm, prefix_quals: Iterable[str], rule_id: str, what: str, floor: int = 3):
    """Apply the lint rules to every repository function whose qualified name starts with one of `prefix_quals`."""
    r = report.rule(rule_id, f"no loop-variable slip, stale or overwritten loop state, per-iteration accumulator or shared visited set in {what}", floor=floor)
    for e in prefix_quals:
        r.need(any(_matches(q, e) for q in pm.functions), e, "scope entry matches no function (renamed or removed mechanism: update vlib/lints.py SCOPES)")
    for q in scope_functions(pm, prefix_quals):
        fi = pm.functions[q]
        r.instance(q)
        for lid, fn in LINTS:
            for node, msg in fn(fi.node):
                r.violation(fi.module.path, getattr(node, "lineno", fi.node.lineno), f"{q}: {lid} {ast.unparse(node)[:90]}", f"{lid}: {msg}")
        r.ok()
    # positive fixture: every rule must still match its example
    fx = ast.parse(open(core.VERIF + "/fixtures/lint_fixture.py").read())
    hits = set()
    for f in fx.body:
        if isinstance(f, ast.FunctionDef):
            for lid, fn in LINTS:
                if list(fn(f)):
                    hits.add(lid)
    r.need(hits == {"L1", "L2", "L3", "L4", "L5", "L6", "L7", "L8"}, "fixtures/lint_fixture.py", f"rules matching their positive fixture: {sorted(hits)}")
    return r
