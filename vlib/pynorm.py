"""Engine N: normal form of repository functions, so that rules written as patterns survive behaviour-preserving refactorings.

A rule first tries its pattern on the function as written; when that fails it tries the NORMAL FORM, in which the usual
refactorings are undone (each step is an equivalence for side-effect-free schema code, which is what the rules look at):

  N1  "...{a}...".format(a=x)            ->  f"...{x}..."            (literal templates only)
  N2  module / class constants           ->  their value              (names bound once to a closed expression: hoisted
                                                                       regexes, tables, frozensets)
  N3  small helpers                      ->  their body               (single-`return` functions / properties / nested defs of the
                                                                       repository, at most 3 levels; names that occur in the rule's
                                                                       own pattern are kept)
  N4  single-assignment locals           ->  their value              (forward substitution)
  N5  if/return ladders, guard clauses,
      if/else assignments                ->  conditional expressions  (`x if not c else y` -> `y if c else x`)
  N6  search loops                       ->  next(...) / any(...)     (`for t in it: if c: return e` ... `return d`)
      collecting loops                   ->  comprehensions           (`out = []; for ..: if c: out.append(e)`)

The normal form is only ever used for MATCHING; reports always point at the source as written."""
from __future__ import annotations

import ast
import copy
import string
from typing import Dict, List, Optional, Set, Tuple

from .pymodel import PyModel, FuncInfo, PROP_DECOS

MAX_DEPTH = 3


def _is_docstring(st) -> bool:
    return isinstance(st, ast.Expr) and isinstance(st.value, ast.Constant) and isinstance(st.value.value, str)


def body_of(fn) -> list:
    return [s for s in fn.body if not _is_docstring(s) and not isinstance(s, ast.Pass)]


class _Subst(ast.NodeTransformer):
    def __init__(self, mapping: Dict[str, ast.AST]):
        self.mapping = mapping

    def visit_Name(self, node):
        if isinstance(node.ctx, ast.Load) and node.id in self.mapping:
            return copy.deepcopy(self.mapping[node.id])
        return node

    def visit_Lambda(self, node):
        shadow = {a.arg for a in node.args.args + node.args.kwonlyargs}
        inner = _Subst({k: v for k, v in self.mapping.items() if k not in shadow})
        node.body = inner.visit(node.body)
        return node

    def _comp(self, node):
        shadow = set()
        for g in node.generators:
            for n in ast.walk(g.target):
                if isinstance(n, ast.Name):
                    shadow.add(n.id)
        inner = _Subst({k: v for k, v in self.mapping.items() if k not in shadow})
        first = True
        for g in node.generators:
            g.iter = (self if first else inner).visit(g.iter)
            first = False
            g.ifs = [inner.visit(c) for c in g.ifs]
        if isinstance(node, ast.DictComp):
            node.key, node.value = inner.visit(node.key), inner.visit(node.value)
        else:
            node.elt = inner.visit(node.elt)
        return node

    visit_ListComp = visit_SetComp = visit_GeneratorExp = visit_DictComp = _comp


def subst(node, mapping):
    return _Subst(mapping).visit(copy.deepcopy(node))


def names_loaded(node) -> Set[str]:
    return {n.id for n in ast.walk(node) if isinstance(n, ast.Name) and isinstance(n.ctx, ast.Load)}


def function_scope_stores(node):
    """(name, node) for every binding that belongs to the enclosing function scope: comprehension targets and lambda parameters live in
    scopes of their own and are skipped"""
    out = []

    def walk(n, in_comp_target=False):
        if isinstance(n, (ast.ListComp, ast.SetComp, ast.GeneratorExp, ast.DictComp)):
            for g in n.generators:
                walk(g.iter)
                for c in g.ifs:
                    walk(c)
            if isinstance(n, ast.DictComp):
                walk(n.key)
                walk(n.value)
            else:
                walk(n.elt)
            return
        if isinstance(n, ast.Lambda):
            walk(n.body)
            return
        if isinstance(n, ast.Name) and isinstance(n.ctx, (ast.Store, ast.Del)):
            out.append((n.id, n))
        for c in ast.iter_child_nodes(n):
            walk(c)
    walk(node)
    return out


def names_stored(node) -> Set[str]:
    out = set()
    for n in ast.walk(node):
        if isinstance(n, ast.Name) and isinstance(n.ctx, (ast.Store, ast.Del)):
            out.add(n.id)
        elif isinstance(n, ast.arg):
            out.add(n.arg)
    return out


# ---------------------------------------------------------------------------------------------------------
# expression-level rewrites (also applied to patterns)

class _ExprNorm(ast.NodeTransformer):
    def visit_BoolOp(self, node):
        self.generic_visit(node)
        # m.get(a) or m.get(b) [or ...]  ->  next((_m for _m in [m.get(a), m.get(b)] if _m), None): "the first present of ..." has one spelling
        # (mapping values are objects or None here, so a falsy last operand is None either way)
        def is_get(e):
            return isinstance(e, ast.Call) and isinstance(e.func, ast.Attribute) and e.func.attr == "get" and 1 <= len(e.args) <= 2 and not e.keywords
        if isinstance(node.op, ast.Or) and len(node.values) >= 2 and all(is_get(v) for v in node.values) \
                and len({ast.unparse(v.func.value) for v in node.values}) == 1:
            gen = ast.GeneratorExp(elt=ast.Name(id="_m", ctx=ast.Load()),
                                   generators=[ast.comprehension(target=ast.Name(id="_m", ctx=ast.Store()), iter=ast.List(elts=list(node.values), ctx=ast.Load()),
                                                                 ifs=[ast.Name(id="_m", ctx=ast.Load())], is_async=0)])
            return ast.copy_location(ast.Call(func=ast.Name(id="next", ctx=ast.Load()), args=[gen, ast.Constant(value=None)], keywords=[]), node)
        return node

    def visit_Call(self, node):
        self.generic_visit(node)
        # m.get(k) -> m.get(k, None)
        if isinstance(node.func, ast.Attribute) and node.func.attr == "get" and len(node.args) == 1 and not node.keywords \
                and not isinstance(node.args[0], ast.Starred):
            node = ast.copy_location(ast.Call(func=node.func, args=[node.args[0], ast.Constant(value=None)], keywords=[]), node)
        # operator.attrgetter('a') -> lambda _k: _k.a
        if ast.unparse(node.func) in ("operator.attrgetter", "attrgetter") and len(node.args) == 1 and not node.keywords \
                and isinstance(node.args[0], ast.Constant) and isinstance(node.args[0].value, str) and node.args[0].value.isidentifier():
            return ast.copy_location(ast.Lambda(args=ast.arguments(posonlyargs=[], args=[ast.arg(arg="_k")], kwonlyargs=[], kw_defaults=[], defaults=[]),
                                                body=ast.Attribute(value=ast.Name(id="_k", ctx=ast.Load()), attr=node.args[0].value, ctx=ast.Load())), node)
        # keyword.iskeyword(x) -> x in keyword.kwlist   (iskeyword is frozenset(kwlist).__contains__)
        if ast.unparse(node.func) in ("keyword.iskeyword", "iskeyword") and len(node.args) == 1 and not node.keywords:
            return ast.copy_location(ast.Compare(left=node.args[0], ops=[ast.In()],
                                                 comparators=[ast.Attribute(value=ast.Name(id="keyword", ctx=ast.Load()), attr="kwlist", ctx=ast.Load())]), node)
        # getattr(x, 'name') -> x.name
        if isinstance(node.func, ast.Name) and node.func.id == "getattr" and len(node.args) == 2 and not node.keywords \
                and isinstance(node.args[1], ast.Constant) and isinstance(node.args[1].value, str) and node.args[1].value.isidentifier():
            return ast.copy_location(ast.Attribute(value=node.args[0], attr=node.args[1].value, ctx=ast.Load()), node)
        # map(f, S) -> (f(x) for x in S) ; filter(None, S) -> (x for x in S if x) ; filter(lambda v: P, S) -> (v for v in S if P)
        if isinstance(node.func, ast.Name) and node.func.id == "map" and len(node.args) == 2 and not node.keywords \
                and isinstance(node.args[0], (ast.Name, ast.Attribute)):
            v = ast.Name(id="_m", ctx=ast.Load())
            return self._comp(ast.copy_location(ast.GeneratorExp(
                elt=ast.Call(func=node.args[0], args=[v], keywords=[]),
                generators=[ast.comprehension(target=ast.Name(id="_m", ctx=ast.Store()), iter=node.args[1], ifs=[], is_async=0)]), node))
        if isinstance(node.func, ast.Name) and node.func.id == "filter" and len(node.args) == 2 and not node.keywords:
            if isinstance(node.args[0], ast.Constant) and node.args[0].value is None:
                v = ast.Name(id="_m", ctx=ast.Load())
                return ast.copy_location(ast.GeneratorExp(elt=v, generators=[ast.comprehension(target=ast.Name(id="_m", ctx=ast.Store()), iter=node.args[1],
                                                                                               ifs=[ast.Name(id="_m", ctx=ast.Load())], is_async=0)]), node)
            if isinstance(node.args[0], ast.Lambda) and len(node.args[0].args.args) == 1:
                lam = node.args[0]
                nm = lam.args.args[0].arg
                return ast.copy_location(ast.GeneratorExp(elt=ast.Name(id=nm, ctx=ast.Load()),
                                                          generators=[ast.comprehension(target=ast.Name(id=nm, ctx=ast.Store()), iter=node.args[1], ifs=[lam.body], is_async=0)]), node)
            if isinstance(node.args[0], ast.Name):      # filter(pred, S) with a named predicate -> (v for v in S if pred(v))
                return ast.copy_location(ast.GeneratorExp(
                    elt=ast.Name(id="_m", ctx=ast.Load()),
                    generators=[ast.comprehension(target=ast.Name(id="_m", ctx=ast.Store()), iter=node.args[1],
                                                  ifs=[ast.Call(func=node.args[0], args=[ast.Name(id="_m", ctx=ast.Load())], keywords=[])], is_async=0)]), node)
        # f([x for ...]) -> f(x for ...) for consumers that only iterate
        fname_ = node.func.attr if isinstance(node.func, ast.Attribute) else (node.func.id if isinstance(node.func, ast.Name) else "")
        if fname_ in ("join", "any", "all", "sum", "min", "max", "sorted", "set", "frozenset", "tuple", "list", "dict", "OrderedDict", "next", "chain") \
                and node.args and isinstance(node.args[0], ast.ListComp):
            lc = node.args[0]
            node.args[0] = ast.copy_location(ast.GeneratorExp(elt=lc.elt, generators=lc.generators), lc)
        # frozenset({...}) / set([...]) of constants -> a sorted set display (tables hoisted to module level)
        if isinstance(node.func, ast.Name) and node.func.id in ("set", "frozenset") and len(node.args) == 1 and not node.keywords \
                and isinstance(node.args[0], (ast.Set, ast.List, ast.Tuple)) and node.args[0].elts and all(isinstance(e, ast.Constant) for e in node.args[0].elts):
            return ast.copy_location(ast.Set(elts=sorted(node.args[0].elts, key=lambda e: repr(e.value))), node)
        # N1: "<literal>".format(...)
        if isinstance(node.func, ast.Attribute) and node.func.attr == "format" and isinstance(node.func.value, ast.Constant) \
                and isinstance(node.func.value.value, str) and not any(isinstance(a, ast.Starred) for a in node.args) \
                and not any(k.arg is None for k in node.keywords):
            try:
                parts = list(string.Formatter().parse(node.func.value.value))
            except ValueError:
                return node
            values, auto = [], 0
            kw = {k.arg: k.value for k in node.keywords}
            for lit, field, spec, conv in parts:
                if lit:
                    values.append(ast.Constant(value=lit))
                if field is None:
                    continue
                if spec or conv:
                    return node
                head = field.split(".")[0].split("[")[0]
                if field == "":
                    if auto >= len(node.args):
                        return node
                    e = node.args[auto]
                    auto += 1
                elif field.isdigit():
                    if int(field) >= len(node.args):
                        return node
                    e = node.args[int(field)]
                elif field in kw:
                    e = kw[field]
                elif head in kw and field != head:
                    try:
                        e = ast.parse(field, mode="eval").body
                    except SyntaxError:
                        return node
                    e = subst(e, {head: kw[head]})
                else:
                    return node
                values.append(ast.FormattedValue(value=copy.deepcopy(e), conversion=-1, format_spec=None))
            return ast.copy_location(_merge_joined(ast.JoinedStr(values=values)), node)
        return node

    def visit_JoinedStr(self, node):
        self.generic_visit(node)
        # f"{a}{x if c else y}"  ->  f"{a}{x}" if c else f"{a}{y}"
        for i, v in enumerate(node.values):
            if isinstance(v, ast.FormattedValue) and v.conversion == -1 and v.format_spec is None and isinstance(v.value, ast.IfExp):
                def variant(e):
                    vals = list(node.values)
                    vals[i] = ast.FormattedValue(value=e, conversion=-1, format_spec=None)
                    return self.visit_JoinedStr(ast.JoinedStr(values=copy.deepcopy(vals)))
                return ast.copy_location(ast.IfExp(test=v.value.test, body=variant(v.value.body), orelse=variant(v.value.orelse)), node)
        return _merge_joined(node)

    def visit_UnaryOp(self, node):
        self.generic_visit(node)
        if isinstance(node.op, ast.Not) and isinstance(node.operand, ast.UnaryOp) and isinstance(node.operand.op, ast.Not):
            return node.operand.operand       # not not x (only ever used as a test)
        return node

    def visit_IfExp(self, node):
        self.generic_visit(node)
        # N5: x if not c else y -> y if c else x
        if isinstance(node.test, ast.UnaryOp) and isinstance(node.test.op, ast.Not):
            node = ast.copy_location(ast.IfExp(test=node.test.operand, body=node.orelse, orelse=node.body), node)
        # True if c else False -> c ; False if c else True -> not c   (only ever used as tests by the rules)
        def const(e, v):
            return isinstance(e, ast.Constant) and e.value is v
        if const(node.body, True) and const(node.orelse, False):
            return node.test
        if const(node.body, False) and const(node.orelse, True):
            return ast.copy_location(ast.UnaryOp(op=ast.Not(), operand=node.test), node)
        return node

    def visit_Subscript(self, node):
        self.generic_visit(node)
        # x.rpartition(s)[2] / x.rsplit(s, 1)[-1] -> x.split(s)[-1] ; x.partition(s)[0] / x.split(s, 1)[0] -> x.split(s)[0]
        v, sl = node.value, node.slice
        def const(e):
            if isinstance(e, ast.UnaryOp) and isinstance(e.op, ast.USub) and isinstance(e.operand, ast.Constant):
                return -e.operand.value
            return e.value if isinstance(e, ast.Constant) else None
        if isinstance(v, ast.Call) and isinstance(v.func, ast.Attribute) and v.args and not v.keywords and isinstance(node.ctx, ast.Load):
            meth, idx = v.func.attr, const(sl)
            def split(i):
                call = ast.Call(func=ast.Attribute(value=v.func.value, attr="split", ctx=ast.Load()), args=[v.args[0]], keywords=[])
                return ast.copy_location(ast.Subscript(value=call, slice=ast.UnaryOp(op=ast.USub(), operand=ast.Constant(value=1)) if i == -1
                                                       else ast.Constant(value=0), ctx=ast.Load()), node)
            if meth == "rpartition" and len(v.args) == 1 and idx in (2, -1):
                return split(-1)
            if meth == "rsplit" and len(v.args) == 2 and const(v.args[1]) == 1 and idx in (1, -1):
                return split(-1)
            if meth == "partition" and len(v.args) == 1 and idx == 0:
                return split(0)
            if meth == "split" and len(v.args) == 2 and const(v.args[1]) == 1 and idx == 0:
                return split(0)
        return node

    def visit_Compare(self, node):
        self.generic_visit(node)
        # x in frozenset(Y) / set(Y) / tuple(Y) / list(Y)  ->  x in Y     (membership does not care about the container kind)
        if len(node.ops) == 1 and isinstance(node.ops[0], (ast.In, ast.NotIn)):
            rhs = node.comparators[0]
            if isinstance(rhs, ast.Call) and isinstance(rhs.func, ast.Name) and rhs.func.id in ("set", "frozenset", "tuple", "list") \
                    and len(rhs.args) == 1 and not rhs.keywords and not isinstance(rhs.args[0], (ast.GeneratorExp, ast.ListComp, ast.SetComp)):
                node.comparators[0] = rhs.args[0]
        # len(list(filter(lambda v: P(v), IT))) > 0  /  len([v for v in IT if P(v)]) > 0   ->   any(P(v) for v in IT)
        if len(node.ops) == 1 and isinstance(node.ops[0], (ast.Gt, ast.NotEq)) and isinstance(node.comparators[0], ast.Constant) and node.comparators[0].value == 0 \
                and isinstance(node.left, ast.Call) and isinstance(node.left.func, ast.Name) and node.left.func.id == "len" and len(node.left.args) == 1:
            inner = node.left.args[0]
            if isinstance(inner, ast.Call) and isinstance(inner.func, ast.Name) and inner.func.id in ("list", "tuple") and len(inner.args) == 1:
                inner = inner.args[0]
            elif isinstance(inner, ast.List) and len(inner.elts) == 1 and isinstance(inner.elts[0], ast.Starred):
                inner = inner.elts[0].value           # [*X] produced by the sequence canonicalisation
            gen = None
            if isinstance(inner, ast.Call) and isinstance(inner.func, ast.Name) and inner.func.id == "filter" and len(inner.args) == 2 \
                    and isinstance(inner.args[0], ast.Lambda) and len(inner.args[0].args.args) == 1:
                lam = inner.args[0]
                gen = ast.GeneratorExp(elt=lam.body, generators=[ast.comprehension(target=ast.Name(id=lam.args.args[0].arg, ctx=ast.Store()),
                                                                                     iter=inner.args[1], ifs=[], is_async=0)])
            elif isinstance(inner, (ast.ListComp, ast.GeneratorExp)) and len(inner.generators) == 1 and len(inner.generators[0].ifs) == 1:
                g = inner.generators[0]
                gen = ast.GeneratorExp(elt=g.ifs[0], generators=[ast.comprehension(target=g.target, iter=g.iter, ifs=[], is_async=0)])
            if gen is not None:
                return ast.copy_location(ast.Call(func=ast.Name(id="any", ctx=ast.Load()), args=[gen], keywords=[]), node)
        return node

    def visit_Set(self, node):
        self.generic_visit(node)
        if all(isinstance(e, ast.Constant) for e in node.elts):
            node.elts = sorted(node.elts, key=lambda e: repr(e.value))
        return node

    def visit_BinOp(self, node):
        self.generic_visit(node)
        # x + (s if c else '')  ->  (x + s) if c else x
        if isinstance(node.op, ast.Add) and isinstance(node.right, ast.IfExp):
            r = node.right
            def empty(e):
                return isinstance(e, ast.Constant) and e.value == ""
            if empty(r.orelse) or empty(r.body):
                full = self.visit_BinOp(ast.BinOp(left=copy.deepcopy(node.left), op=ast.Add(), right=r.body if empty(r.orelse) else r.orelse))
                a, b = (full, node.left) if empty(r.orelse) else (node.left, full)
                return ast.copy_location(self.visit_IfExp(ast.IfExp(test=r.test, body=a, orelse=b)), node)
        # x + "lit" / "lit" + x / f"..." + x  ->  one f-string (a str literal operand makes the other one a str)
        if isinstance(node.op, ast.Add):
            def is_strlit(e):
                return (isinstance(e, ast.Constant) and isinstance(e.value, str)) or isinstance(e, ast.JoinedStr)
            if is_strlit(node.left) or is_strlit(node.right):
                vals = []
                for e in (node.left, node.right):
                    if isinstance(e, ast.JoinedStr):
                        vals += e.values
                    elif isinstance(e, ast.Constant) and isinstance(e.value, str):
                        vals.append(e)
                    else:
                        vals.append(ast.FormattedValue(value=e, conversion=-1, format_spec=None))
                return ast.copy_location(_merge_joined(ast.JoinedStr(values=vals)), node)
        return node

    def visit_AugAssign(self, node):
        self.generic_visit(node)
        if isinstance(node.target, ast.Name) and isinstance(node.op, ast.Add):
            val = self.visit_BinOp(ast.BinOp(left=ast.Name(id=node.target.id, ctx=ast.Load()), op=ast.Add(), right=node.value))
            return ast.copy_location(ast.Assign(targets=[ast.Name(id=node.target.id, ctx=ast.Store())], value=val), node)
        return node

    # -- sequences in iteration position: (a, *b) == [a, *b] == [a] + list(b); comprehension fusion -------------------------
    @staticmethod
    def _seq(e):
        """canonical list display for an expression that is only iterated"""
        if isinstance(e, ast.Tuple):
            return ast.copy_location(ast.List(elts=e.elts, ctx=ast.Load()), e)
        if isinstance(e, ast.BinOp) and isinstance(e.op, ast.Add):
            l, r = _ExprNorm._seq(e.left), _ExprNorm._seq(e.right)
            if isinstance(l, ast.List) and isinstance(r, ast.List):
                return ast.copy_location(ast.List(elts=l.elts + r.elts, ctx=ast.Load()), e)
            return e
        if isinstance(e, ast.Call) and isinstance(e.func, ast.Name) and e.func.id in ("list", "tuple") and len(e.args) == 1 and not e.keywords:
            return ast.copy_location(ast.List(elts=[ast.Starred(value=e.args[0], ctx=ast.Load())], ctx=ast.Load()), e)
        return e

    def _comp(self, node):
        self.generic_visit(node)
        for gi, g in enumerate(node.generators):
            g.iter = self._seq(g.iter)
            used = set()
            for c in g.ifs:
                used |= names_loaded(c)
            for g2 in node.generators[gi + 1:]:
                used |= names_loaded(g2.iter) | set().union(*[names_loaded(c) for c in g2.ifs]) if g2.ifs else names_loaded(g2.iter)
            used |= (names_loaded(node.key) | names_loaded(node.value)) if isinstance(node, ast.DictComp) else names_loaded(node.elt)
            g.target, g.iter = self._items_target(g.target, g.iter, used)
        # [E(a, b) for (a, b) in ((a1, b1), (a2, b2)) if C(a, b)]  ->  [*([E1] if C1 else []), *([E2] if C2 else [])]   (literal rows of constants / names)
        if isinstance(node, ast.ListComp) and len(node.generators) == 1 and isinstance(node.generators[0].iter, (ast.List, ast.Tuple)) \
                and 1 <= len(node.generators[0].iter.elts) <= 12 and not any(isinstance(x, ast.Starred) for x in node.generators[0].iter.elts):
            g = node.generators[0]
            tnames = [t.id for t in g.target.elts] if isinstance(g.target, ast.Tuple) and all(isinstance(t, ast.Name) for t in g.target.elts) else \
                ([g.target.id] if isinstance(g.target, ast.Name) else None)
            rows = []
            if tnames:
                for row in g.iter.elts:
                    if len(tnames) == 1 and not isinstance(g.target, ast.Tuple):
                        rows.append([row])
                    elif isinstance(row, (ast.Tuple, ast.List)) and len(row.elts) == len(tnames):
                        rows.append(list(row.elts))
                    else:
                        rows = None
                        break
            if rows:
                elts = []
                for row in rows:
                    mp = dict(zip(tnames, row))
                    item = self.visit(subst(node.elt, mp))
                    if g.ifs:
                        test = subst(g.ifs[0], mp) if len(g.ifs) == 1 else ast.BoolOp(op=ast.And(), values=[subst(c, mp) for c in g.ifs])
                        elts.append(ast.Starred(value=ast.IfExp(test=self.visit(test), body=ast.List(elts=[item], ctx=ast.Load()),
                                                              orelse=ast.List(elts=[], ctx=ast.Load())), ctx=ast.Load()))
                    else:
                        elts.append(item)
                return ast.copy_location(ast.List(elts=elts, ctx=ast.Load()), node)
        # [i for i in X] -> list(X)
        if isinstance(node, ast.ListComp) and len(node.generators) == 1 and not node.generators[0].ifs and isinstance(node.elt, ast.Name) \
                and isinstance(node.generators[0].target, ast.Name) and node.elt.id == node.generators[0].target.id:
            return ast.copy_location(ast.Call(func=ast.Name(id="list", ctx=ast.Load()), args=[node.generators[0].iter], keywords=[]), node)
        # [E(r) for r in (G(x) for x in L if C) if D(r)]  ->  [E(G(x)) for x in L if C if D(G(x))]
        if len(node.generators) == 1 and isinstance(node.generators[0].iter, (ast.GeneratorExp, ast.ListComp)) \
                and len(node.generators[0].iter.generators) == 1 and isinstance(node.generators[0].target, ast.Name):
            outer, inner = node.generators[0], node.generators[0].iter
            r = outer.target.id
            inner_names = names_stored(inner.generators[0].target)
            outer_loads = set().union(*[names_loaded(c) for c in outer.ifs]) if outer.ifs else set()
            outer_loads |= (names_loaded(node.key) | names_loaded(node.value)) if isinstance(node, ast.DictComp) else names_loaded(node.elt)
            if r not in inner_names and not (inner_names & (outer_loads - {r})):
                m = {r: inner.elt}
                ig = inner.generators[0]
                newg = ast.comprehension(target=ig.target, iter=ig.iter, ifs=list(ig.ifs) + [subst(c, m) for c in outer.ifs], is_async=0)
                if isinstance(node, ast.DictComp):
                    node.key, node.value = subst(node.key, m), subst(node.value, m)
                else:
                    node.elt = subst(node.elt, m)
                node.generators = [newg]
        return node

    visit_ListComp = visit_SetComp = visit_GeneratorExp = visit_DictComp = _comp

    @staticmethod
    def _items_target(target, it, used: Set[str]):
        """for k, v in X.items() with k unused -> for v in X.values(); with v unused -> for k in X; for k in X.keys() -> for k in X"""
        if isinstance(it, ast.Call) and isinstance(it.func, ast.Attribute) and not it.args and not it.keywords:
            if it.func.attr == "items" and isinstance(target, ast.Tuple) and len(target.elts) == 2 and all(isinstance(t, ast.Name) for t in target.elts):
                k, v = target.elts
                if k.id not in used:
                    return v, ast.Call(func=ast.Attribute(value=it.func.value, attr="values", ctx=ast.Load()), args=[], keywords=[])
                if v.id not in used:
                    return k, it.func.value
            if it.func.attr == "keys":
                return target, it.func.value
        return target, it

    def visit_For(self, node):
        self.generic_visit(node)
        node.iter = self._seq(node.iter)
        used = set()
        for b in node.body + node.orelse:
            used |= names_loaded(b)
        node.target, node.iter = self._items_target(node.target, node.iter, used)
        return node


def _merge_joined(js: ast.JoinedStr):
    vals = []
    for v in js.values:
        if isinstance(v, ast.Constant) and isinstance(v.value, str) and vals and isinstance(vals[-1], ast.Constant):
            vals[-1] = ast.Constant(value=vals[-1].value + v.value)
        elif isinstance(v, ast.FormattedValue) and isinstance(v.value, ast.Constant) and isinstance(v.value.value, str) and v.conversion == -1 \
                and v.format_spec is None:
            if vals and isinstance(vals[-1], ast.Constant):
                vals[-1] = ast.Constant(value=vals[-1].value + v.value.value)
            else:
                vals.append(ast.Constant(value=v.value.value))
        else:
            vals.append(v)
    js.values = vals
    if all(isinstance(v, ast.Constant) for v in vals):
        return ast.Constant(value="".join(v.value for v in vals))
    return js


def norm_expr(e):
    return ast.fix_missing_locations(_ExprNorm().visit(copy.deepcopy(e)))


# ---------------------------------------------------------------------------------------------------------
# statement-level rewrites

def _single_return(stmts) -> Optional[ast.expr]:
    stmts = [s for s in stmts if not _is_docstring(s) and not isinstance(s, ast.Pass)]
    if len(stmts) == 1 and isinstance(stmts[0], ast.Return):
        return stmts[0].value if stmts[0].value is not None else ast.Constant(value=None)
    return None


def _single_assign(stmts) -> Optional[Tuple[str, ast.expr]]:
    stmts = [s for s in stmts if not isinstance(s, ast.Pass)]
    if len(stmts) == 1 and isinstance(stmts[0], ast.Assign) and len(stmts[0].targets) == 1 and isinstance(stmts[0].targets[0], ast.Name):
        return stmts[0].targets[0].id, stmts[0].value
    if len(stmts) == 1 and isinstance(stmts[0], ast.AnnAssign) and isinstance(stmts[0].target, ast.Name) and stmts[0].value is not None:
        return stmts[0].target.id, stmts[0].value
    return None


def _ifexp(test, a, b):
    return _ExprNorm().visit(ast.IfExp(test=test, body=a, orelse=b))


def _per_line_rstrip(stmts: list) -> list:
    """N15:  *L, R = X.split('\n') ; L = [l.rstrip(' ') for l in L] ; X = '\n'.join([*L, R])   ->   X = re.sub('[ ]+\n', '\n', X)
    (blanks directly before a line break are removed, the text after the last line break is left alone - the two spellings of one pass)"""
    out, i = [], 0
    while i < len(stmts):
        a, b, c = (stmts[i:i + 3] + [None, None, None])[:3]
        hit = None
        if isinstance(a, ast.Assign) and len(a.targets) == 1 and isinstance(a.targets[0], (ast.Tuple, ast.List)) and len(a.targets[0].elts) == 2 \
                and isinstance(a.targets[0].elts[0], ast.Starred) and isinstance(a.targets[0].elts[0].value, ast.Name) and isinstance(a.targets[0].elts[1], ast.Name) \
                and isinstance(a.value, ast.Call) and isinstance(a.value.func, ast.Attribute) and a.value.func.attr == "split" and isinstance(a.value.func.value, ast.Name) \
                and len(a.value.args) == 1 and isinstance(a.value.args[0], ast.Constant) and a.value.args[0].value == "\n" \
                and isinstance(b, ast.Assign) and isinstance(c, ast.Assign):
            L, R, X = a.targets[0].elts[0].value.id, a.targets[0].elts[1].id, a.value.func.value.id
            okb = (len(b.targets) == 1 and isinstance(b.targets[0], ast.Name) and b.targets[0].id == L and isinstance(b.value, ast.ListComp)
                   and len(b.value.generators) == 1 and not b.value.generators[0].ifs and isinstance(b.value.generators[0].iter, ast.Name)
                   and b.value.generators[0].iter.id == L and isinstance(b.value.generators[0].target, ast.Name)
                   and ast.unparse(b.value.elt) == f"{b.value.generators[0].target.id}.rstrip(' ')")
            okc = (len(c.targets) == 1 and isinstance(c.targets[0], ast.Name) and c.targets[0].id == X
                   and ast.unparse(c.value).replace(" ", "") in (f"'\\n'.join([*{L},{R}])", f"'\\n'.join({L}+[{R}])", f"'\\n'.join((*{L},{R}))"))
            if okb and okc:
                hit = ast.copy_location(ast.Assign(targets=[ast.Name(id=X, ctx=ast.Store())], value=ast.Call(
                    func=ast.Attribute(value=ast.Name(id="re", ctx=ast.Load()), attr="sub", ctx=ast.Load()),
                    args=[ast.Constant(value="[ ]+\n"), ast.Constant(value="\n"), ast.Name(id=X, ctx=ast.Load())], keywords=[])), a)
        if hit is not None:
            out.append(hit)
            i += 3
        else:
            out.append(stmts[i])
            i += 1
    return out


def norm_block(stmts: list) -> list:
    """N5 / N6 on one statement list (recursively on nested blocks); returns a new list"""
    out = []
    stmts = [s for s in stmts if not _is_docstring(s)]
    stmts = _per_line_rstrip(stmts)
    # a, b = (x, y)  ->  a = x ; b = y      (names on the left must not occur on the right)
    split = []
    for s in stmts:
        if isinstance(s, ast.Assign) and len(s.targets) == 1 and isinstance(s.targets[0], ast.Tuple) and isinstance(s.value, ast.Tuple) \
                and len(s.targets[0].elts) == len(s.value.elts) and all(isinstance(t, ast.Name) for t in s.targets[0].elts) \
                and not ({t.id for t in s.targets[0].elts} & names_loaded(s.value)):
            for t, v in zip(s.targets[0].elts, s.value.elts):
                split.append(ast.copy_location(ast.Assign(targets=[ast.Name(id=t.id, ctx=ast.Store())], value=v), s))
        else:
            split.append(s)
    stmts = split
    # N7: for (a, b) in ((x1, y1), (x2, y2)): body   ->   body[a:=x1, b:=y1] ; body[a:=x2, b:=y2]      (literal rows, no break / continue)
    unrolled = []
    for s in stmts:
        if isinstance(s, ast.For) and not s.orelse and isinstance(s.iter, (ast.Tuple, ast.List)) and 1 <= len(s.iter.elts) <= 8 \
                and not any(isinstance(x, ast.Starred) for x in s.iter.elts) \
                and not any(isinstance(n, (ast.Break, ast.Continue)) for b in s.body for n in ast.walk(b)):
            tnames = [t.id for t in s.target.elts] if isinstance(s.target, ast.Tuple) and all(isinstance(t, ast.Name) for t in s.target.elts) else \
                ([s.target.id] if isinstance(s.target, ast.Name) else None)
            rows = []
            if tnames is not None:
                for row in s.iter.elts:
                    if len(tnames) == 1 and not isinstance(s.target, ast.Tuple):
                        rows.append([row])
                    elif isinstance(row, (ast.Tuple, ast.List)) and len(row.elts) == len(tnames):
                        rows.append(list(row.elts))
                    else:
                        rows = None
                        break
            body_binds = set().union(*[names_stored(b) for b in s.body]) if s.body else set()
            if tnames is not None and rows and not (set(tnames) & body_binds):
                for row in rows:
                    m = dict(zip(tnames, row))
                    for b in s.body:
                        unrolled.append(subst(b, m))
                continue
        unrolled.append(s)
    stmts = unrolled
    # for (a, b) in [(E1, E2) for x in S [if C]]: body   ->   for x in S: [if C:] body[a:=E1, b:=E2]
    relooped = []
    for s in stmts:
        if isinstance(s, ast.For) and not s.orelse and isinstance(s.iter, (ast.ListComp, ast.GeneratorExp)) and len(s.iter.generators) == 1:
            comp, g = s.iter, s.iter.generators[0]
            tnames = [t.id for t in s.target.elts] if isinstance(s.target, ast.Tuple) and all(isinstance(t, ast.Name) for t in s.target.elts) else \
                ([s.target.id] if isinstance(s.target, ast.Name) else None)
            comps = list(comp.elt.elts) if isinstance(comp.elt, ast.Tuple) and tnames and len(tnames) > 1 and len(comp.elt.elts) == len(tnames) else \
                ([comp.elt] if tnames and len(tnames) == 1 else None)
            body_binds = set().union(*[names_stored(b) for b in s.body]) if s.body else set()
            if tnames and comps and not (set(tnames) & body_binds) and not (names_stored(g.target) & (body_binds | set(tnames))):
                mp = dict(zip(tnames, comps))
                body = [subst(b, mp) for b in s.body]
                if g.ifs:
                    test = g.ifs[0] if len(g.ifs) == 1 else ast.BoolOp(op=ast.And(), values=list(g.ifs))
                    body = [ast.If(test=test, body=body, orelse=[])]
                relooped.append(ast.copy_location(ast.For(target=g.target, iter=g.iter, body=body, orelse=[]), s))
                continue
        relooped.append(s)
    stmts = relooped
    # X.extend(E for (a, b) in ((a1, b1), (a2, b2)) [if C])   ->   [if C1:] X.append(E1) ; [if C2:] X.append(E2)
    expanded = []
    for s in stmts:
        done = False
        if isinstance(s, ast.Expr) and isinstance(s.value, ast.Call) and isinstance(s.value.func, ast.Attribute) and s.value.func.attr == "extend" \
                and len(s.value.args) == 1 and isinstance(s.value.args[0], (ast.GeneratorExp, ast.ListComp)) and len(s.value.args[0].generators) == 1:
            comp = s.value.args[0]
            g = comp.generators[0]
            rows_src = g.iter
            tnames = [t.id for t in g.target.elts] if isinstance(g.target, ast.Tuple) and all(isinstance(t, ast.Name) for t in g.target.elts) else \
                ([g.target.id] if isinstance(g.target, ast.Name) else None)
            if isinstance(rows_src, (ast.Tuple, ast.List)) and tnames and 1 <= len(rows_src.elts) <= 12 \
                    and not any(isinstance(x, ast.Starred) for x in rows_src.elts):
                rows = []
                for row in rows_src.elts:
                    if len(tnames) == 1 and not isinstance(g.target, ast.Tuple):
                        rows.append([row])
                    elif isinstance(row, (ast.Tuple, ast.List)) and len(row.elts) == len(tnames):
                        rows.append(list(row.elts))
                    else:
                        rows = None
                        break
                if rows:
                    for row in rows:
                        mp = dict(zip(tnames, row))
                        app = ast.Expr(value=ast.Call(func=ast.Attribute(value=s.value.func.value, attr="append", ctx=ast.Load()),
                                                      args=[subst(comp.elt, mp)], keywords=[]))
                        ast.copy_location(app, s)
                        if g.ifs:
                            test = subst(g.ifs[0], mp) if len(g.ifs) == 1 else ast.BoolOp(op=ast.And(), values=[subst(c, mp) for c in g.ifs])
                            expanded.append(ast.copy_location(ast.If(test=test, body=[app], orelse=[]), s))
                        else:
                            expanded.append(app)
                    done = True
        if not done:
            expanded.append(s)
    stmts = expanded
    # loop bodies: `if c: continue` + rest  ->  `if not c: rest` ; `if a: if b: X`  ->  `if a and b: X`
    for s in stmts:
        if isinstance(s, (ast.For, ast.AsyncFor)):
            body = list(s.body)
            for k in range(len(body) - 1, -1, -1):
                b = body[k]
                if isinstance(b, ast.If) and not b.orelse and len(b.body) == 1 and isinstance(b.body[0], ast.Continue) and body[k + 1:]:
                    neg = _ExprNorm().visit(ast.UnaryOp(op=ast.Not(), operand=b.test))
                    body = body[:k] + [ast.copy_location(ast.If(test=neg, body=body[k + 1:], orelse=[]), b)]
            changed_ = True
            while changed_:
                changed_ = False
                if len(body) == 1 and isinstance(body[0], ast.If) and not body[0].orelse and len(body[0].body) == 1 \
                        and isinstance(body[0].body[0], ast.If) and not body[0].body[0].orelse:
                    inner_ = body[0].body[0]
                    body = [ast.copy_location(ast.If(test=ast.BoolOp(op=ast.And(), values=[body[0].test, inner_.test]), body=inner_.body, orelse=[]), body[0])]
                    changed_ = True
            s.body = body
    # recurse first
    for s in stmts:
        for f in ("body", "orelse", "finalbody"):
            b = getattr(s, f, None)
            if isinstance(b, list) and b and isinstance(b[0], ast.stmt) and not isinstance(s, (ast.FunctionDef, ast.AsyncFunctionDef, ast.ClassDef)):
                setattr(s, f, norm_block(b))
        for h in getattr(s, "handlers", []) or []:
            h.body = norm_block(h.body)
    i = 0
    n = len(stmts)
    while i < n:
        s = stmts[i]
        rest = stmts[i + 1:]
        # ---- if c: return A   <rest -> return B>
        if isinstance(s, ast.If):
            ra = _single_return(s.body)
            if ra is not None:
                rb = _single_return(s.orelse) if s.orelse else None
                if rb is None and not s.orelse:
                    tail = norm_block(rest)
                    rb = _single_return(tail)
                    if rb is not None:
                        out.append(ast.copy_location(ast.Return(value=_ifexp(s.test, ra, rb)), s))
                        return out
                elif rb is not None:
                    out.append(ast.copy_location(ast.Return(value=_ifexp(s.test, ra, rb)), s))
                    return out        # anything after an if/else that returns on both arms is dead
            # ---- if c: x = A else: x = B
            aa, ab = _single_assign(s.body), (_single_assign(s.orelse) if s.orelse else None)
            if aa is not None and ab is not None and aa[0] == ab[0]:
                out.append(ast.copy_location(ast.Assign(targets=[ast.Name(id=aa[0], ctx=ast.Store())], value=_ifexp(s.test, aa[1], ab[1])), s))
                i += 1
                continue
            # ---- if c: x = A; y = B else: x = C; y = D   (same names, same order, plain assignments only)
            if s.orelse and len(s.body) == len(s.orelse) > 1:
                pa = [_single_assign([t]) for t in s.body]
                pb = [_single_assign([t]) for t in s.orelse]
                if all(pa) and all(pb) and [x[0] for x in pa] == [x[0] for x in pb] and len({x[0] for x in pa}) == len(pa) \
                        and not ({x[0] for x in pa} & set().union(*[names_loaded(x[1]) for x in pa + pb])) and not ({x[0] for x in pa} & names_loaded(s.test)):
                    for (na, va), (_, vb) in zip(pa, pb):
                        out.append(ast.copy_location(ast.Assign(targets=[ast.Name(id=na, ctx=ast.Store())], value=_ifexp(copy.deepcopy(s.test), va, vb)), s))
                    i += 1
                    continue
            # ---- x = ... (earlier in this block) ; ... ; if c: x = A     ->   x = A if c else x   (SSA renaming then separates the versions)
            if aa is not None and not s.orelse and not (out and (_single_assign([out[-1]]) or ("",))[0] == aa[0]):
                out.append(ast.copy_location(ast.Assign(targets=[ast.Name(id=aa[0], ctx=ast.Store())],
                                                        value=_ifexp(s.test, aa[1], ast.Name(id=aa[0], ctx=ast.Load()))), s))
                i += 1
                continue
            # ---- x = B ; if c: x = A
            if aa is not None and not s.orelse and out:
                prev = _single_assign([out[-1]])
                if prev is not None and prev[0] == aa[0]:
                    m = {aa[0]: prev[1]}
                    out[-1] = ast.copy_location(ast.Assign(targets=[ast.Name(id=aa[0], ctx=ast.Store())],
                                                           value=_ifexp(subst(s.test, m), subst(aa[1], m), prev[1])), out[-1])
                    i += 1
                    continue
        # ---- search loop (possibly nested): for T in IT: [for T2 in IT2:] if C: return E   <rest -> return D>
        loops_ = []
        cur_ = s
        while isinstance(cur_, ast.For) and not cur_.orelse and len(cur_.body) == 1:
            loops_.append(cur_)
            cur_ = cur_.body[0]
        if loops_ and isinstance(cur_, ast.If) and not cur_.orelse and len(loops_) <= 3:
            inner = cur_
            ra = _single_return(inner.body)
            if ra is not None:
                tail = norm_block(rest)
                rb = _single_return(tail)
                if rb is not None:
                    gens = [ast.comprehension(target=l_.target, iter=l_.iter, ifs=[], is_async=0) for l_ in loops_]
                    if isinstance(ra, ast.Constant) and ra.value is True and isinstance(rb, ast.Constant) and rb.value is False:
                        gen = ast.GeneratorExp(elt=inner.test, generators=gens)
                        out.append(ast.copy_location(ast.Return(value=ast.Call(func=ast.Name(id="any", ctx=ast.Load()), args=[gen], keywords=[])), s))
                    else:
                        gens[-1].ifs = [inner.test]
                        gen = ast.GeneratorExp(elt=ra, generators=gens)
                        out.append(ast.copy_location(ast.Return(value=ast.Call(func=ast.Name(id="next", ctx=ast.Load()), args=[gen, rb], keywords=[])), s))
                    return out
        if isinstance(s, ast.For) and not s.orelse and len(s.body) == 1 and isinstance(s.body[0], ast.If) and not s.body[0].orelse:
            inner = s.body[0]
            if False:
                    pass
            # ---- x = D; for T in IT: if C: x = E; break
            if len(inner.body) == 2 and isinstance(inner.body[1], ast.Break) and out:
                aa = _single_assign([inner.body[0]])
                prev = _single_assign([out[-1]])
                if aa is not None and prev is not None and aa[0] == prev[0]:
                    gen = ast.GeneratorExp(elt=aa[1], generators=[ast.comprehension(target=s.target, iter=s.iter, ifs=[inner.test], is_async=0)])
                    out[-1] = ast.copy_location(ast.Assign(targets=[ast.Name(id=aa[0], ctx=ast.Store())],
                                                           value=ast.Call(func=ast.Name(id="next", ctx=ast.Load()), args=[gen, prev[1]], keywords=[])), out[-1])
                    i += 1
                    continue
        # ---- set-collecting loop (possibly nested): X = set() ; for a in A: [for b in B:] [if C:] X.add(E)   ->   X = {E for a in A for b in B if C}
        if isinstance(s, ast.For) and out:
            prev = _single_assign([out[-1]])
            if prev is not None and ((isinstance(prev[1], ast.Call) and isinstance(prev[1].func, ast.Name) and prev[1].func.id == "set"
                                      and not prev[1].args and not prev[1].keywords)):
                loops_s, cur_s = [], s
                while isinstance(cur_s, ast.For) and not cur_s.orelse and len(cur_s.body) == 1:
                    loops_s.append(cur_s)
                    cur_s = cur_s.body[0]
                cond_s = None
                if isinstance(cur_s, ast.If) and not cur_s.orelse and len(cur_s.body) == 1:
                    cond_s, cur_s = cur_s.test, cur_s.body[0]
                if (loops_s and len(loops_s) <= 3 and isinstance(cur_s, ast.Expr) and isinstance(cur_s.value, ast.Call)
                        and isinstance(cur_s.value.func, ast.Attribute) and cur_s.value.func.attr == "add"
                        and isinstance(cur_s.value.func.value, ast.Name) and cur_s.value.func.value.id == prev[0] and len(cur_s.value.args) == 1
                        and prev[0] not in names_loaded(cur_s.value.args[0]) and (cond_s is None or prev[0] not in names_loaded(cond_s))
                        and all(prev[0] not in names_loaded(l_.iter) for l_ in loops_s)):
                    gens = [ast.comprehension(target=l_.target, iter=l_.iter, ifs=[], is_async=0) for l_ in loops_s]
                    if cond_s is not None:
                        gens[-1].ifs = [cond_s]
                    comp = ast.SetComp(elt=cur_s.value.args[0], generators=gens)
                    out[-1] = ast.copy_location(ast.Assign(targets=[ast.Name(id=prev[0], ctx=ast.Store())], value=comp), out[-1])
                    i += 1
                    continue
        # ---- search loop without filter: for T in IT: return E ... (rare) - skipped
        # ---- collecting loop: out = [] ; for T in IT: [if C:] out.append(E)
        if isinstance(s, ast.For) and not s.orelse and len(s.body) == 1 and out:
            prev = _single_assign([out[-1]])
            b0 = s.body[0]
            cond = None
            if isinstance(b0, ast.If) and not b0.orelse and len(b0.body) == 1:
                cond, b0 = b0.test, b0.body[0]
            # d = {} ; for T in IT: [if C:] d[K] = V     ->   d = {K: V for T in IT [if C]}
            if prev is not None and ((isinstance(prev[1], ast.Dict) and not prev[1].keys) or
                                     (isinstance(prev[1], ast.Call) and not prev[1].args and not prev[1].keywords
                                      and ast.unparse(prev[1].func).split(".")[-1] in ("dict", "OrderedDict"))):
                if isinstance(b0, ast.Assign) and len(b0.targets) == 1 and isinstance(b0.targets[0], ast.Subscript) \
                        and isinstance(b0.targets[0].value, ast.Name) and b0.targets[0].value.id == prev[0] \
                        and prev[0] not in names_loaded(b0.value) and prev[0] not in names_loaded(b0.targets[0].slice):
                    comp = ast.DictComp(key=b0.targets[0].slice, value=b0.value,
                                        generators=[ast.comprehension(target=s.target, iter=s.iter, ifs=[cond] if cond is not None else [], is_async=0)])
                    val = comp if isinstance(prev[1], ast.Dict) else ast.Call(func=prev[1].func, args=[comp], keywords=[])
                    out[-1] = ast.copy_location(ast.Assign(targets=[ast.Name(id=prev[0], ctx=ast.Store())], value=val), out[-1])
                    i += 1
                    continue
            # ... if c: out.append(A) else: out.append(B)   ->   out = [A if c else B for ...]
            if prev is not None and isinstance(prev[1], ast.List) and not prev[1].elts and cond is None and isinstance(s.body[0], ast.If) \
                    and len(s.body[0].body) == 1 and len(s.body[0].orelse) == 1:
                def app(st_):
                    if isinstance(st_, ast.Expr) and isinstance(st_.value, ast.Call) and isinstance(st_.value.func, ast.Attribute) \
                            and st_.value.func.attr == "append" and isinstance(st_.value.func.value, ast.Name) and st_.value.func.value.id == prev[0] \
                            and len(st_.value.args) == 1:
                        return st_.value.args[0]
                    return None
                ea, eb = app(s.body[0].body[0]), app(s.body[0].orelse[0])
                if ea is not None and eb is not None:
                    comp = ast.ListComp(elt=_ifexp(s.body[0].test, ea, eb), generators=[ast.comprehension(target=s.target, iter=s.iter, ifs=[], is_async=0)])
                    out[-1] = ast.copy_location(ast.Assign(targets=[ast.Name(id=prev[0], ctx=ast.Store())], value=comp), out[-1])
                    i += 1
                    continue
            if prev is not None and isinstance(prev[1], ast.List) and not prev[1].elts and isinstance(b0, ast.Expr) and isinstance(b0.value, ast.Call) \
                    and isinstance(b0.value.func, ast.Attribute) and b0.value.func.attr == "append" and isinstance(b0.value.func.value, ast.Name) \
                    and b0.value.func.value.id == prev[0] and len(b0.value.args) == 1:
                comp = ast.ListComp(elt=b0.value.args[0], generators=[ast.comprehension(target=s.target, iter=s.iter, ifs=[cond] if cond is not None else [], is_async=0)])
                out[-1] = ast.copy_location(ast.Assign(targets=[ast.Name(id=prev[0], ctx=ast.Store())], value=comp), out[-1])
                i += 1
                continue
        out.append(s)
        i += 1
    return out


def ssa_straightline(stmts: list, params: Set[str]) -> list:
    """x = e1 ; ... ; x = e2(x) ; ...   ->   x__1 = e1 ; ... ; x__2 = e2(x__1) ; ...    for names whose every binding is a plain top-level
    assignment of this statement list (no binding inside loops / branches / nested functions, not a parameter)"""
    top_defs: Dict[str, int] = {}
    for s in stmts:
        a = _single_assign([s])
        if a is not None:
            top_defs[a[0]] = top_defs.get(a[0], 0) + 1
    all_defs: Dict[str, int] = {}
    for name, _n in function_scope_stores(ast.Module(body=stmts, type_ignores=[])):
        all_defs[name] = all_defs.get(name, 0) + 1
    for n in ast.walk(ast.Module(body=stmts, type_ignores=[])):
        if isinstance(n, ast.arg) and not isinstance(n, ast.Lambda):
            all_defs[n.arg] = all_defs.get(n.arg, 0) + 10
    multi = {x for x, k in top_defs.items() if k >= 2 and all_defs.get(x, 0) == k and x not in params}
    if not multi:
        return stmts
    version: Dict[str, int] = {}
    out = []
    for s in stmts:
        cur = {x: ast.Name(id=f"{x}__{version[x]}", ctx=ast.Load()) for x in multi if x in version}
        a = _single_assign([s])
        if a is not None and a[0] in multi:
            val = subst(a[1], cur)
            version[a[0]] = version.get(a[0], 0) + 1
            out.append(ast.copy_location(ast.Assign(targets=[ast.Name(id=f"{a[0]}__{version[a[0]]}", ctx=ast.Store())], value=val), s))
        else:
            out.append(subst(s, cur) if cur else s)
    return out


def _ssa_nested(block: list, whole: list, params: Set[str], counts: Dict[str, int]) -> list:
    """SSA renaming inside a nested block for names that live entirely in it: every binding of the name in the function is a plain
    top-level assignment of this block, the first occurrence in the block is a binding, and the name is not used outside the block"""
    top_defs: Dict[str, int] = {}
    for s in block:
        a = _single_assign([s])
        if a is not None:
            top_defs[a[0]] = top_defs.get(a[0], 0) + 1
    cands = {x for x, k in top_defs.items() if k >= 2 and counts.get(x, 0) == k and x not in params}
    # x = f(x) once in this block, x bound once more outside it, and x not used after the block: a new version local to the block
    def loads_after_block(x):
        """is x read in the function after this block (textually, in statement order)?  Line numbers are useless after inlining."""
        state = {"seen": False, "hit": False}

        def walk_list(lst):
            here = lst is block
            for st in lst:
                if state["seen"] and not here and not state["in_block"]:
                    if any(isinstance(n, ast.Name) and n.id == x and isinstance(n.ctx, ast.Load) for n in _own_nodes(st)):
                        state["hit"] = True
                for f in ("body", "orelse", "finalbody"):
                    b = getattr(st, f, None)
                    if isinstance(b, list) and b and isinstance(b[0], ast.stmt) and not isinstance(st, (ast.FunctionDef, ast.AsyncFunctionDef, ast.ClassDef)):
                        was = state["in_block"]
                        if b is block:
                            state["in_block"] = True
                        walk_list(b)
                        if b is block:
                            state["in_block"] = was
                            state["seen"] = True
            if here:
                state["seen"] = True
        state["in_block"] = False
        walk_list(whole)
        return state["hit"] or not state["seen"]

    def _own_nodes(st):
        """nodes of a statement excluding nested statement lists"""
        stack = [st]
        while stack:
            n = stack.pop()
            yield n
            for f, v in ast.iter_fields(n):
                if f in ("body", "orelse", "finalbody", "handlers") and isinstance(v, list) and v and isinstance(v[0], (ast.stmt, ast.ExceptHandler)):
                    continue
                if isinstance(v, ast.AST):
                    stack.append(v)
                elif isinstance(v, list):
                    stack.extend(x_ for x_ in v if isinstance(x_, ast.AST))
    last_line = 1
    out_ = []
    renamed = False
    for idx, s in enumerate(block):
        a = _single_assign([s])
        if (a is not None and a[0] not in cands and a[0] not in params and top_defs.get(a[0]) == 1 and counts.get(a[0], 0) == 2
                and a[0] in names_loaded(a[1]) and not loads_after_block(a[0])):
            new = f"{a[0]}__b{idx}"
            counts[a[0]] = counts.get(a[0], 0) - 1
            counts[new] = 1
            rest_ = [subst(t, {a[0]: ast.Name(id=new, ctx=ast.Load())}) for t in block[idx + 1:]]
            out_ = block[:idx] + [ast.copy_location(ast.Assign(targets=[ast.Name(id=new, ctx=ast.Store())], value=a[1]), s)] + rest_
            renamed = True
            break
    if renamed:
        return _ssa_nested(out_, whole, params, counts)
    if not cands:
        return block
    inside = sum(1 for s in block for n in ast.walk(s) if isinstance(n, ast.Name) and n.id in cands)
    total = sum(1 for s in whole for n in ast.walk(s) if isinstance(n, ast.Name) and n.id in cands)
    if inside != total:
        # some candidate is used outside the block: keep only those that are not
        keepers = set()
        for x in cands:
            i_ = sum(1 for s in block for n in ast.walk(s) if isinstance(n, ast.Name) and n.id == x)
            t_ = sum(1 for s in whole for n in ast.walk(s) if isinstance(n, ast.Name) and n.id == x)
            if i_ == t_:
                keepers.add(x)
        cands = keepers
    ok = set()
    for x in cands:
        for s in block:
            a = _single_assign([s])
            if a is not None and a[0] == x and x not in names_loaded(a[1]):
                ok.add(x)
                break
            if x in names_loaded(s) or x in names_stored(s):
                break
    if not ok:
        return block
    version: Dict[str, int] = {}
    out = []
    for s in block:
        cur = {x: ast.Name(id=f"{x}__{version[x]}", ctx=ast.Load()) for x in ok if x in version}
        a = _single_assign([s])
        if a is not None and a[0] in ok:
            val = subst(a[1], cur)
            version[a[0]] = version.get(a[0], 0) + 1
            newname = f"{a[0]}__{version[a[0]]}"
            counts[newname] = 1
            out.append(ast.copy_location(ast.Assign(targets=[ast.Name(id=newname, ctx=ast.Store())], value=val), s))
        else:
            out.append(subst(s, cur) if cur else s)
    return out


def forward_subst(stmts: list, keep: Set[str], params: Set[str], _top=True, _counts=None, _whole=None) -> list:
    """N4 on the top-level statement list of a function: drop `x = e` when x is bound exactly once in the whole function (not a
    parameter, not in `keep`) and substitute e for x in what follows."""
    whole = ast.Module(body=stmts, type_ignores=[])
    counts: Dict[str, int] = {} if _counts is None else _counts
    if _counts is None:
        for name, _n in function_scope_stores(whole):
            counts[name] = counts.get(name, 0) + 1
    for n in (ast.walk(whole) if _counts is None else ()):
        if isinstance(n, (ast.FunctionDef, ast.AsyncFunctionDef, ast.ClassDef)):
            counts[n.name] = counts.get(n.name, 0) + 1
        elif isinstance(n, ast.AugAssign) and isinstance(n.target, ast.Name):
            counts[n.target.id] = counts.get(n.target.id, 0) + 1
    out = list(stmts)
    changed = True
    rounds = 0
    while changed and rounds < 30:
        changed = False
        rounds += 1
        for idx, s in enumerate(out):
            a = _single_assign([s])
            if a is None:
                continue
            name, val = a
            if name in keep or name in params or counts.get(name, 0) != 1:
                continue
            if name in names_loaded(val):
                continue
            # a mutable accumulator that is mutated later must stay a variable
            mutated = any(isinstance(n, ast.Call) and isinstance(n.func, ast.Attribute) and isinstance(n.func.value, ast.Name) and n.func.value.id == name
                          and n.func.attr in ("append", "extend", "add", "update", "setdefault", "insert", "pop", "remove", "clear", "sort")
                          for t in out[idx + 1:] for n in ast.walk(t)) or \
                any(isinstance(n, (ast.Subscript, ast.Attribute)) and isinstance(n.ctx, (ast.Store, ast.Del)) and isinstance(n.value, ast.Name) and n.value.id == name
                    for t in out[idx + 1:] for n in ast.walk(t))
            if not mutated:
                # element mutation: name[k].add(v) / name[k].append(v) / name[k][j] = v
                def _base(n_):
                    while isinstance(n_, (ast.Subscript, ast.Attribute)):
                        n_ = n_.value
                    return n_
                mutated = any(isinstance(n, ast.Call) and isinstance(n.func, ast.Attribute) and isinstance(n.func.value, ast.Subscript)
                              and isinstance(_base(n.func.value), ast.Name) and _base(n.func.value).id == name
                              and n.func.attr in ("append", "extend", "add", "update", "setdefault", "insert", "pop", "remove", "clear", "sort")
                              for t in out[idx + 1:] for n in ast.walk(t))
            if mutated:
                continue
            # an object under construction (Class(...)) that is used more than once is state, not a value
            if isinstance(val, ast.Call):
                callee = val.func.attr if isinstance(val.func, ast.Attribute) else (val.func.id if isinstance(val.func, ast.Name) else "")
                uses = sum(1 for t in out[idx + 1:] for n in ast.walk(t) if isinstance(n, ast.Name) and n.id == name and isinstance(n.ctx, ast.Load))
                if callee[:1].isupper() and uses > 1:
                    continue
                if callee in ("defaultdict", "dict", "list", "set", "OrderedDict", "Counter", "deque") and uses > 1:
                    continue        # a fresh container used at several places is shared state (filled here, read there), not a value
            # names the value depends on must not be re-bound afterwards
            deps = names_loaded(val)
            if any(counts.get(d, 0) > 1 for d in deps if d not in params):
                continue
            rest = [subst(t, {name: val}) for t in out[idx + 1:]]
            out = out[:idx] + rest
            changed = True
            break
    # nested blocks: single-assignment locals introduced inside an if / for / with body
    if _top:
        whole_fn = out if _whole is None else _whole

        def rec(block):
            for s in block:
                for f in ("body", "orelse", "finalbody"):
                    b = getattr(s, f, None)
                    if isinstance(b, list) and b and isinstance(b[0], ast.stmt) and not isinstance(s, (ast.FunctionDef, ast.AsyncFunctionDef, ast.ClassDef)):
                        b = _ssa_nested(b, whole_fn, params, counts)
                        nb = forward_subst(b, keep, params, _top=False, _counts=counts, _whole=whole_fn)
                        setattr(s, f, nb or [ast.Pass()])
                        rec(getattr(s, f))
        rec(out)
    return out


# ---------------------------------------------------------------------------------------------------------

def sym_exec(stmts: list, params: Set[str], budget: int = 400) -> Optional[ast.expr]:
    """Straight-line code with branches as ONE expression: assignments become substitutions, `if` becomes a conditional expression over
    the two continuations, `raise E` becomes the leaf `__raise__(E)`, falling off the end is None. Returns None when the statements
    contain anything else (loops that are not already next/any/comprehensions, mutation, nested definitions that are still used ...)."""
    count = [0]

    class Bail(Exception):
        pass

    def run(block, env):
        count[0] += 1
        if count[0] > budget:
            raise Bail()
        for i, s in enumerate(block):
            rest = block[i + 1:]
            if isinstance(s, ast.Pass) or _is_docstring(s):
                continue
            if isinstance(s, ast.Return):
                return subst(s.value, env) if s.value is not None else ast.Constant(value=None)
            if isinstance(s, ast.Raise):
                exc = subst(s.exc, env) if s.exc is not None else ast.Constant(value=None)
                return ast.Call(func=ast.Name(id="__raise__", ctx=ast.Load()), args=[exc], keywords=[])
            a = _single_assign([s])
            if a is not None:
                env = dict(env)
                env[a[0]] = subst(a[1], env)
                continue
            if isinstance(s, ast.AnnAssign) and s.value is None:
                continue
            if isinstance(s, ast.If):
                t = subst(s.test, env)
                a_ = run(list(s.body) + rest, env)
                b_ = run(list(s.orelse) + rest, env)
                return _ifexp(t, a_, b_)
            if isinstance(s, (ast.FunctionDef, ast.AsyncFunctionDef)):
                used = any(isinstance(n, ast.Name) and n.id == s.name for t in rest for n in ast.walk(t))
                if used:
                    raise Bail()
                continue
            raise Bail()
        return ast.Constant(value=None)

    try:
        return run(stmts, {})
    except Bail:
        return None


class _AlphaComps(ast.NodeTransformer):
    """comprehension variables -> _c<depth> / _c<depth>_<i>: their spelling is never meaningful"""

    def __init__(self):
        self.depth = 0

    def _comp(self, node):
        # the first iterable is evaluated in the enclosing scope: normalise it at the current depth
        first_iter = self.visit(node.generators[0].iter)
        self.depth += 1
        mapping = {}
        for gi, g in enumerate(node.generators):
            k = 0
            for n in ast.walk(g.target):
                if isinstance(n, ast.Name) and n.id not in mapping:
                    tag = f"_c{self.depth}" + (f"_{gi}" if gi else "") + (f"{'abcdefgh'[k]}" if k else "")
                    mapping[n.id] = tag
                    k += 1

        class R(ast.NodeTransformer):
            def visit_Name(self, n):
                if n.id in mapping:
                    return ast.copy_location(ast.Name(id=mapping[n.id], ctx=n.ctx), n)
                return n
        node.generators[0].iter = ast.Constant(value=None)
        node = R().visit(node)
        self.generic_visit(node)
        node.generators[0].iter = first_iter
        self.depth -= 1
        return node

    visit_ListComp = visit_SetComp = visit_GeneratorExp = visit_DictComp = _comp


_UNIQUE: Dict[int, Set[str]] = {}


def unique_globals(pm: PyModel) -> Set[str]:
    """module-level names (functions, classes, constants) defined in exactly one repository module: they mean the same thing wherever
    they are visible, however they were imported (`utils.RESERVED_NAMES`, `RESERVED_NAMES`, `reserved_names.RESERVED_NAMES`)"""
    if id(pm) not in _UNIQUE:
        seen: Dict[str, int] = {}
        for m in pm.modules.values():
            for n in list(m.functions) + list(m.classes) + list(m.assigns):
                if not n.startswith("__"):
                    seen[n] = seen.get(n, 0) + 1
        _UNIQUE[id(pm)] = {n for n, k in seen.items() if k == 1}
    return _UNIQUE[id(pm)]


class _Canon(ast.NodeTransformer):
    """<module alias>.<unique global>  ->  <unique global>"""

    def __init__(self, uniq):
        self.uniq = uniq

    def visit_Attribute(self, node):
        self.generic_visit(node)
        if isinstance(node.value, ast.Name) and node.attr in self.uniq and isinstance(node.ctx, ast.Load) \
                and node.value.id not in ("self", "cls") and node.value.id.islower():
            return ast.copy_location(ast.Name(id=node.attr, ctx=ast.Load()), node)
        return node


def canon_globals(pm: PyModel, node):
    return _Canon(unique_globals(pm)).visit(node)


class Normalizer:
    def __init__(self, pm: PyModel):
        self.pm = pm
        self._cache: Dict[Tuple[str, frozenset], ast.AST] = {}

    # -- what a name used inside `fi` denotes ---------------------------------------------------------------
    def _const_value(self, fi: FuncInfo, name: str, via_self: bool) -> Optional[ast.AST]:
        if via_self:
            if fi.cls is None:
                return None
            mem = self.pm.member(fi.cls, name)
            if mem is not None and mem.kind == "const" and isinstance(mem.node, ast.Assign):
                v = mem.node.value
                return v if self._closed(fi, v) else None
            return None
        r = self.pm.resolve_global(fi.module, name)
        if r and r[0] == "const":
            mod, v = r[1]
            # bound exactly once at module level
            n_bind = sum(1 for st in ast.walk(mod.tree) if isinstance(st, (ast.Assign, ast.AnnAssign, ast.AugAssign))
                         for t in (st.targets if isinstance(st, ast.Assign) else [st.target]) if isinstance(t, ast.Name) and t.id == name)
            if n_bind == 1 and self._closed_mod(mod, v):
                return v
        return None

    def _closed_mod(self, mod, v) -> bool:
        """the expression only refers to imports, builtins and other closed constants"""
        import builtins
        for n in names_loaded(v):
            if n in mod.imports or hasattr(builtins, n):
                continue
            if n in mod.assigns and n not in names_loaded(mod.assigns[n]) and self._closed_mod(mod, mod.assigns[n]):
                continue
            return False
        return True

    def _closed(self, fi, v) -> bool:
        return self._closed_mod(fi.module, v)

    def _callee(self, fi: FuncInfo, call_or_attr, local_defs: Dict[str, ast.FunctionDef]):
        """-> (FuncInfo-like (node, module, cls, qual), bound_self_expr or None, is_property) for an inlinable callee"""
        n = call_or_attr
        f = n.func if isinstance(n, ast.Call) else n
        if isinstance(f, ast.Name):
            if f.id in local_defs:
                d = local_defs[f.id]
                return FuncInfo(fi.qual + ".<locals>." + f.id, d, fi.module, fi.cls), None, False
            r = self.pm.resolve_global(fi.module, f.id)
            if r and r[0] == "func":
                return r[1], None, False
            return None
        if isinstance(f, ast.Attribute):
            base = f.value
            if isinstance(base, ast.Name) and base.id in ("self", "cls") and fi.cls is not None:
                mem = self.pm.member(fi.cls, f.attr)
                if mem is not None and mem.kind in ("method", "property", "staticmethod", "classmethod"):
                    tfi = self.pm.functions.get(f"{mem.owner}.{f.attr}")
                    if tfi is not None:
                        return tfi, base, mem.kind == "property"
                return None
            if isinstance(base, ast.Name):
                r = self.pm.resolve_global(fi.module, base.id)
                if r and r[0] == "class":
                    mem = self.pm.member(r[1], f.attr)
                    if mem is not None and mem.kind in ("staticmethod", "classmethod"):
                        tfi = self.pm.functions.get(f"{mem.owner}.{f.attr}")
                        if tfi is not None:
                            return tfi, None, False
                if r and r[0] == "module":
                    tfi = self.pm.functions.get(f"{r[1].name}.{f.attr}")
                    if tfi is not None:
                        return tfi, None, False
        return None

    # -- the normal form ---------------------------------------------------------------------------------------
    def function(self, qual_or_fi, keep: Set[str] = frozenset(), depth: int = 0) -> ast.AST:
        fi = qual_or_fi if isinstance(qual_or_fi, FuncInfo) else self.pm.func(qual_or_fi)
        key = (fi.qual, frozenset(keep), depth)
        if key in self._cache:
            return self._cache[key]
        fn = copy.deepcopy(fi.node)
        self._cache[key] = fn       # recursion guard: a recursive helper sees the un-normalised copy
        fn.body = body_of(fn) or [ast.Pass()]
        params = {a.arg for a in fn.args.posonlyargs + fn.args.args + fn.args.kwonlyargs} | \
            ({fn.args.vararg.arg} if fn.args.vararg else set()) | ({fn.args.kwarg.arg} if fn.args.kwarg else set())
        for _ in range(3):
            before = ast.dump(fn)
            fn = _ExprNorm().visit(fn)
            # nested defs anywhere in the function's own blocks (not inside other nested defs) can be inlined at their call sites
            local_defs = {}

            def _collect_defs(block):
                for st_ in block:
                    if isinstance(st_, ast.FunctionDef):
                        local_defs.setdefault(st_.name, st_)
                    elif not isinstance(st_, (ast.AsyncFunctionDef, ast.ClassDef)):
                        for f_ in ("body", "orelse", "finalbody"):
                            b_ = getattr(st_, f_, None)
                            if isinstance(b_, list) and b_ and isinstance(b_[0], ast.stmt):
                                _collect_defs(b_)
            _collect_defs(fn.body)
            fn = self._inline(fn, fi, keep, depth, local_defs, params)
            # a nested def that is no longer referenced (every call was inlined) is dropped from inner blocks, so that the block it sat in
            # is again a plain sequence of assignments
            loaded_ = {n_.id for n_ in ast.walk(fn) if isinstance(n_, ast.Name) and isinstance(n_.ctx, ast.Load)}

            def _drop_dead_defs(block, top):
                out_ = []
                for st_ in block:
                    if isinstance(st_, ast.FunctionDef) and not top and st_.name not in loaded_ and st_.name not in keep:
                        continue
                    if not isinstance(st_, (ast.FunctionDef, ast.AsyncFunctionDef, ast.ClassDef)):
                        for f_ in ("body", "orelse", "finalbody"):
                            b_ = getattr(st_, f_, None)
                            if isinstance(b_, list) and b_ and isinstance(b_[0], ast.stmt):
                                setattr(st_, f_, _drop_dead_defs(b_, False) or [ast.Pass()])
                    out_.append(st_)
                return out_
            fn.body = _drop_dead_defs(fn.body, True)
            fn.body = norm_block(fn.body)
            fn.body = ssa_straightline(fn.body, params)
            fn.body = forward_subst(fn.body, set(keep), params)
            fn.body = norm_block(fn.body) or [ast.Pass()]
            for sub in [x for x in fn.body if isinstance(x, ast.FunctionDef)]:
                sp = {a.arg for a in sub.args.posonlyargs + sub.args.args + sub.args.kwonlyargs}
                sub.body = norm_block(body_of(sub))
                sub.body = ssa_straightline(sub.body, sp)
                sub.body = forward_subst(sub.body, set(keep), sp | params)
                sub.body = norm_block(sub.body) or [ast.Pass()]
            fn = _ExprNorm().visit(fn)
            if _single_return(fn.body) is None:
                e = sym_exec(fn.body, params)
                if e is not None:
                    fn.body = [ast.Return(value=_ExprNorm().visit(e))]
            if ast.dump(fn) == before:
                break
        fn = canon_globals(self.pm, fn)
        fn = _AlphaComps().visit(fn)
        ast.fix_missing_locations(fn)
        self._cache[key] = fn
        return fn

    def _inline(self, fn, fi: FuncInfo, keep, depth, local_defs, params):
        norm = self
        locals_bound = names_stored(fn)

        class T(ast.NodeTransformer):
            def visit_FunctionDef(self, node):
                if node is fn:
                    self.generic_visit(node)
                return node

            def visit_Name(self, node):
                if isinstance(node.ctx, ast.Load) and node.id not in locals_bound and node.id not in keep:
                    v = norm._const_value(fi, node.id, False)
                    if v is not None:
                        return copy.deepcopy(v)
                return node

            def visit_Attribute(self, node):
                self.generic_visit(node)
                if isinstance(node.ctx, ast.Load) and isinstance(node.value, ast.Name) and node.value.id in ("self", "cls") and node.attr not in keep:
                    v = norm._const_value(fi, node.attr, True)
                    if v is not None:
                        return copy.deepcopy(v)
                    # private single-return property
                    if depth < MAX_DEPTH and node.attr.startswith("_"):
                        c = norm._callee(fi, node, local_defs)
                        if c is not None and c[2]:
                            e = norm._body_expr(c[0], keep, depth)
                            if e is not None:
                                return copy.deepcopy(e)
                return node

            def visit_Call(self, node):
                self.generic_visit(node)
                if depth >= MAX_DEPTH:
                    return node
                fname = node.func.attr if isinstance(node.func, ast.Attribute) else (node.func.id if isinstance(node.func, ast.Name) else None)
                if fname is None or fname in keep:
                    return node
                c = norm._callee(fi, node, local_defs)
                if c is None or c[2]:
                    return node
                tfi, bound, _ = c
                e = norm._body_expr(tfi, keep, depth)
                if e is None:
                    return node
                a = tfi.node.args
                if a.vararg or a.kwarg or any(isinstance(x, ast.Starred) for x in node.args) or any(k.arg is None for k in node.keywords):
                    return node
                formal = [x.arg for x in a.posonlyargs + a.args]
                decs = [ast.unparse(d) for d in tfi.node.decorator_list]
                if tfi.cls is not None and "staticmethod" not in decs and formal and formal[0] in ("self", "cls"):
                    formal = formal[1:]
                mapping: Dict[str, ast.AST] = {}
                if len(node.args) > len(formal):
                    return node
                for name, arg in zip(formal, node.args):
                    mapping[name] = arg
                for k in node.keywords:
                    mapping[k.arg] = k.value
                defaults = dict(zip([x.arg for x in (a.posonlyargs + a.args)][-len(a.defaults):] if a.defaults else [], a.defaults))
                for kwo, d in zip(a.kwonlyargs, a.kw_defaults):
                    if d is not None:
                        defaults[kwo.arg] = d
                for name in formal + [x.arg for x in a.kwonlyargs]:
                    if name not in mapping:
                        if name in defaults:
                            mapping[name] = defaults[name]
                        else:
                            return node
                # free names of the helper body must mean the same here: only inline helpers of the same module (or closed over imports)
                if tfi.module is not fi.module:
                    free = names_loaded(e) - names_stored(e) - set(mapping) - {"self", "cls"}
                    import builtins
                    uniq = unique_globals(norm.pm)
                    if any(not hasattr(builtins, x) and x not in uniq and fi.module.imports.get(x) != tfi.module.imports.get(x, object()) for x in free):
                        return node
                return subst(e, mapping)

        return T().visit(fn)

    def _body_expr(self, tfi: FuncInfo, keep, depth) -> Optional[ast.expr]:
        nf = self.function(tfi, keep, depth + 1)      # already canonicalised (module aliases stripped from unique globals)
        return _single_return(nf.body)


_NORMALIZERS: Dict[int, Normalizer] = {}


def normalizer(pm: PyModel) -> Normalizer:
    if id(pm) not in _NORMALIZERS:
        _NORMALIZERS[id(pm)] = Normalizer(pm)
    return _NORMALIZERS[id(pm)]
