"""Typed environment for template access paths (Engine T, DESIGN 2.2).

Types come from Engine P's class table (dataclass fields, property / method
return annotations).  A step that falls through a wrapper's __getattr__ is
typed as the wrapped protobuf descriptor and checked against that message's
field names (google.protobuf.descriptor_pb2 is third-party data, not
repository code).
"""
from __future__ import annotations

import ast
from typing import Optional

from .pymodel import PyModel, parse_ann, Member

ANY = ("any",)
STR = ("prim", "str")
INT = ("prim", "int")
BOOL = ("prim", "bool")

ROOT_TYPES = {
    "api": "gapic.schema.api.API",
    "opts": "gapic.utils.options.Options",
    "service": "gapic.schema.wrappers.Service",
    "proto": "gapic.schema.api.Proto",
    "snippet_index": "gapic.samplegen_utils.snippet_index.SnippetIndex",
}

STR_FILTERS = {"snake_case", "camel_case", "rst", "wrap", "make_private", "join", "string", "lower", "upper",
               "title", "capitalize", "replace", "trim", "indent", "format", "coerce_response_name",
               "render_format_string", "sort_lines", "escape", "e", "center", "truncate", "striptags", "urlencode",
               "tojson"}
SAME_FILTERS = {"sort", "list", "unique", "reverse", "selectattr", "rejectattr", "select", "reject", "batch"}
STR_METHODS = {"format", "replace", "capitalize", "lower", "upper", "title", "split", "join", "startswith", "endswith",
               "strip", "lstrip", "rstrip", "rsplit", "splitlines", "partition", "rpartition", "find", "count",
               "isdigit", "encode", "zfill"}


def _pb_fields(type_text: str) -> Optional[set]:
    """field / method names of a descriptor_pb2 message named in an annotation."""
    name = type_text.split(".")[-1]
    try:
        from google.protobuf import descriptor_pb2
    except Exception:  # pragma: no cover
        return None
    cls = getattr(descriptor_pb2, name, None)
    if cls is None or not hasattr(cls, "DESCRIPTOR"):
        return None
    names = {f.name for f in cls.DESCRIPTOR.fields}
    names |= {"HasField", "options", "DESCRIPTOR", "ListFields", "WhichOneof", "SerializeToString", "Extensions"}
    return names


class Miss:
    def __init__(self, cls, attr, why):
        self.cls, self.attr, self.why = cls, attr, why


class TyEnv:
    def __init__(self, pm: PyModel, root_types=None):
        self.pm = pm
        self.root_types = dict(ROOT_TYPES if root_types is None else root_types)
        self.stats = {"resolved": 0, "pb_passthrough": 0, "opaque": 0, "missing": 0}
        self.misses = []

    def cls_type(self, qual):
        ci = self.pm.cls(qual)
        return ("cls", ci) if ci else ANY

    # annotation overrides: (class, member) -> (annotation text, reason)
    OVERRIDES = {
        ("Proto", "python_modules"): ("Sequence[imp.Import]",
                                      "annotated Sequence[Tuple[str, str]] but the body collects `.ident.python_import` (imp.Import) objects"),
    }

    def member_type(self, mem: Member):
        ov = self.OVERRIDES.get((mem.owner.split(".")[-1], mem.name))
        if ov is not None:
            ci0 = self.pm.classes.get(mem.owner)
            return parse_ann(self.pm, ci0.module, ast.parse(ov[0], mode="eval").body)
        ci = self.pm.classes.get(mem.owner)
        m = ci.module if ci else None
        if mem.kind in ("field", "property"):
            return parse_ann(self.pm, m, mem.ann) if m else ANY
        if mem.kind in ("method", "classmethod", "staticmethod"):
            return ("callable", parse_ann(self.pm, m, mem.ann) if m else ANY, mem)
        if mem.kind == "const":
            return ANY
        return ANY

    # -- typing ------------------------------------------------------------
    def typeof(self, term) -> tuple:
        k = term[0]
        if k == "root":
            q = self.root_types.get(term[1])
            if q is None:
                return ("unknown_root", term[1])
            if isinstance(q, tuple):
                return q
            return self.cls_type(q)
        if k == "const":
            v = term[1]
            if isinstance(v, str):
                return STR
            if isinstance(v, bool):
                return BOOL
            if isinstance(v, int):
                return INT
            return ANY
        if k == "opaque":
            return ANY
        if k == "attr":
            return self.attr(self.typeof(term[1]), term[2], term)
        if k == "elem":
            return self.elem(self.typeof(term[1]))
        if k == "key":
            t = self.unopt(self.typeof(term[1]))
            if t[0] == "map":
                return t[1]
            return ANY
        if k == "idx":
            t = self.unopt(self.typeof(term[1]))
            if t[0] == "tuple" and isinstance(term[2], int) and term[2] < len(t[1]):
                return t[1][term[2]]
            if t[0] == "seq":
                return t[1]
            return ANY
        if k == "item":
            t = self.unopt(self.typeof(term[1]))
            if t[0] == "map":
                return t[2]
            if t[0] == "seq":
                return t[1]
            if t[0] == "tuple":
                a = term[2]
                if a[0] == "const" and isinstance(a[1], int) and a[1] < len(t[1]):
                    return t[1][a[1]]
            return ANY
        if k == "call":
            f = self.typeof(term[1])
            if f[0] == "callable":
                return f[1]
            if f[0] == "mapmeth":
                name, mt = f[1], f[2]
                if name == "values":
                    return ("seq", mt[2])
                if name == "keys":
                    return ("seq", mt[1])
                if name == "items":
                    return ("seq", ("tuple", [mt[1], mt[2]]))
                if name == "get":
                    return ("opt", mt[2])
            if f[0] == "strmeth":
                return STR if f[1] not in ("startswith", "endswith", "isdigit", "split", "rsplit") else ANY
            return ANY
        if k == "filter":
            base = self.typeof(term[1])
            name = term[2]
            if name in SAME_FILTERS:
                b = self.unopt(base)
                if b[0] == "map":
                    return ("seq", b[1])
                return b
            if name == "dictsort":
                b = self.unopt(base)
                if b[0] == "map":
                    return ("seq", ("tuple", [b[1], b[2]]))
                return ANY
            if name in ("first", "last", "max", "min", "random"):
                return self.elem(base)
            if name in ("length", "count", "int", "sum"):
                return INT
            if name in STR_FILTERS:
                return STR
            if name == "default":
                return base if base[0] != "unknown_root" else ANY
            if name == "map":
                return ("seq", ANY)
            return ANY
        return ANY

    def unopt(self, t):
        while t and t[0] == "opt":
            t = t[1]
        if t and t[0] == "union":
            real = [x for x in t[1] if x != ("prim", "None")]
            if len(real) == 1:
                return self.unopt(real[0])
        return t

    def elem(self, t):
        t = self.unopt(t)
        if t[0] == "seq":
            return t[1]
        if t[0] == "map":
            return t[1]
        if t[0] == "tuple":
            return ANY
        return ANY

    def attr(self, t, name, term):
        t = self.unopt(t)
        if t[0] == "cls":
            ci = t[1]
            mem = self.pm.member(ci, name)
            if mem is not None:
                self.stats["resolved"] += 1
                return self.member_type(mem)
            ga = self.pm.has_getattr(ci)
            if ga is not None:
                pbt = self._getattr_target(ci, ga)
                if pbt is not None:
                    fields = _pb_fields(pbt)
                    if fields is not None:
                        if name in fields:
                            self.stats["pb_passthrough"] += 1
                            return ANY
                        self.stats["missing"] += 1
                        self.misses.append(Miss(ci.name, name, f"not a member of {ci.name} nor a field of the wrapped {pbt}"))
                        return ("missing",)
                self.stats["pb_passthrough"] += 1
                return ANY
            self.stats["missing"] += 1
            self.misses.append(Miss(ci.name, name, f"class {ci.name} has no member '{name}' and no __getattr__"))
            return ("missing",)
        if t[0] == "map":
            if name in ("values", "keys", "items", "get"):
                return ("mapmeth", name, t)
            self.stats["opaque"] += 1
            return ANY
        if t[0] == "prim" and t[1] == "str":
            if name in STR_METHODS:
                return ("strmeth", name)
            self.stats["opaque"] += 1
            return ANY
        if t[0] == "unknown_root":
            return t
        self.stats["opaque"] += 1
        return ANY

    def _getattr_target(self, ci, ga: Member) -> Optional[str]:
        """`return getattr(self.<field>, name)` -> annotation text of <field>."""
        for n in ast.walk(ga.node):
            if isinstance(n, ast.Call) and isinstance(n.func, ast.Name) and n.func.id == "getattr" and n.args:
                a = n.args[0]
                if isinstance(a, ast.Attribute) and isinstance(a.value, ast.Name) and a.value.id == "self":
                    mem = self.pm.member(ci, a.attr)
                    if mem is not None and mem.ann is not None:
                        return ast.unparse(mem.ann)
        return None

    # -- printable -----------------------------------------------------------
    def printable(self, t, inside=False) -> Optional[str]:
        """None if a value of type t prints as text; else a reason.  A
        collection of plain values prints as a Python literal (used on
        purpose by the test templates); a wrapper object - alone or inside
        a collection - prints a dataclass repr."""
        t = self.unopt(t)
        if t[0] == "cls":
            ci = t[1]
            if not inside and self.pm.member(ci, "__str__") is not None:
                return None
            if any(b.split(".")[-1] in ("Enum", "IntEnum", "str") for c in self.pm.mro(ci) for b in c.bases):
                return None
            return f"object of class {ci.name} printed {'inside a collection ' if inside else ''}(dataclass repr, not source text)"
        if t[0] == "seq":
            return self.printable(t[1], True)
        if t[0] == "map":
            return self.printable(t[1], True) or self.printable(t[2], True)
        if t[0] == "tuple":
            for x in t[1]:
                r = self.printable(x, True)
                if r:
                    return r
            return None
        if t[0] in ("callable", "mapmeth", "strmeth"):
            return "bound method printed without being called"
        return None
