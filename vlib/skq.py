"""Query helpers over emitted-program skeletons (Engine S rules)."""
from __future__ import annotations

import ast
import os
import re
from typing import Dict, Iterable, List, Optional, Tuple

from . import core
from .constraints import CONSTRAINTS
from .pymodel import PyModel, string_properties
from .tmodel import TemplateSet, Skeleton, cover, render, SymDict

SVC = "%namespace/%name_%version/%sub/services/%service/"
TYPES = "%namespace/%name_%version/%sub/types/"
ADS_SVC = "%namespace/%name/%version/%sub/services/%service/"
M = "ELEM(service.methods.values())"

_PM: Optional[PyModel] = None


def pm() -> PyModel:
    global _PM
    if _PM is None:
        _PM = PyModel()
    return _PM


class Lib:
    """Skeleton factory with caching for one template root."""

    def __init__(self, root: str = None):
        self.root = root or core.TEMPLATES
        self.ts = TemplateSet(self.root, unfold={k: v[0] for k, v in string_properties(pm()).items()})
        self._covers: Dict[tuple, list] = {}

    def path(self, name):
        return os.path.join(self.root, name)

    def roots(self, name):
        r = {"api", "opts", "snippet_index"}
        if "%service" in name:
            r.add("service")
        if "%proto" in name:
            r.add("proto")
        return r

    def variants(self, name: str, transport=("grpc", "rest"), forced=None, want2=False) -> List[Skeleton]:
        key = (name, tuple(transport) if transport else None, tuple(sorted((forced or {}).items())), want2)
        if key not in self._covers:
            cr = {"opts": SymDict("opts", transport=list(transport))} if transport else None
            vs, st = cover(self.ts, name, constraints=CONSTRAINTS, const_roots=cr, known_roots=self.roots(name),
                           base_forced=forced, loop_arities=(0, 1, 2) if want2 else (0, 1),
                           seeds=((True, 1), (False, 1)) + (((True, 2),) if want2 else ()))
            self._covers[key] = [v for v in vs if v.tree() is not None]
        return self._covers[key]

    def one(self, name: str, forced=None, default=True, loop_default=1, transport=("grpc", "rest")) -> Skeleton:
        cr = {"opts": SymDict("opts", transport=list(transport))} if transport else None
        return render(self.ts, name, forced=forced, default=default, loop_default=loop_default, constraints=CONSTRAINTS,
                      const_roots=cr, known_roots=self.roots(name))


def D(sk: Skeleton, node) -> str:
    """described source of a node, whitespace-normalised"""
    return core.norm_ws(sk.src(node))


def Dn(sk: Skeleton, name: str) -> str:
    return sk.describe(name or "")


def where(sk: Skeleton, node, root=None) -> Tuple[str, int]:
    t, l = sk.where(node)
    return os.path.join(root or core.TEMPLATES, t), l


def val(sk: Skeleton, atom: str):
    """value the skeleton's valuation gave to an atom (None if never consulted)"""
    return sk.valuation.assigned.get(atom)


def functions(tree) -> Iterable[ast.AST]:
    for n in ast.walk(tree):
        if isinstance(n, (ast.FunctionDef, ast.AsyncFunctionDef)):
            yield n


def classes(tree) -> Iterable[ast.ClassDef]:
    for n in ast.walk(tree):
        if isinstance(n, ast.ClassDef):
            yield n


def calls(node) -> Iterable[ast.Call]:
    for n in ast.walk(node):
        if isinstance(n, ast.Call):
            yield n


def kw(sk, call: ast.Call) -> Dict[str, str]:
    return {k.arg: D(sk, k.value) for k in call.keywords if k.arg}


def own_body_walk(fn):
    """walk a function body without descending into nested defs/classes"""
    stack = list(fn.body)
    while stack:
        n = stack.pop()
        yield n
        if isinstance(n, (ast.FunctionDef, ast.AsyncFunctionDef, ast.ClassDef, ast.Lambda)):
            continue            # a nested def at the top level of the body is a statement of this function, its body is not
        for c in ast.iter_child_nodes(n):
            if isinstance(c, (ast.FunctionDef, ast.AsyncFunctionDef, ast.ClassDef, ast.Lambda)):
                continue
            stack.append(c)


HOLE = re.compile(r"\{([^{}]*(?:\{[^{}]*\}[^{}]*)*)\}")


def binder(desc: str, suffix: str) -> Optional[str]:
    """'{X.name}' with suffix '.name' -> 'X'"""
    if desc.startswith("{") and desc.endswith("}") and desc[1:-1].endswith(suffix):
        return desc[1:-1][: -len(suffix)]
    return None
