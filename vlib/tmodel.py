"""Engine T/S: Jinja template model and emitted-program skeletons.

Templates are *parsed* (jinja2 lexer+parser, configured as Generator.__init__
configures its environment) and then walked by an abstract interpreter that
never calls jinja's compiler or renderer:

 * constant expressions are folded (strings, CondExpr on constants, macro
   parameters bound to constants, `set`, namespace() flags, `do list.append`);
 * every other expression is a symbolic value ``Sym(canon)`` whose *canonical
   access path* is independent of local renames (loop variables, `with`,
   macro parameters);
 * `if` tests are decomposed into atoms (canonical leaf tests); a Valuation
   gives each atom one truth value for the whole skeleton (consistent);
 * each `for` is unrolled 0, 1 or 2 times as the Valuation says;
 * printed symbolic values become placeholder identifiers ``H<n>_``, the same
   canonical path always giving the same placeholder.

The result (a Skeleton) is Python-with-holes text plus a side table mapping
every character back to template file:line, guard formulas and hole paths.
"""
from __future__ import annotations

import ast
import os
import re
from typing import Any, Dict, List, Optional, Tuple

import jinja2
from jinja2 import nodes

# ---------------------------------------------------------------------------
# values


class Sym:
    """A value unknown statically; canon is its canonical access path."""

    __slots__ = ("canon", "term")

    def __init__(self, canon: str, term=None):
        self.canon = canon
        # structured form used by the typed environment:
        # ('root', n) ('attr', t, a) ('elem', t) ('key', t) ('idx', t, i)
        # ('call', t, [args], {kw}) ('filter', t, name, [args], {kw}) ('item', t, arg) ('opaque', canon)
        self.term = term if term is not None else ("opaque", canon)

    def __repr__(self):
        return f"Sym({self.canon})"


class BoolSym(Sym):
    """the value of a boolean template expression bound to a name (`{% set cross = a != b %}`): printing / passing it on treats it as
    an opaque symbol, but testing it later must decide the SAME atoms as testing the expression in place would"""

    __slots__ = ("formula",)

    def __init__(self, canon: str, formula):
        super().__init__(canon)
        self.formula = formula


class SymDict(dict):
    """A dict some of whose keys are known constants; unknown keys are
    symbolic under the given canonical name."""

    def __init__(self, canon, *a, **kw):
        super().__init__(*a, **kw)
        self.canon = canon


class NS:
    """jinja namespace() object."""

    def __init__(self, d):
        self.d = d


class MacroRef:
    def __init__(self, node: nodes.Macro, scope: "Scope", tmpl: str):
        self.node, self.scope, self.tmpl = node, scope, tmpl


class ModuleRef:
    def __init__(self, scope: "Scope", tmpl: str):
        self.scope, self.tmpl = scope, tmpl


class StrMeth:
    def __init__(self, recv, name):
        self.recv, self.name = recv, name


class ListMeth:
    def __init__(self, recv, name):
        self.recv, self.name = recv, name


class Cat:
    """Concatenation of values (a ~ b, a + b with a symbolic part)."""

    def __init__(self, parts):
        self.parts = parts


class Seg:
    __slots__ = ("text", "kind", "tmpl", "line", "guards", "canon")

    def __init__(self, text, kind, tmpl, line, guards, canon=None):
        self.text, self.kind, self.tmpl, self.line, self.guards, self.canon = (
            text, kind, tmpl, line, guards, canon)

    def with_text(self, t):
        return Seg(t, self.kind, self.tmpl, self.line, self.guards, self.canon)


class Segs:
    """Rendered output of a macro call / block: list of Seg."""

    def __init__(self, segs: List[Seg]):
        self.segs = segs

    def is_const(self):
        return all(s.kind != "h" for s in self.segs)

    def text(self):
        return "".join(s.text for s in self.segs)


class Infeasible(Exception):
    pass


SAFE_STR_METHODS = {
    "format", "replace", "capitalize", "lower", "upper", "title", "split", "join",
    "startswith", "endswith", "strip", "lstrip", "rstrip", "rsplit", "isdigit",
}

ORDER_FILTERS = {"sort", "list", "unique", "reverse"}


# ---------------------------------------------------------------------------
# guard formulas: ('a', atom) | ('n', f) | ('&', f, g) | ('|', f, g) | ('c', bool) | ('loop', canon, k)


def f_not(f):
    if f[0] == "n":
        return f[1]
    if f[0] == "c":
        return ("c", not f[1])
    return ("n", f)


def f_and(f, g):
    if f[0] == "c":
        return g if f[1] else f
    if g[0] == "c":
        return f if g[1] else g
    return ("&", f, g)


def f_or(f, g):
    if f[0] == "c":
        return f if f[1] else g
    if g[0] == "c":
        return g if g[1] else f
    return ("|", f, g)


def f_atoms(f, out=None):
    if out is None:
        out = set()
    if f[0] == "a":
        out.add(f[1])
    elif f[0] == "loop":
        out.add("LOOP:" + f[1])
    elif f[0] in ("n",):
        f_atoms(f[1], out)
    elif f[0] in ("&", "|"):
        f_atoms(f[1], out)
        f_atoms(f[2], out)
    return out


def f_eval(f, env) -> bool:
    """env: atom -> bool (LOOP:x -> bool 'non-empty')."""
    t = f[0]
    if t == "a":
        return bool(env[f[1]])
    if t == "loop":
        return bool(env["LOOP:" + f[1]])
    if t == "c":
        return f[1]
    if t == "n":
        return not f_eval(f[1], env)
    if t == "&":
        return f_eval(f[1], env) and f_eval(f[2], env)
    if t == "|":
        return f_eval(f[1], env) or f_eval(f[2], env)
    raise ValueError(f)


def f_str(f) -> str:
    t = f[0]
    if t == "a":
        return f[1]
    if t == "loop":
        return f"nonempty({f[1]})"
    if t == "c":
        return str(f[1])
    if t == "n":
        return "not(" + f_str(f[1]) + ")"
    return "(" + f_str(f[1]) + (" and " if t == "&" else " or ") + f_str(f[2]) + ")"


# ---------------------------------------------------------------------------
# scopes


class Scope:
    def __init__(self, parent: Optional["Scope"] = None, frame: bool = True):
        self.vars: Dict[str, Any] = {}
        self.parent = parent
        self.frame = frame

    def lookup(self, name):
        s = self
        while s is not None:
            if name in s.vars:
                return s.vars[name]
            s = s.parent
        return _MISSING

    def set(self, name, value):
        s = self
        while not s.frame and s.parent is not None:
            s = s.parent
        s.vars[name] = value


_MISSING = object()


# ---------------------------------------------------------------------------
# valuation


class Valuation:
    """Consistent assignment of truth values to atoms / arities to loops.

    forced: atom -> value (bool for atoms, int for 'LOOP:<canon>')
    default: bool (value of unforced atoms), loop_default: arity of unforced loops
    constraints: object with forward(atom, value) -> [(atom, value)] and
                 backward(atom, assigned) -> Optional[value]
    """

    def __init__(self, forced=None, default=True, loop_default=1, constraints=None, salt=None):
        self.forced = dict(forced or {})
        self.default = default
        self.loop_default = loop_default
        self.constraints = constraints
        self.assigned: Dict[str, Any] = {}
        self.implied: Dict[str, Any] = {}
        self.trace: List[Tuple[str, Any, Any]] = []
        self.salt = salt
        # what the forced decisions imply holds from the start, so that atoms met *before* the forced one follow suit
        if constraints is not None and self.forced:
            work = [(a, v) for a, v in self.forced.items()]
            seen = set()
            while work:
                a, v = work.pop()
                if (a, v) in seen:
                    continue
                seen.add((a, v))
                key = a[5:] if a.startswith("LOOP:") else a
                b = v if isinstance(v, bool) else (v > 0)
                for c, cv in constraints.forward(key, b):
                    if c not in self.implied:
                        self.implied[c] = cv
                        work.append((c, cv))

    def _free_default(self, atom):
        if self.salt is not None:
            import hashlib
            return hashlib.md5((str(self.salt) + atom).encode()).digest()[0] & 1 == 1
        return self.default

    def _assign(self, a, v):
        self.assigned[a] = v
        if self.constraints is not None:
            b = v if isinstance(v, bool) else (v > 0)
            key = a[5:] if a.startswith("LOOP:") else a
            for c, cv in self.constraints.forward(key, b):
                for cc in (c, "LOOP:" + c):
                    if cc in self.assigned:
                        have = self.assigned[cc]
                        have = have if isinstance(have, bool) else have > 0
                        if have != cv:
                            raise Infeasible(cc)
                self.implied[c] = cv

    def _implied(self, a):
        key = a[5:] if a.startswith("LOOP:") else a
        if key in self.implied:
            return self.implied[key]
        if self.constraints is not None:
            return self.constraints.backward(key, self.assigned)
        return None

    def atom(self, a: str, site) -> bool:
        if a in self.assigned:
            v = self.assigned[a]
        else:
            implied = self._implied(a)
            la = "LOOP:" + a
            if implied is None and la in self.assigned:
                implied = self.assigned[la] > 0
            if a in self.forced:
                v = self.forced[a]
                if implied is not None and implied != v:
                    raise Infeasible(a)
            elif implied is not None:
                v = implied
            else:
                v = self._free_default(a)
            self._assign(a, v)
        self.trace.append((a, v, site))
        return v

    def loop(self, canon: str, site, want2=False) -> int:
        a = "LOOP:" + canon
        if a in self.assigned:
            v = self.assigned[a]
        else:
            implied = self._implied(a)
            if implied is None and canon in self.assigned:
                implied = bool(self.assigned[canon])
            if a in self.forced:
                v = self.forced[a]
                if implied is not None and bool(implied) != bool(v):
                    raise Infeasible(a)
            elif implied is not None:
                v = (self.loop_default or 1) if implied else 0
            else:
                v = self.loop_default
            self._assign(a, v)
        self.trace.append((a, v, site))
        return v


# ---------------------------------------------------------------------------
# template set


class TemplateSet:
    def __init__(self, root: str, unfold=None):
        self.root = root
        self.env = jinja2.Environment(
            loader=jinja2.FileSystemLoader(root),
            extensions=["jinja2.ext.do"],
            trim_blocks=True,
            lstrip_blocks=True,
        )
        self._cache: Dict[str, nodes.Template] = {}
        self._src: Dict[str, str] = {}
        self._uses_loop: Dict[int, bool] = {}
        self._data_parts: Dict[int, list] = {}
        # attr name -> parts: string-building properties unfolded by definition
        # (filled from Engine P by callers: vlib.pymodel.string_properties)
        self.unfold: Dict[str, list] = dict(unfold or {})

    def names(self) -> List[str]:
        return sorted(self.env.list_templates())

    def exists(self, name: str) -> bool:
        return os.path.isfile(os.path.join(self.root, name))

    def source(self, name: str) -> str:
        if name not in self._src:
            with open(os.path.join(self.root, name), encoding="utf-8") as f:
                self._src[name] = f.read()
        return self._src[name]

    def parse(self, name: str) -> nodes.Template:
        if name not in self._cache:
            self._cache[name] = self.env.parse(self.source(name), name, name)
        return self._cache[name]

    def path(self, name: str) -> str:
        return os.path.join(self.root, name)

    def uses_loop(self, n) -> bool:
        k = id(n)
        if k not in self._uses_loop:
            self._uses_loop[k] = any(x.name == "loop" for x in n.find_all(nodes.Name))
        return self._uses_loop[k]

    def data_parts(self, c):
        k = id(c)
        if k not in self._data_parts:
            parts, line = [], c.lineno
            for part in c.data.splitlines(keepends=True):
                parts.append((part, line))
                if part.endswith("\n"):
                    line += 1
            self._data_parts[k] = parts
        return self._data_parts[k]

    def public_names(self) -> List[str]:
        out = []
        for n in self.names():
            b = n.split("/")[-1]
            if b.startswith("_") and b != "__init__.py.j2":
                continue
            out.append(n)
        return out


# ---------------------------------------------------------------------------
# skeleton


class Skeleton:
    def __init__(self, tmpl, text, segs, holes, valuation, roots, opaque, notes):
        self.tmpl = tmpl
        self.text = text
        self.segs: List[Seg] = segs
        self.holes: Dict[str, str] = holes  # placeholder -> canon
        self.valuation: Valuation = valuation
        self.roots = roots
        self.opaque = opaque
        self.notes = notes
        self._starts: Optional[List[int]] = None
        self._tree = None
        self._err = None
        self._line_off: Optional[List[int]] = None

    # -- positions -------------------------------------------------------
    def _index(self):
        if self._starts is None:
            pos, st = 0, []
            for s in self.segs:
                st.append(pos)
                pos += len(s.text)
            self._starts = st
            lo, off = [0], 0
            for l in self.text.split("\n"):
                off += len(l) + 1
                lo.append(off)
            self._line_off = lo

    def offset(self, lineno: int, col: int) -> int:
        """(1-based line, utf8 col offset from ast) -> char offset."""
        self._index()
        base = self._line_off[lineno - 1]
        line = self.text[base:self._line_off[lineno] - 1] if lineno < len(self._line_off) else self.text[base:]
        # ast col_offset is in utf8 bytes
        if line.isascii():
            return base + col
        return base + len(line.encode("utf8")[:col].decode("utf8", "ignore"))

    def seg_at(self, off: int) -> Optional[Seg]:
        self._index()
        import bisect
        i = bisect.bisect_right(self._starts, off) - 1
        while 0 <= i < len(self.segs) and not self.segs[i].text and i + 1 < len(self.segs) and self._starts[i + 1] <= off:
            i += 1
        if i < 0:
            return None
        return self.segs[i]

    def seg_of_node(self, node) -> Optional[Seg]:
        return self.seg_at(self.offset(node.lineno, node.col_offset))

    def where(self, node) -> Tuple[str, int]:
        s = self.seg_of_node(node)
        if s is None:
            return (self.tmpl, 0)
        return (s.tmpl, s.line)

    def where_line(self, lineno: int) -> Tuple[str, int]:
        self._index()
        if lineno < 1 or lineno >= len(self._line_off):
            return (self.tmpl, 0)
        base = self._line_off[lineno - 1]
        end = self._line_off[lineno] - 1
        # first non-blank char of the line
        txt = self.text[base:end]
        k = len(txt) - len(txt.lstrip())
        s = self.seg_at(base + k)
        return (s.tmpl, s.line) if s else (self.tmpl, 0)

    def guards_of_node(self, node):
        s = self.seg_of_node(node)
        return s.guards if s else ()

    # -- parse -----------------------------------------------------------
    def tree(self):
        if self._tree is None and self._err is None:
            try:
                self._tree = ast.parse(self.text)
            except SyntaxError as e:
                self._err = e
        return self._tree

    def syntax_error(self):
        self.tree()
        return self._err

    # -- holes -----------------------------------------------------------
    HOLE_RE = re.compile(r"H(\d+)_")

    def describe(self, s: str) -> str:
        """Replace placeholders by {canonical path}."""
        return self.HOLE_RE.sub(lambda m: "{" + self.holes.get(m.group(0), m.group(0)) + "}", s)

    def canon_of(self, ident: str) -> Optional[str]:
        """canon if ident is exactly one placeholder."""
        if self.HOLE_RE.fullmatch(ident or ""):
            return self.holes.get(ident)
        return None

    def src(self, node) -> str:
        return self.describe(ast.get_source_segment(self.text, node) or "")


# ---------------------------------------------------------------------------
# the abstract renderer


class Renderer:
    MAX_INCLUDE_DEPTH = 2
    MAX_MACRO_DEPTH = 12

    def __init__(self, ts: TemplateSet, valuation: Valuation, const_roots: Optional[dict] = None, known_roots=None):
        self.ts = ts
        self.known_roots = known_roots
        self.val = valuation
        self.holes: Dict[str, str] = {}   # canon -> placeholder
        self.roots: set = set()
        self.uses: Dict[Tuple[str, str], tuple] = {}
        self.filter_ctx: Tuple[str, ...] = ()
        self.opaque: List[str] = []
        self.notes: List[str] = []
        self.guards: Tuple = ()
        self.tmpl_stack: List[str] = []
        self.include_stack: List[str] = []
        self.macro_depth = 0
        self.blocks: Dict[str, Tuple[nodes.Block, Scope, str]] = {}
        self.const_roots = const_roots or {}
        self._module_cache: Dict[str, ModuleRef] = {}

    # -- entry -------------------------------------------------------------
    def render(self, name: str) -> Skeleton:
        segs = self.render_template(name)
        text = "".join(s.text for s in segs)
        holes = {ph: canon for canon, ph in self.holes.items()}
        sk = Skeleton(name, text, segs, holes, self.val, sorted(self.roots), self.opaque, self.notes)
        sk.uses = self.uses
        return sk

    def render_template(self, name: str, scope: Optional[Scope] = None) -> List[Seg]:
        tree = self.ts.parse(name)
        g = Scope() if scope is None else scope
        for k, v in self.const_roots.items():
            g.vars.setdefault(k, v)
        self.tmpl_stack.append(name)
        try:
            self.collect_defs(tree, g, name)
            ext = None
            for n in tree.body:
                if isinstance(n, nodes.Extends):
                    ext = self.eval(n.template, g)
            if ext is not None:
                # child: run top-level statements for their side effects (set), collect blocks
                for n in tree.body:
                    if isinstance(n, (nodes.Assign, nodes.ExprStmt, nodes.Import, nodes.FromImport)):
                        self.stmt(n, g)
                for b in tree.find_all(nodes.Block):
                    self.blocks.setdefault(b.name, (b, g, name))
                return self.render_template(ext, Scope())
            return self.body(tree.body, g)
        finally:
            self.tmpl_stack.pop()

    def collect_defs(self, tree, scope: Scope, tname: str):
        """Macros are visible throughout their template (jinja hoists them at
        top level in practice because they are defined before use); imports
        are executed when reached, but we hoist them too (they have no
        side effects)."""
        for n in tree.body:
            if isinstance(n, nodes.Macro):
                scope.vars[n.name] = MacroRef(n, scope, tname)

    def module(self, name: str) -> ModuleRef:
        if name not in self._module_cache:
            tree = self.ts.parse(name)
            sc = Scope()
            ref = ModuleRef(sc, name)
            self._module_cache[name] = ref
            self.tmpl_stack.append(name)
            saved = self.guards
            try:
                self.collect_defs(tree, sc, name)
                for n in tree.body:
                    if isinstance(n, (nodes.Import, nodes.FromImport, nodes.Assign)):
                        self.stmt(n, sc)
            finally:
                self.tmpl_stack.pop()
                self.guards = saved
        return self._module_cache[name]

    # -- statements --------------------------------------------------------
    def body(self, body, scope) -> List[Seg]:
        out: List[Seg] = []
        for n in body:
            out.extend(self.stmt(n, scope))
        return out

    def cur(self):
        return self.tmpl_stack[-1]

    def stmt(self, n, scope) -> List[Seg]:
        if isinstance(n, nodes.Output):
            out: List[Seg] = []
            for c in n.nodes:
                if isinstance(c, nodes.TemplateData):
                    out.extend(self.data_segs(c))
                else:
                    out.extend(self.emit(self.eval(c, scope), c))
            return out
        if isinstance(n, nodes.If):
            return self.stmt_if(n, scope)
        if isinstance(n, nodes.For):
            return self.stmt_for(n, scope)
        if isinstance(n, nodes.With):
            sc = Scope(scope)
            for t, v in zip(n.targets, n.values):
                self.bind_target(t, self.eval(v, scope), sc)
            return self.body(n.body, sc)
        if isinstance(n, nodes.Assign):
            v = self.eval(n.node, scope)
            if isinstance(v, Segs) and v.is_const():
                v = v.text()
            # (a non-constant rendering - e.g. the output of a macro call - stays a Segs value: printing the variable later emits the same
            #  segments, with the same holes, as printing the expression in place)
            if isinstance(n.target, nodes.NSRef):
                ns = scope.lookup(n.target.name)
                if isinstance(ns, NS):
                    ns.d[n.target.attr] = v
                return []
            self.bind_target(n.target, v, scope, assign=True)
            return []
        if isinstance(n, nodes.AssignBlock):
            segs = self.body(n.body, Scope(scope))
            v = Segs(segs)
            val = v.text() if v.is_const() else v
            if n.filter is not None:
                val = self.apply_filter(n.filter, val, scope)
            self.bind_target(n.target, val, scope, assign=True)
            return []
        if isinstance(n, nodes.FilterBlock):
            saved_ctx = self.filter_ctx
            names, cur = [], n.filter
            while cur is not None:
                names.append(cur.name)
                cur = cur.node
            self.filter_ctx = saved_ctx + tuple(names)
            try:
                segs = self.body(n.body, Scope(scope))
            finally:
                self.filter_ctx = saved_ctx
            v = self.apply_filter_chain(n.filter, Segs(segs), scope)
            return self.emit(v, n)
        if isinstance(n, nodes.Block):
            b = self.blocks.get(n.name)
            if b is not None:
                blk, bscope, btmpl = b
                self.tmpl_stack.append(btmpl)
                try:
                    return self.body(blk.body, Scope(bscope))
                finally:
                    self.tmpl_stack.pop()
            return self.body(n.body, Scope(scope))
        if isinstance(n, nodes.Include):
            return self.stmt_include(n, scope)
        if isinstance(n, nodes.Import):
            name = self.eval(n.template, scope)
            scope.set(n.target, self.module(name))
            return []
        if isinstance(n, nodes.FromImport):
            name = self.eval(n.template, scope)
            mod = self.module(name)
            for item in n.names:
                src, dst = (item, item) if isinstance(item, str) else item
                scope.set(dst, mod.scope.lookup(src))
            return []
        if isinstance(n, nodes.Macro):
            scope.set(n.name, MacroRef(n, scope, self.cur()))
            return []
        if isinstance(n, nodes.ExprStmt):
            self.eval(n.node, scope)
            return []
        if isinstance(n, nodes.Extends):
            return []
        if isinstance(n, nodes.Scope):
            return self.body(n.body, Scope(scope))
        raise NotImplementedError(f"jinja statement {type(n).__name__} in {self.cur()}:{n.lineno}")

    def data_segs(self, c: nodes.TemplateData) -> List[Seg]:
        cur, g = self.tmpl_stack[-1], self.guards
        return [Seg(part, "d", cur, line, g) for part, line in self.ts.data_parts(c)]

    def stmt_if(self, n: nodes.If, scope) -> List[Seg]:
        saved = self.guards
        neg = ("c", True)
        try:
            branches = [(n.test, n.body)] + [(e.test, e.body) for e in n.elif_]
            for test, body in branches:
                v, f = self.decide(test, scope)
                if v:
                    self.guards = saved + (f_and(neg, f),) if f_and(neg, f) != ("c", True) else saved
                    return self.body(body, scope)
                neg = f_and(neg, f_not(f))
            self.guards = saved + (neg,) if neg != ("c", True) else saved
            return self.body(n.else_, scope)
        finally:
            self.guards = saved

    def stmt_for(self, n: nodes.For, scope) -> List[Seg]:
        it = self.eval(n.iter, scope)
        saved = self.guards
        out: List[Seg] = []
        try:
            if isinstance(it, (list, tuple, dict)) or isinstance(it, str):
                items = list(it.items()) if False else list(it)
                k = 0
                live = []
                for item in items:
                    sc = Scope(scope)
                    self.bind_target(n.target, item, sc)
                    if n.test is not None:
                        v, f = self.decide(n.test, sc)
                        if not v:
                            continue
                    live.append(sc)
                for i, sc in enumerate(live):
                    sc.vars["loop"] = {"index": i + 1, "index0": i, "first": i == 0, "last": i == len(live) - 1,
                                       "length": len(live), "revindex": len(live) - i}
                    out.extend(self.body(n.body, sc))
                if not live:
                    out.extend(self.body(n.else_, scope))
                return out
            canon_full = self.canon_val(it)
            self.use(it, "iter", n.lineno)
            # `for x in X|map(attribute='a')` visits ELEM(X).a : peel a trailing attribute projection (possibly under list / sort / unique)
            map_attr = None
            mm_ = re.search(r"\|map\(attribute='([\w.]+)'\)((?:\|(?:list|sort|unique)\(\))*)$", canon_full)
            if mm_ and isinstance(n.target, nodes.Name):
                map_attr = mm_.group(1)
                canon_full_stripped = canon_full[: mm_.start()]
            else:
                canon_full_stripped = canon_full
            base, filt_tests = self.strip_order_filters(canon_full_stripped)
            uses_loop = self.ts.uses_loop(n)
            coll = re.sub(r"\.(items|values|keys)\(\)$", "", base)
            arity = self.val.loop(coll, id(n), want2=uses_loop)
            elem = "ELEM(" + base + ")"
            # selectattr/rejectattr behave as loop filters on the element
            for attr, want in filt_tests:
                a = elem + "." + attr
                # over `<m>.items()` an attribute path `1.x` / `0.x` addresses the value / the key of the pair: the same element the
                # loop target `for k, v in ...` binds (ELEM(<m>.values()) / KEY(<m>))
                if base.endswith(".items()") and re.match(r"[01]\.", attr):
                    m_ = base[: -len(".items()")]
                    a = ("ELEM(" + m_ + ".values())" if attr[0] == "1" else "KEY(" + m_ + ")") + attr[1:]
                v = self.val.atom(a, (id(n), attr))
                self.guards = self.guards + ((("a", a) if want else ("n", ("a", a))),)
                if v != want:
                    arity = 0
            if arity:
                self.guards = self.guards + (("loop", coll, arity, canon_full),)
            bodies = 0
            for i in range(arity):
                sc = Scope(scope)
                self.bind_loop_target(n.target, it, base, sc)
                if map_attr is not None:
                    el_ = sc.vars[n.target.name]
                    sc.vars[n.target.name] = Sym(el_.canon + "." + map_attr, ("attr", el_.term, map_attr) if "." not in map_attr else None)
                if n.test is not None:
                    v, f = self.decide(n.test, sc)
                    if not v:
                        break
                    if i == 0:
                        self.guards = self.guards + (f,)
                sc.vars["loop"] = {"index": i + 1, "index0": i, "first": i == 0, "last": i == arity - 1,
                                   "length": arity, "revindex": arity - i,
                                   "cycle": Sym("loop.cycle"), "previtem": Sym("loop.previtem")}
                out.extend(self.body(n.body, sc))
                bodies += 1
            if not bodies:
                self.guards = saved
                out.extend(self.body(n.else_, scope))
            return out
        finally:
            self.guards = saved

    FILTER_TAIL = re.compile(r"\|(\w+)\(([^()]*)\)$")

    def strip_order_filters(self, canon: str):
        """canon of an iterable -> (canon without order/selection filters,
        [(attr, wanted truth)] for selectattr/rejectattr)."""
        tests = []
        while True:
            m = self.FILTER_TAIL.search(canon)
            if not m:
                break
            name, args = m.group(1), m.group(2)
            if name in ORDER_FILTERS:
                canon = canon[: m.start()]
            elif name == "dictsort":
                canon = canon[: m.start()] + ".items()"
            elif name in ("selectattr", "rejectattr") and re.fullmatch(r"'[\w.]+'", args.strip()):
                tests.append((args.strip()[1:-1], name == "selectattr"))
                canon = canon[: m.start()]
            else:
                break
        return canon, tests

    def bind_loop_target(self, target, it, base: str, sc: Scope):
        it_term = self.strip_order_term(self.term_val(it))
        if isinstance(target, nodes.Name):
            sc.vars[target.name] = Sym("ELEM(" + base + ")", ("elem", it_term))
            return
        if isinstance(target, nodes.Tuple) and len(target.items) == 2 and base.endswith(".items()"):
            m = base[: -len(".items()")]
            k, v = target.items
            mt = it_term[1][1] if it_term[0] == "call" and it_term[1][0] == "attr" and it_term[1][2] == "items" else ("opaque", m)
            self.bind_target(k, Sym("KEY(" + m + ")", ("key", mt)), sc)
            self.bind_target(v, Sym("ELEM(" + m + ".values())", ("elem", ("call", ("attr", mt, "values"), [], {}))), sc)
            return
        if isinstance(target, nodes.Tuple):
            for i, t in enumerate(target.items):
                self.bind_target(t, Sym(f"ELEM({base})[{i}]", ("idx", ("elem", it_term), i)), sc)
            return
        raise NotImplementedError("loop target")

    def strip_order_term(self, t):
        while t[0] == "filter" and t[2] in ORDER_FILTERS | {"selectattr", "rejectattr", "dictsort"}:
            if t[2] == "dictsort":
                return ("call", ("attr", t[1], "items"), [], {})
            t = t[1]
        return t

    def term_val(self, v):
        if isinstance(v, Sym):
            return v.term
        if is_const(v):
            return ("const", v)
        return ("opaque", self.canon_val(v))

    def bind_target(self, target, value, sc: Scope, assign=False):
        if isinstance(target, nodes.Name):
            if assign:
                sc.set(target.name, value)
            else:
                sc.vars[target.name] = value
            return
        if isinstance(target, nodes.Tuple):
            if isinstance(value, (list, tuple)) and len(value) == len(target.items):
                for t, v in zip(target.items, value):
                    self.bind_target(t, v, sc, assign)
            else:
                c = self.canon_val(value)
                for i, t in enumerate(target.items):
                    self.bind_target(t, Sym(f"{c}[{i}]", ("idx", self.term_val(value), i)), sc, assign)
            return
        raise NotImplementedError("bind target " + type(target).__name__)

    def stmt_include(self, n: nodes.Include, scope) -> List[Seg]:
        name = self.eval(n.template, scope)
        if not isinstance(name, str):
            self.opaque.append(f"include of non-constant template at {self.cur()}:{n.lineno}")
            return []
        if self.include_stack.count(name) >= self.MAX_INCLUDE_DEPTH:
            self.notes.append(f"recursive include of {name} cut at depth {self.MAX_INCLUDE_DEPTH}")
            return []
        tree = self.ts.parse(name)
        sc = Scope(scope)
        self.include_stack.append(name)
        self.tmpl_stack.append(name)
        try:
            self.collect_defs(tree, sc, name)
            return self.body(tree.body, sc)
        finally:
            self.tmpl_stack.pop()
            self.include_stack.pop()

    # -- tests ---------------------------------------------------------------
    def decide(self, e, scope) -> Tuple[bool, tuple]:
        """Evaluate a test under the valuation. Returns (value, formula)."""
        if isinstance(e, nodes.Not):
            v, f = self.decide(e.node, scope)
            return (not v), f_not(f)
        if isinstance(e, nodes.And):
            v1, f1 = self.decide(e.left, scope)
            if not v1:
                # formula still needs the right side for implication reasoning
                f2 = self.formula(e.right, scope)
                return False, f_and(f1, f2)
            v2, f2 = self.decide(e.right, scope)
            return v2, f_and(f1, f2)
        if isinstance(e, nodes.Or):
            v1, f1 = self.decide(e.left, scope)
            if v1:
                f2 = self.formula(e.right, scope)
                return True, f_or(f1, f2)
            v2, f2 = self.decide(e.right, scope)
            return v2, f_or(f1, f2)
        if isinstance(e, (nodes.Name, nodes.Getattr, nodes.Getitem)):
            try:
                pv = self.eval(e, scope, peek=True)
            except Exception:
                pv = None
            if isinstance(pv, BoolSym):
                return self.decide_formula(pv.formula, id(e)), pv.formula
        neg, leaf_canon, const = self.leaf(e, scope)
        if const is not _MISSING:
            return bool(const), ("c", bool(const))
        v = self.val.atom(leaf_canon, id(e))
        f = ("a", leaf_canon)
        if neg:
            return (not v), ("n", f)
        return v, f

    def decide_formula(self, f, site) -> bool:
        """truth value of a stored formula under the valuation (deciding its atoms like an in-place test would)"""
        t = f[0]
        if t == "a":
            return self.val.atom(f[1], hash((site, f[1])))
        if t == "c":
            return f[1]
        if t == "n":
            return not self.decide_formula(f[1], site)
        if t == "&":
            return self.decide_formula(f[1], site) and self.decide_formula(f[2], site)
        if t == "|":
            return self.decide_formula(f[1], site) or self.decide_formula(f[2], site)
        if t == "loop":
            return bool(self.val.assigned.get("LOOP:" + f[1], 1))
        raise ValueError(f)

    def formula(self, e, scope) -> tuple:
        """Formula of a test without consulting the valuation."""
        if isinstance(e, (nodes.Name, nodes.Getattr, nodes.Getitem)):
            try:
                pv = self.eval(e, scope, peek=True)
            except Exception:
                pv = None
            if isinstance(pv, BoolSym):
                return pv.formula
        if isinstance(e, nodes.Not):
            return f_not(self.formula(e.node, scope))
        if isinstance(e, nodes.And):
            return f_and(self.formula(e.left, scope), self.formula(e.right, scope))
        if isinstance(e, nodes.Or):
            return f_or(self.formula(e.left, scope), self.formula(e.right, scope))
        try:
            neg, leaf_canon, const = self.leaf(e, scope, peek=True)
        except Exception:
            return ("a", "?" + type(e).__name__)
        if const is not _MISSING:
            return ("c", bool(const))
        f = ("a", leaf_canon)
        return ("n", f) if neg else f

    def leaf(self, e, scope, peek=False):
        """-> (negated, canonical atom, const or _MISSING)"""
        # normalise complementary comparison operators
        if isinstance(e, nodes.Compare) and len(e.ops) == 1:
            op = e.ops[0].op
            a = self.eval(e.expr, scope, peek=peek)
            b = self.eval(e.ops[0].expr, scope, peek=peek)
            if is_const(a) and is_const(b):
                return False, "", self.compare_const(op, a, b)
            ca, cb = self.canon_val(a), self.canon_val(b)
            if not peek:
                self.use(a, "test", getattr(e, "lineno", 0))
                self.use(b, "test", getattr(e, "lineno", 0))
            # length normal forms
            if ca.endswith("|length()") and is_const(b) and isinstance(b, int):
                x = ca[: -len("|length()")]
                if (op, b) in ((">", 0), ("gt", 0), ("ne", 0), (">=", 1), ("gteq", 1)):
                    return False, x, _MISSING
                if (op, b) in (("eq", 0), ("lt", 1), ("lteq", 0)):
                    return True, x, _MISSING
            if op == "ne":
                return True, f"{ca} == {cb}", _MISSING
            if op == "notin":
                return True, f"{ca} in {cb}", _MISSING
            opmap = {"eq": "==", "gt": ">", "lt": "<", "gteq": ">=", "lteq": "<=", "in": "in"}
            return False, f"{ca} {opmap.get(op, op)} {cb}", _MISSING
        if isinstance(e, nodes.Test) and e.name in ("defined", "undefined") and isinstance(e.node, nodes.Name) \
                and scope.lookup(e.node.name) is _MISSING:
            if self.known_roots is None:
                return e.name == "undefined", e.node.name + " is defined", _MISSING
            return False, "", (e.node.name in self.known_roots) == (e.name == "defined")
        if isinstance(e, nodes.Test):
            v = self.eval(e.node, scope, peek=peek)
            if not peek:
                self.use(v, "test", getattr(e, "lineno", 0))
            if e.name == "none":
                if is_const(v):
                    return False, "", v is None
                return False, self.canon_val(v) + " is none", _MISSING
            if e.name in ("defined", "undefined"):
                return False, "", (e.name == "defined")
            return False, self.canon_val(v) + " is " + e.name, _MISSING
        v = self.eval(e, scope, peek=peek)
        if isinstance(v, Segs):
            v = v.text() if v.is_const() else Sym(self.canon_expr(e, scope))
        if is_const(v):
            return False, "", v
        if not peek:
            self.use(v, "test", getattr(e, "lineno", 0))
        c = self.canon_val(v)
        if c.endswith("|length()"):
            c = c[: -len("|length()")]
        return False, c, _MISSING

    @staticmethod
    def compare_const(op, a, b):
        try:
            if op == "eq":
                return a == b
            if op == "ne":
                return a != b
            if op == "in":
                return a in b
            if op == "notin":
                return a not in b
            if op == "gt":
                return a > b
            if op == "lt":
                return a < b
            if op == "gteq":
                return a >= b
            if op == "lteq":
                return a <= b
        except TypeError:
            return False
        raise NotImplementedError(op)

    # -- expressions ---------------------------------------------------------
    def eval(self, e, scope, peek=False):
        if isinstance(e, nodes.Const):
            return e.value
        if isinstance(e, nodes.TemplateData):
            return e.data
        if isinstance(e, nodes.Name):
            v = scope.lookup(e.name)
            if v is _MISSING:
                if e.name in ("true", "True"):
                    return True
                if e.name in ("false", "False"):
                    return False
                if e.name in ("none", "None"):
                    return None
                if e.name == "namespace":
                    return Sym("namespace")
                self.roots.add(e.name)
                return Sym(e.name, ("root", e.name))
            return v
        if isinstance(e, nodes.Getattr):
            base = self.eval(e.node, scope, peek)
            return self.getattr(base, e.attr)
        if isinstance(e, nodes.Getitem):
            base = self.eval(e.node, scope, peek)
            if isinstance(e.arg, nodes.Slice):
                parts = [self.eval(x, scope, peek) if x is not None else None for x in (e.arg.start, e.arg.stop, e.arg.step)]
                if is_const(base) and all(is_const(p) for p in parts):
                    return base[slice(*parts)]
                return Sym(f"{self.canon_val(base)}[{':'.join('' if p is None else self.canon_val(p) for p in parts)}]")
            arg = self.eval(e.arg, scope, peek)
            if isinstance(base, dict) and is_const(arg) and arg in base:
                return base[arg]
            if isinstance(base, (list, tuple, str)) and isinstance(arg, int) and -len(base) <= arg < len(base):
                return base[arg]
            if isinstance(base, NS) and arg in base.d:
                return base.d[arg]
            return Sym(f"{self.canon_val(base)}[{self.canon_val(arg)}]", ("item", self.term_val(base), self.term_val(arg)))
        if isinstance(e, nodes.Call):
            return self.call(e, scope, peek)
        if isinstance(e, nodes.Filter):
            if e.node is None:
                return Sym("|" + e.name)
            inner = self.eval(e.node, scope, peek)
            return self.apply_filter(e, inner, scope)
        if isinstance(e, nodes.CondExpr):
            if peek:
                f = self.formula(e.test, scope)
                if f[0] != "c":
                    return Sym(self.canon_expr(e, scope))
                v = f[1]
            else:
                v, f = self.decide(e.test, scope)
                saved = self.guards
                if f[0] != "c":
                    self.guards = saved + ((f if v else f_not(f)),)
                try:
                    if v:
                        return self.eval(e.expr1, scope, peek)
                    if e.expr2 is None:
                        return ""
                    return self.eval(e.expr2, scope, peek)
                finally:
                    self.guards = saved
            if v:
                return self.eval(e.expr1, scope, peek)
            if e.expr2 is None:
                return ""
            return self.eval(e.expr2, scope, peek)
        if isinstance(e, (nodes.And, nodes.Or, nodes.Not, nodes.Compare, nodes.Test)):
            if peek:
                f = self.formula(e, scope)
                return f[1] if f[0] == "c" else Sym(f_str(f))
            if isinstance(e, (nodes.And, nodes.Or)):
                # value semantics of and/or on constants; otherwise boolean via decide
                l = self.eval(e.left, scope, peek=True)
                r = self.eval(e.right, scope, peek=True)
                if is_const(l) and is_const(r):
                    return (l and r) if isinstance(e, nodes.And) else (l or r)
                if is_const(l):
                    if isinstance(e, nodes.And):
                        return self.eval(e.right, scope) if l else l
                    return l if l else self.eval(e.right, scope)
                return BoolSym(self.canon_expr(e, scope), self.formula(e, scope))
            neg, c, const = self.leaf(e, scope) if not isinstance(e, nodes.Not) else (None, None, _MISSING)
            if isinstance(e, nodes.Not):
                inner = self.eval(e.node, scope, peek=True)
                if is_const(inner):
                    return not inner
                return BoolSym("not(" + self.canon_val(inner) + ")", self.formula(e, scope))
            if const is not _MISSING:
                return bool(const)
            return BoolSym(("not(" + c + ")") if neg else c, ("n", ("a", c)) if neg else ("a", c))
        if isinstance(e, (nodes.Add, nodes.Concat)):
            parts = [self.eval(x, scope, peek) for x in ([e.left, e.right] if isinstance(e, nodes.Add) else e.nodes)]
            if all(is_const(p) for p in parts):
                try:
                    if isinstance(e, nodes.Add):
                        return parts[0] + parts[1]
                    return "".join(str(p) for p in parts)
                except TypeError:
                    pass
            if isinstance(e, nodes.Add) and not any(isinstance(p, str) or isinstance(p, Cat) for p in parts):
                return Sym(" + ".join(self.canon_val(p) for p in parts))
            return Cat(parts)
        if isinstance(e, (nodes.Sub, nodes.Mul, nodes.Div, nodes.FloorDiv, nodes.Mod, nodes.Pow)):
            l, r = self.eval(e.left, scope, peek), self.eval(e.right, scope, peek)
            if is_const(l) and is_const(r):
                import operator
                op = {nodes.Sub: operator.sub, nodes.Mul: operator.mul, nodes.Div: operator.truediv,
                      nodes.FloorDiv: operator.floordiv, nodes.Mod: operator.mod, nodes.Pow: operator.pow}[type(e)]
                try:
                    return op(l, r)
                except Exception:
                    pass
            return Sym(f"({self.canon_val(l)} {e.operator} {self.canon_val(r)})")
        if isinstance(e, nodes.Neg):
            v = self.eval(e.node, scope, peek)
            return -v if is_const(v) else Sym("-" + self.canon_val(v))
        if isinstance(e, nodes.Pos):
            return self.eval(e.node, scope, peek)
        if isinstance(e, nodes.List):
            return [self.eval(x, scope, peek) for x in e.items]
        if isinstance(e, nodes.Tuple):
            return tuple(self.eval(x, scope, peek) for x in e.items)
        if isinstance(e, nodes.Dict):
            d = {}
            for p in e.items:
                k = self.eval(p.key, scope, peek)
                if not is_const(k):
                    return Sym(self.canon_expr(e, scope))
                d[k] = self.eval(p.value, scope, peek)
            return d
        if isinstance(e, nodes.NSRef):
            ns = scope.lookup(e.name)
            if isinstance(ns, NS):
                return ns.d.get(e.attr, Sym(f"{e.name}.{e.attr}"))
            return Sym(f"{e.name}.{e.attr}")
        raise NotImplementedError(f"jinja expression {type(e).__name__} in {self.cur()}:{getattr(e, 'lineno', '?')}")

    def getattr(self, base, attr):
        if isinstance(base, Sym):
            parts = self.ts.unfold.get(attr)
            if parts is not None:
                out = []
                for p in parts:
                    if p[0] == "lit":
                        out.append(p[1])
                    elif p[0] == "attr":
                        out.append(Sym(base.canon + "." + p[1], ("attr", base.term, p[1])))
                    else:  # ('cond', attr, if_true, if_false)
                        a = base.canon + "." + p[1]
                        v = self.val.atom(a, ("unfold", a))
                        out.append(p[2] if v else p[3])
                out = [x for x in out if x != ""]
                return Cat(out)
            return Sym(base.canon + "." + attr, ("attr", base.term, attr))
        if isinstance(base, dict):
            if attr in base:
                return base[attr]
            if attr in ("items", "values", "keys", "get") and not isinstance(base, SymDict):
                return ListMeth(base, attr)
            return Sym(self.canon_val(base) + "." + attr)
        if isinstance(base, NS):
            return base.d.get(attr, Sym("ns." + attr))
        if isinstance(base, ModuleRef):
            v = base.scope.lookup(attr)
            if v is _MISSING:
                return Sym(f"MISSING_MACRO({base.tmpl}::{attr})")
            return v
        if isinstance(base, str):
            if attr in SAFE_STR_METHODS:
                return StrMeth(base, attr)
        if isinstance(base, list):
            if attr in ("append", "extend"):
                return ListMeth(base, attr)
        return Sym(self.canon_val(base) + "." + attr)

    def call(self, e: nodes.Call, scope, peek):
        f = self.eval(e.node, scope, peek)
        if isinstance(f, MacroRef):
            return self.call_macro(f, e, scope)
        args = [self.eval(a, scope, peek) for a in e.args]
        kwargs = {k.key: self.eval(k.value, scope, peek) for k in e.kwargs}
        if e.dyn_args is not None:
            da = self.eval(e.dyn_args, scope, peek)
            args = args + (list(da) if isinstance(da, (list, tuple)) else [Sym("*" + self.canon_val(da))])
        if e.dyn_kwargs is not None:
            dk = self.eval(e.dyn_kwargs, scope, peek)
            if isinstance(dk, dict) and not isinstance(dk, SymDict):
                kwargs.update(dk)
            else:
                kwargs["**"] = dk
        if isinstance(f, StrMeth):
            if all(is_const(a) for a in args) and all(is_const(v) for v in kwargs.values()):
                try:
                    return getattr(f.recv, f.name)(*args, **kwargs)
                except Exception:
                    pass
            if f.name == "join" and len(args) == 1 and isinstance(args[0], (list, tuple)):
                parts = []
                for i, a in enumerate(args[0]):
                    if i:
                        parts.append(f.recv)
                    parts.append(a)
                return Cat(parts)
            return Sym(f"{self.canon_val(f.recv)}.{f.name}({self.canon_args(args, kwargs)})")
        if isinstance(f, ListMeth):
            if isinstance(f.recv, list) and f.name == "append" and len(args) == 1:
                if not peek:
                    f.recv.append(args[0])
                return None
            if isinstance(f.recv, list) and f.name == "extend" and len(args) == 1 and isinstance(args[0], (list, tuple)):
                if not peek:
                    f.recv.extend(args[0])
                return None
            if isinstance(f.recv, dict):
                if f.name == "items":
                    return [(k, v) for k, v in f.recv.items()]
                if f.name == "values":
                    return list(f.recv.values())
                if f.name == "keys":
                    return list(f.recv.keys())
                if f.name == "get" and args and is_const(args[0]):
                    return f.recv.get(args[0], args[1] if len(args) > 1 else None)
            return Sym(f"{self.canon_val(f.recv)}.{f.name}({self.canon_args(args, kwargs)})")
        if isinstance(f, Sym):
            if f.canon == "namespace":
                return NS(dict(kwargs))
            return Sym(f"{f.canon}({self.canon_args(args, kwargs)})",
                       ("call", f.term, [self.term_val(a) for a in args], {k: self.term_val(v) for k, v in kwargs.items()}))
        return Sym(f"{self.canon_val(f)}({self.canon_args(args, kwargs)})")

    def canon_args(self, args, kwargs):
        parts = [self.canon_val(a) for a in args] + [f"{k}={self.canon_val(v)}" for k, v in kwargs.items()]
        return ", ".join(parts)

    def call_macro(self, m: MacroRef, e: nodes.Call, scope) -> Any:
        if self.macro_depth >= self.MAX_MACRO_DEPTH:
            self.opaque.append(f"macro recursion cut at {m.node.name}")
            return Sym(f"MACRO({m.node.name})")
        node = m.node
        sc = Scope(m.scope)
        params = [a.name for a in node.args]
        nd = len(params) - len(node.defaults)
        given: Dict[str, Any] = {}
        for i, a in enumerate(e.args):
            if i < len(params):
                given[params[i]] = self.eval(a, scope)
        for k in e.kwargs:
            given[k.key] = self.eval(k.value, scope)
        if e.dyn_kwargs is not None:
            dk = self.eval(e.dyn_kwargs, scope)
            if isinstance(dk, dict):
                for k, v in dk.items():
                    given[k] = v
            else:
                self.opaque.append(f"**kwargs of unknown shape in call of {node.name} at {self.cur()}:{e.lineno}")
                for p in params:
                    given.setdefault(p, Sym(f"{self.canon_val(dk)}.{p}"))
        if e.dyn_args is not None:
            da = self.eval(e.dyn_args, scope)
            if isinstance(da, (list, tuple)):
                for i, v in enumerate(da, start=len(e.args)):
                    if i < len(params):
                        given[params[i]] = v
        extra = [k for k in given if k not in params]
        if extra or len(e.args) > len(params):
            self.notes.append(f"macro {node.name} called with unexpected argument(s) {extra or 'positional'} at {self.cur()}:{e.lineno}")
        for i, p in enumerate(params):
            if p in given:
                v = given[p]
            elif i >= nd:
                v = self.eval(node.defaults[i - nd], m.scope)
            else:
                v = Sym(f"UNDEFINED_PARAM({node.name}.{p})")
                self.notes.append(f"macro {node.name} called without argument {p} at {self.cur()}:{e.lineno}")
            if isinstance(v, Segs):
                v = v.text() if v.is_const() else v
            sc.vars[p] = v
        self.macro_depth += 1
        self.tmpl_stack.append(m.tmpl)
        try:
            segs = self.body(node.body, sc)
        finally:
            self.tmpl_stack.pop()
            self.macro_depth -= 1
        return Segs(segs)

    # -- filters -------------------------------------------------------------
    def apply_filter_chain(self, f: nodes.Filter, value, scope):
        """FilterBlock: the filter node chain has node=None at the bottom."""
        chain = []
        cur = f
        while cur is not None:
            chain.append(cur)
            cur = cur.node
        for flt in reversed(chain):
            value = self.apply_filter(flt, value, scope)
        return value

    def apply_filter(self, f: nodes.Filter, value, scope):
        name = f.name
        args = [self.eval(a, scope) for a in f.args]
        kwargs = {k.key: self.eval(k.value, scope) for k in f.kwargs}
        if name == "indent":
            width = kwargs.get("width", args[0] if args else 4)
            first = kwargs.get("first", args[1] if len(args) > 1 else False)
            blank = kwargs.get("blank", False)
            if not isinstance(width, int):
                width = 4
            return self.text_filter(value, lambda segs: indent_segs(segs, width, bool(first), bool(blank)))
        if name == "trim":
            return self.text_filter(value, trim_segs)
        if name == "sort_lines":
            # order-only (and de-duplication) over whole lines: the set of
            # lines is what matters for the skeleton; keep the text.
            return value
        if is_const(value) and all(is_const(a) for a in args) and all(is_const(v) for v in kwargs.values()):
            r = const_filter(name, value, args, kwargs)
            if r is not _MISSING:
                return r
        if isinstance(value, (list, tuple)) and name == "join" and not kwargs.get("attribute"):
            sep = args[0] if args else kwargs.get("d", "")
            parts = []
            for i, a in enumerate(value):
                if i:
                    parts.append(sep)
                parts.append(a)
            return Cat(parts)
        if isinstance(value, (list, tuple)) and name in ("list", "sort", "unique") and not args and not kwargs:
            return list(value)
        if name == "join" and set(kwargs) <= {"attribute", "d"} and len(args) <= 1 and (not args or isinstance(args[0], str)) \
                and isinstance(kwargs.get("attribute", ""), str) and isinstance(kwargs.get("d", ""), str):
            # `x|join(sep)` is `sep.join(x)` and `x|join(sep, attribute='a')` is `sep.join(x|map(attribute='a'))`: one canonical spelling
            # (the method-call form), so rules see the same hole for all of them
            sep = args[0] if args else kwargs.get("d", "")
            inner = self.canon_args([value], {})
            if kwargs.get("attribute"):
                inner = f"{inner}|map(attribute={kwargs['attribute']!r})"
            return Sym(f"{self.canon_val(sep)}.join({inner})")
        if name in ("first", "last"):
            k = (self.canon_val(value), name)
            if k not in self.uses:
                self.uses[k] = (self.term_val(value), self.cur(), getattr(f, "lineno", 0), self.guards, self.filter_ctx)
        return Sym(f"{self.canon_val(value)}|{name}({self.canon_args(args, kwargs)})",
                   ("filter", self.term_val(value), name, [self.term_val(a) for a in args],
                    {k: self.term_val(v) for k, v in kwargs.items()}))

    def text_filter(self, value, fn):
        if isinstance(value, Segs):
            return Segs(fn(value.segs))
        if isinstance(value, str):
            segs = fn([Seg(value, "c", self.cur(), 0, self.guards)])
            return "".join(s.text for s in segs)
        if isinstance(value, Cat):
            segs = []
            for p in value.parts:
                segs.extend(self.emit(p, None))
            return Segs(fn(segs))
        # indent/trim of a symbolic value: layout only, keep the hole but
        # remember the filter in the canonical path (cheap and harmless)
        return value

    # -- canonical strings -----------------------------------------------------
    def canon_val(self, v) -> str:
        if isinstance(v, Sym):
            return v.canon
        if isinstance(v, Cat):
            return " ~ ".join(self.canon_val(p) for p in v.parts)
        if isinstance(v, Segs):
            return "SEGS(" + repr(v.text()[:40]) + ")"
        if isinstance(v, (list, tuple)):
            inner = ", ".join(self.canon_val(x) for x in v)
            return "[" + inner + "]" if isinstance(v, list) else "(" + inner + ")"
        if isinstance(v, SymDict):
            return v.canon
        if isinstance(v, dict):
            return "{" + ", ".join(f"{self.canon_val(k)}: {self.canon_val(x)}" for k, x in v.items()) + "}"
        if isinstance(v, NS):
            return "namespace"
        if isinstance(v, MacroRef):
            return f"MACRO({v.node.name})"
        if isinstance(v, ModuleRef):
            return f"MODULE({v.tmpl})"
        if isinstance(v, (StrMeth, ListMeth)):
            return f"{self.canon_val(v.recv)}.{v.name}"
        return repr(v)

    def canon_expr(self, e, scope) -> str:
        try:
            return self.canon_val(self.eval(e, scope, peek=True))
        except Exception:
            return f"EXPR({type(e).__name__}@{getattr(e, 'lineno', 0)})"

    # -- output ----------------------------------------------------------------
    def use(self, v, kind, line):
        if isinstance(v, Sym):
            k = (v.canon, kind)
            if k not in self.uses:
                self.uses[k] = (v.term, self.cur(), line, self.guards, self.filter_ctx)

    def placeholder(self, canon: str) -> str:
        ph = self.holes.get(canon)
        if ph is None:
            ph = f"H{len(self.holes)}_"
            self.holes[canon] = ph
        return ph

    def emit(self, v, node) -> List[Seg]:
        line = getattr(node, "lineno", 0) if node is not None else 0
        if isinstance(v, Segs):
            return list(v.segs)
        if isinstance(v, Cat):
            out = []
            for p in v.parts:
                out.extend(self.emit(p, node))
            return out
        if isinstance(v, Sym):
            self.use(v, "print", line)
            return [Seg(self.placeholder(v.canon), "h", self.cur(), line, self.guards, v.canon)]
        if v is None:
            return [Seg("None", "c", self.cur(), line, self.guards)]
        if isinstance(v, (MacroRef, ModuleRef, NS, StrMeth, ListMeth)):
            c = self.canon_val(v)
            return [Seg(self.placeholder(c), "h", self.cur(), line, self.guards, c)]
        if isinstance(v, (list, tuple, dict)) and not is_const(v):
            c = self.canon_val(v)
            return [Seg(self.placeholder(c), "h", self.cur(), line, self.guards, c)]
        return [Seg(str(v), "c", self.cur(), line, self.guards)]


def root_of(term):
    """root name of a structured term, or None."""
    while True:
        k = term[0]
        if k == "root":
            return term[1]
        if k in ("attr", "elem", "key", "idx", "item", "call", "filter"):
            term = term[1]
            continue
        return None


def is_const(v) -> bool:
    if isinstance(v, (Sym, Cat, Segs, NS, MacroRef, ModuleRef, StrMeth, ListMeth)):
        return False
    if isinstance(v, (list, tuple)):
        return all(is_const(x) for x in v)
    if isinstance(v, SymDict):
        return False
    if isinstance(v, dict):
        return all(is_const(k) and is_const(x) for k, x in v.items())
    return True


def const_filter(name, value, args, kwargs):
    try:
        if name == "lower":
            return str(value).lower()
        if name == "upper":
            return str(value).upper()
        if name == "title":
            return str(value).title()
        if name == "capitalize":
            return str(value).capitalize()
        if name == "length" or name == "count":
            return len(value)
        if name == "string":
            return str(value)
        if name == "int":
            return int(value)
        if name == "replace" and len(args) == 2:
            return str(value).replace(args[0], args[1])
        if name == "join" and not kwargs:
            return (args[0] if args else "").join(str(x) for x in value)
        if name == "list":
            return list(value)
        if name == "first":
            return value[0]
        if name == "last":
            return value[-1]
        if name == "format":
            return value % tuple(args)
        if name == "default":
            return value
        if name == "sort" and not args and not kwargs:
            return sorted(value)
    except Exception:
        return _MISSING
    return _MISSING


def indent_segs(segs: List[Seg], width: int, first: bool, blank: bool) -> List[Seg]:
    """jinja2 `indent`: indent every line except (unless first) the first;
    blank lines are not indented unless blank=True."""
    text = "".join(s.text for s in segs)
    # jinja: s += "\n" then splitlines... final newline preserved as in source
    out: List[Seg] = []
    pad = " " * width
    # decide per line-start whether to indent: need lookahead on the line's content
    lines = text.split("\n")
    # line i is blank if lines[i].strip() == ""
    line_no = 0
    at_start = True
    for s in segs:
        t = s.text
        if not t:
            out.append(s)
            continue
        pieces = t.split("\n")
        buf = ""
        for j, piece in enumerate(pieces):
            if j > 0:
                buf += "\n"
                line_no += 1
                at_start = True
            if piece:
                if at_start:
                    do = (line_no > 0 or first) and (blank or lines[line_no].strip() != "")
                    if do:
                        buf += pad
                    at_start = False
                buf += piece
        out.append(s.with_text(buf))
    return out


def trim_segs(segs: List[Seg]) -> List[Seg]:
    out = list(segs)
    i = 0
    while i < len(out):
        t = out[i].text.lstrip()
        if t:
            out[i] = out[i].with_text(t)
            break
        out[i] = out[i].with_text("")
        i += 1
    j = len(out) - 1
    while j >= 0:
        t = out[j].text.rstrip()
        if t:
            out[j] = out[j].with_text(t)
            break
        out[j] = out[j].with_text("")
        j -= 1
    return out


# ---------------------------------------------------------------------------
# covering search


def render(ts: TemplateSet, name: str, forced=None, default=True, loop_default=1,
           constraints=None, const_roots=None, salt=None, known_roots=None) -> Skeleton:
    val = Valuation(forced, default, loop_default, constraints, salt)
    return Renderer(ts, val, const_roots, known_roots).render(name)


def cover(ts: TemplateSet, name: str, constraints=None, const_roots=None, max_runs=4000,
          loop_arities=(0, 1), seeds=((True, 1), (False, 1)), want2_all=False, known_roots=None,
          base_forced=None):
    """Greedy concolic-style search for a set of consistent valuations that
    covers every (decision site, outcome) reachable in the template.

    Returns (variants, stats). Each variant is a Skeleton.
    """
    covered = set()
    scheduled = set()
    variants: List[Skeleton] = []
    infeasible = 0
    runs = 0
    base_forced = dict(base_forced or {})
    queue: List[Tuple[dict, bool, int, Any, Any]] = [(dict(base_forced), d, ld, None, None) for d, ld in seeds]
    errors = []
    attempts: Dict[Any, int] = {}
    relax: Dict[Any, int] = {}
    while queue and runs < max_runs:
        forced, default, ld, target, target_atom = queue.pop(0)
        runs += 1
        val = Valuation(forced, default, ld, constraints)
        r = Renderer(ts, val, const_roots, known_roots)
        try:
            sk = r.render(name)
        except Infeasible as ex:
            infeasible += 1
            culprit = ex.args[0] if ex.args else None
            # the target conflicts, through the constraint table, with a decision inherited from the run that scheduled it:
            # drop that inherited decision (its value is then implied) and try again
            if target is not None and culprit is not None and relax.get(target, 0) < 6:
                f2 = dict(forced)
                dropped = False
                for c in (culprit, "LOOP:" + culprit, culprit[5:] if culprit.startswith("LOOP:") else None):
                    if c and c in f2 and c != target_atom and c not in base_forced:
                        del f2[c]
                        dropped = True
                if not dropped and constraints is not None and target_atom is not None:
                    # the conflicting decision is one the target itself implies: drop every inherited decision that
                    # contradicts what the target implies through the constraint table
                    tv = forced.get(target_atom)
                    key = target_atom[5:] if target_atom.startswith("LOOP:") else target_atom
                    tb = tv if isinstance(tv, bool) else bool(tv)
                    for c, cv in constraints.forward(key, tb):
                        for cc in (c, "LOOP:" + c):
                            if cc in f2 and cc not in base_forced and cc != target_atom:
                                have = f2[cc] if isinstance(f2[cc], bool) else f2[cc] > 0
                                if have != cv:
                                    del f2[cc]
                                    dropped = True
                if dropped:
                    relax[target] = relax.get(target, 0) + 1
                    queue.insert(0, (f2, default, ld, target, target_atom))
                elif attempts.get(target, 0) < 4:
                    scheduled.discard(target)
            elif target is not None and attempts.get(target, 0) < 4:
                scheduled.discard(target)
            continue
        trace = val.trace
        new = {(site, v if not a.startswith("LOOP:") else min(v, 2)) for a, v, site in trace} - covered
        if new or not variants:
            variants.append(sk)
            covered |= new
        prefix: Dict[str, Any] = {}
        for a, v, site in trace:
            if a.startswith("LOOP:"):
                alts = [x for x in (loop_arities if not want2_all else (0, 1, 2)) if x != v]
            else:
                alts = [not v]
            if a in base_forced:
                alts = []
            for alt in alts:
                key = (site, alt)
                if key in covered or key in scheduled:
                    continue
                f2 = dict(base_forced)
                f2.update(prefix)
                f2[a] = alt
                scheduled.add(key)
                attempts[key] = attempts.get(key, 0) + 1
                queue.append((f2, default, ld, key, a))
            prefix.setdefault(a, v)
    stats = {"runs": runs, "variants": len(variants), "sites_outcomes": len(covered),
             "infeasible_targets": infeasible, "queue_left": len(queue)}
    return variants, stats
