"""C20 - comments reach docstrings intact; whitespace clean-up never changes code meaning
(regex-AST proof for fix_whitespace, guard-on-all-paths for rst, text taint into string literals, textwrap flags;
word preservation / width / idempotence over all strings are value-level laws and are not claimed).

  C20.1 fix_whitespace: every re.sub pattern consists only of whitespace atoms and capture groups; each replacement is whitespace
        plus back-references to all content groups in order and keeps a newline; the result ends with exactly one newline
  C20.2 rst(): the closing-quote guards test the value that is returned, after its last modification, on every path
  C20.3 free text (comments) printed into emitted Python lands only inside string literals or comments, always through rst / wrap;
        literals that receive free text are raw; the sanitiser covers what a triple-quoted literal needs (trailing quote, embedded
        triple quote, trailing backslash)
  C20.4 every textwrap call passes break_long_words=False and break_on_hyphens=False
  C20.5 Metadata.doc: leading, else trailing, else detached comments, else ""
  C20.6 wrap(): the first line is cut off with `text[len(first):]`, so every rewrite of `text` made before that slice must change the head
        of `text` by exactly what was appended to `first` (sibling agreement of the two "blank line after a colon" sites); a rewrite that
        consumes a variable number of characters, or inserts something else than `first` received, makes the slice drop or keep characters
"""
from __future__ import annotations

import ast
import io
import os
import re._parser as sre_parser
import tokenize

from .. import core
from ..cfg import CFG
from ..pymodel import pmatch, find_match
from ..skq import Lib, pm, calls
from ..tmodel import TemplateSet

SPACE_CHARS = {ord(" "), ord("\n"), ord("\t")}


def only_space(items) -> bool:
    for op, av in items:
        s = str(op)
        if s == "LITERAL":
            if av not in SPACE_CHARS:
                return False
        elif s == "IN":
            for o2, a2 in av:
                if str(o2) == "CATEGORY" and str(a2) == "CATEGORY_SPACE":
                    continue
                if str(o2) == "LITERAL" and a2 in SPACE_CHARS:
                    continue
                return False
        elif s in ("MAX_REPEAT", "MIN_REPEAT"):
            if not only_space(av[2]):
                return False
        elif s == "SUBPATTERN":
            if not only_space(av[3]):
                return False
        else:
            return False
    return True


def no_space(items) -> bool:
    """the group can only match non-whitespace text"""
    for op, av in items:
        s = str(op)
        if s == "LITERAL":
            if av in SPACE_CHARS:
                return False
        elif s == "IN":
            for o2, a2 in av:
                if str(o2) == "CATEGORY" and str(a2) in ("CATEGORY_WORD", "CATEGORY_DIGIT"):
                    continue
                if str(o2) == "LITERAL" and a2 not in SPACE_CHARS:
                    continue
                return False
        elif s == "BRANCH":
            for b in av[1]:
                if not no_space(b):
                    return False
        elif s in ("MAX_REPEAT", "MIN_REPEAT"):
            if av[0] < 1 or not no_space(av[2]):
                return False
        elif s == "SUBPATTERN":
            if not no_space(av[3]):
                return False
        else:
            return False
    return True


def check_fix_whitespace(report):
    r = report.rule("C20.1", "fix_whitespace only rewrites whitespace between tokens it captures and puts back", floor=3)
    m = pm()
    fi = m.func("gapic.generator.formatter.fix_whitespace")
    fn, p = fi.node, fi.module.path
    CODE = fn.args.args[0].arg
    # Read off the normal form (vlib/pynorm.py): the function must be  f"{<chain>.rstrip()}\n"  where <chain> is a nest of
    # re.sub(<literal>, <literal>, X) / re.compile(<literal>).sub(<literal>, X) ending in `code` - however the steps are written
    # (statements, precompiled module-level patterns, a table of passes applied in a loop ...).
    from ..pymodel import nreturn
    e = nreturn(m, fi)
    r.need(e is not None, "fix_whitespace", "the function does not reduce to one expression; the rule cannot judge it")
    inner = None
    if isinstance(e, ast.JoinedStr) and len(e.values) == 2 and isinstance(e.values[0], ast.FormattedValue) and isinstance(e.values[1], ast.Constant) \
            and e.values[1].value == "\n":
        v0 = e.values[0].value
        if isinstance(v0, ast.Call) and isinstance(v0.func, ast.Attribute) and v0.func.attr == "rstrip" and not v0.args:
            inner = v0.func.value
    r.instance("single trailing newline")
    r.check(inner is not None, p, fn.lineno, ast.unparse(e)[:100], "the result must be the code with trailing whitespace removed plus exactly one newline")
    steps = []
    x = inner
    wellformed = inner is not None
    while wellformed and not (isinstance(x, ast.Name) and x.id == CODE):
        if isinstance(x, ast.Call) and ast.unparse(x.func) == "re.sub" and len(x.args) == 3 and not x.keywords \
                and all(isinstance(a_, ast.Constant) and isinstance(a_.value, str) for a_ in x.args[:2]):
            steps.append((x.args[0].value, x.args[1].value))
            x = x.args[2]
        elif isinstance(x, ast.Call) and isinstance(x.func, ast.Attribute) and x.func.attr == "sub" and isinstance(x.func.value, ast.Call) \
                and ast.unparse(x.func.value.func) == "re.compile" and len(x.func.value.args) == 1 and not x.func.value.keywords \
                and isinstance(x.func.value.args[0], ast.Constant) and len(x.args) == 2 and not x.keywords and isinstance(x.args[0], ast.Constant):
            steps.append((x.func.value.args[0].value, x.args[0].value))
            x = x.args[1]
        else:
            wellformed = False
    steps.reverse()
    r.instance("chain of literal substitutions on code")
    r.check(wellformed, p, fn.lineno, ast.unparse(x)[:100] if x is not None else "",
            "each step must be a substitution of a literal pattern by a literal replacement applied to the running text (no count / flags / other rewrites)")
    r.need(len(steps) >= 3 or not wellformed, "substitution steps in fix_whitespace", str(len(steps)))

    class _C:       # positions are reported at the function
        lineno = fn.lineno
    c = _C()
    for pat, rep in steps:
        r.instance(f"re.sub({pat!r}, {rep!r}, code)")
        tree = sre_parser.parse(pat)
        content_groups = []      # group numbers whose text must be preserved
        prev_newline = False
        okp = True
        items = list(tree)
        for i, (op, av) in enumerate(items):
            s = str(op)
            if s == "SUBPATTERN":
                gid, _, _, inner = av
                if only_space(inner):
                    content_groups.append((gid, "indent"))      # indentation is content too: it must be put back
                elif no_space(inner):
                    content_groups.append((gid, "token"))
                else:
                    okp = False
                prevs = items[i - 1] if i else None
                pl = prevs is not None and ((str(prevs[0]) == "LITERAL" and prevs[1] == ord("\n")) or str(prevs[0]) == "SUBPATTERN")
                r.check(pl, p, c.lineno, f"group {gid} of {pat!r}", "a captured group must start right after a newline (or after the indentation group), so that "
                        "indentation is matched from the beginning of the line and never consumed")
            elif not only_space([(op, av)]):
                okp = False
        r.check(okp, p, c.lineno, f"pattern {pat!r}", "outside its capture groups a pattern may only match whitespace; otherwise code is deleted")
        nl = [i for i, (op, av) in enumerate(items) if str(op) == "LITERAL" and av == ord("\n")]
        if nl:
            tail = items[nl[-1] + 1:]
            r.check(all(str(op) == "SUBPATTERN" for op, _ in tail), p, c.lineno, f"pattern {pat!r}: items after the last line break",
                    "whitespace matched after the last line break of the pattern is the indentation of the following line; it may only be matched "
                    "inside a capture group that the replacement restores (a repeated group restores only its last repetition)")
        # replacement
        rt = sre_parser.parse_template(rep, __import__("re").compile(pat))
        groups_in_rep, lits = [], []
        try:
            # Python >= 3.12: (groups, literals) as lists
            for g in rt[0] if isinstance(rt, tuple) else rt.groups:
                groups_in_rep.append(g[1] if isinstance(g, tuple) else g)
        except Exception:
            pass
        import re as _re
        refs = [int(x) for x in _re.findall(r"\\(\d)", rep)]
        top_groups = [g for g, _ in content_groups]
        # nested indentation unit group (e.g. `((    )+)` -> groups 1 and 2): only the outer one must be restored
        outer = []
        for i2, (op, av) in enumerate(items):
            if str(op) == "SUBPATTERN":
                outer.append(av[0])
        r.check(refs == outer, p, c.lineno, f"replacement {rep!r} restores groups {refs}; pattern captures {outer}",
                "the replacement must put back every captured group, once, in order")
        rest = _re.sub(r"\\\d", "", rep).replace("\\n", "\n")
        r.check(set(rest) <= {"\n", " "} and ("\n" in rest) == ("\\n" in pat or "\n" in pat), p, c.lineno, f"replacement {rep!r}",
                "besides the groups a replacement may only contain whitespace, and must keep a line break where the pattern matched one")


def check_rst(report):
    r = report.rule("C20.2", "rst(): closing-quote guards apply to the returned text after its last modification, on every path", floor=3)
    m = pm()
    fi = m.func("gapic.utils.rst.rst")
    fn, p = fi.node, fi.module.path
    rets = [n for n in ast.walk(fn) if isinstance(n, ast.Return)]
    # `return helper(answer)` with a module-level helper of one parameter: the helper's statements are the tail of rst() (inlined, its
    # parameter renamed to the argument), so guards extracted into a function are judged like guards written in place
    if len(rets) == 1 and isinstance(rets[0].value, ast.Call) and isinstance(rets[0].value.func, ast.Name) and len(rets[0].value.args) == 1 \
            and isinstance(rets[0].value.args[0], ast.Name) and not rets[0].value.keywords and rets[0] is fn.body[-1]:
        hq = f"{fi.module.name}.{rets[0].value.func.id}"
        if hq in m.functions and len(m.functions[hq].node.args.args) == 1:
            import copy
            hnode = copy.deepcopy(m.functions[hq].node)
            par_, arg_ = hnode.args.args[0].arg, rets[0].value.args[0].id

            class _Ren(ast.NodeTransformer):
                def visit_Name(self, n):
                    return ast.copy_location(ast.Name(id=arg_, ctx=n.ctx), n) if n.id == par_ else n
            tail = [_Ren().visit(st) for st in hnode.body if not (isinstance(st, ast.Expr) and isinstance(st.value, ast.Constant))]
            fn = copy.deepcopy(fn)
            fn.body = fn.body[:-1] + tail
            ast.fix_missing_locations(fn)
            # positions: helper statements come after everything in rst()
            base = max((getattr(x, "lineno", 0) for x in ast.walk(ast.Module(body=fn.body[:-len(tail)], type_ignores=[]))), default=0) + 1
            for k, st in enumerate(tail):
                for x in ast.walk(st):
                    if hasattr(x, "lineno"):
                        x.lineno = base + k
            rets = [n for n in ast.walk(fn) if isinstance(n, ast.Return)]
    r.need(len(rets) == 1 and isinstance(rets[0].value, ast.Name), "single `return answer`")
    A = rets[0].value.id
    cfg = CFG(fn.body)
    writes = [n for n in ast.walk(fn) if isinstance(n, (ast.Assign, ast.AugAssign)) and
              any(isinstance(t, ast.Name) and t.id == A for t in (n.targets if isinstance(n, ast.Assign) else [n.target]))]
    guards = {}
    for top in fn.body:
        # an if / elif chain of guards: a later link is as good as a statement of its own when every earlier link's body only appends a
        # literal that ends neither in a quote nor in a backslash (the later condition is then impossible after an earlier link ran)
        n, earlier_safe = top, True
        while isinstance(n, ast.If):
            hit = None
            if pmatch("_A_.endswith('\"')", n.test, {"_A_": A}) is not None:
                hit = "trailing double quote"
            if pmatch("_A_.endswith('\\\\')", n.test, {"_A_": A}) is not None:
                hit = "trailing backslash"
            if hit and earlier_safe:
                guards[hit] = top
            body_ok = len(n.body) == 1 and isinstance(n.body[0], ast.AugAssign) and isinstance(n.body[0].op, ast.Add) and isinstance(n.body[0].value, ast.Constant) \
                and isinstance(n.body[0].value.value, str) and n.body[0].value.value and n.body[0].value.value[-1] not in "\"\\"
            earlier_safe = earlier_safe and body_ok
            n = n.orelse[0] if len(n.orelse) == 1 else None
    def _const(e):      # a literal, or a module-level name bound to one (hoisted constant)
        if isinstance(e, ast.Name) and e.id in fi.module.assigns:
            from ..pyeval import Evaluator as _E, UNKNOWN as _U
            v_ = _E({}).ev(fi.module.assigns[e.id])          # a constant expression such as '"' * 3
            return None if v_ is _U else v_
        return e.value if isinstance(e, ast.Constant) else None
    triple = [n for n in fn.body if isinstance(n, ast.Assign) and isinstance(n.targets[0], ast.Name) and n.targets[0].id == A
              and isinstance(n.value, ast.Call) and ast.unparse(n.value.func) == f"{A}.replace" and n.value.args
              and _const(n.value.args[0]) == '"""']
    if triple:
        guards["embedded triple quote"] = triple[0]
        # C20.2q (seed C20e): the replacement must neutralise RUNS of quotes, not only an isolated triple: str.replace works on
        # non-overlapping triples left to right, so the literal replacement is judged on the finite model of runs of 3..9 quotes
        # (both arguments are constants of the source; nothing of /repo is executed): no run may leave three consecutive
        # unescaped quotes, which would close the enclosing (raw or plain) triple-quoted literal.
        rep = _const(triple[0].value.args[1]) if len(triple[0].value.args) > 1 else None
        if isinstance(rep, str):
            def _closes(t):
                i = run = 0
                while i < len(t):
                    if t[i] == "\\":
                        i += 2
                        run = 0
                        continue
                    run = run + 1 if t[i] == '"' else 0
                    if run == 3:
                        return True
                    i += 1
                return False
            badk = [k for k in range(3, 10) if _closes(('"' * k).replace('"""', rep) + " ")]
            r.instance(f"triple-quote replacement {rep!r} on quote runs 3..9")
            r.check(not badk, p, triple[0].lineno, f"{A}.replace('\"\"\"', {rep!r}) leaves an unescaped triple quote for runs of {badk} quotes",
                    "a comment containing such a run of double quotes closes the docstring it is placed in: every quote of the run must "
                    "end up escaped (or separated), whatever the run length")
    for what in ("trailing double quote", "embedded triple quote", "trailing backslash"):
        g = guards.get(what)
        r.instance(what)
        r.check(g is not None, p, fn.lineno, f"rst(): no guard for a {what} in the returned text",
                f"text ending the literal early: rst() output is placed inside triple-quoted literals (often directly before the closing quotes); "
                f"a {what} must be neutralised on the value that is returned")
        if g is None:
            continue
        r.check(g in fn.body and cfg.dominates(g, rets[0]), p, g.lineno, f"{what} guard placement", "the guard must be on every path to the return")
        later = [w for w in writes if w.lineno > g.lineno and not any(w is x for x in ast.walk(g)) and not any(w is gg or any(w is y for y in ast.walk(gg)) for gg in guards.values())]
        r.check(not later, p, g.lineno, f"{what} guard followed by another modification of {A} (line {later[0].lineno if later else 0})",
                "the guard must come after the last modification of the returned text (wrapping strips whitespace and can expose a quote)")
    # the plain-text path wraps with the requested geometry
    from ..pymodel import fmatch
    node, _, _f = fmatch(m, "wrap(text, indent=indent, offset=indent + 3, width=width - indent)", fi, keep={"wrap"})
    r.instance("plain path")
    r.check(node is not None, p, fn.lineno, "wrap(text, indent=indent, offset=indent + 3, width=width - indent)", "the plain-text path re-flows with the requested width and indent")


def string_prefix_at(tokens, line, col):
    for tok in tokens:
        if tok.type == tokenize.STRING or tok.type == getattr(tokenize, "FSTRING_START", -1):
            (sl, sc), (el, ec) = tok.start, tok.end
            if (sl, sc) <= (line, col) < (el, ec):
                s = tok.string
                i = 0
                while i < len(s) and s[i] not in "\"'":
                    i += 1
                return s[:i].lower(), tok
        if tok.type == tokenize.COMMENT:
            (sl, sc), (el, ec) = tok.start, tok.end
            if (sl, sc) <= (line, col) < (el, ec):
                return "#", tok
    return None, None


def check_taint(report, lib: Lib, tier):
    r = report.rule("C20.3", "comment text enters emitted Python only inside raw string literals or comments, through rst / wrap", floor=20)
    ts = lib.ts
    seen = set()
    for tname in ts.public_names():
        if not tname.endswith(".py.j2") or tname.startswith(("tests/", "examples/")) and tier == "quick":
            continue
        if tname.startswith("examples/"):
            continue
        tr = ("grpc", "rest")
        vs = lib.variants(tname, transport=tr if "opts.transport" in ts.source(tname) or "%service" in tname else None)[:10]
        for sk in vs:
            toks = None
            pos = 0
            line, col = 1, 0
            for seg in sk.segs:
                if seg.kind == "h" and seg.canon and (".meta.doc" in seg.canon or ".documentation" in seg.canon):
                    key = (seg.tmpl, seg.line, seg.canon)
                    if key not in seen:
                        seen.add(key)
                        if toks is None:
                            try:
                                toks = list(tokenize.generate_tokens(io.StringIO(sk.text).readline))
                            except Exception:
                                toks = []
                        prefix, tok = string_prefix_at(toks, line, col)
                        path = os.path.join(lib.root, seg.tmpl)
                        r.instance({"hole": seg.canon[:100], "context": prefix})
                        r.check(prefix is not None, path, seg.line, f"{{{{ {seg.canon} }}}} in code position",
                                "comment text is printed outside any string literal or comment")
                        filt = "|rst(" in seg.canon or "|wrap(" in seg.canon
                        if prefix == "#":
                            r.check(filt or "\n" not in "", path, seg.line, f"{{{{ {seg.canon} }}}} in a comment", "ok")
                        elif prefix is not None:
                            r.check(filt, path, seg.line, f"{{{{ {seg.canon} }}}} inside a string literal without rst/wrap",
                                    "comment text inside a literal must pass the sanitiser (rst) - otherwise a trailing quote ends the literal")
                            r.check("r" in prefix, path, seg.line, f"{{{{ {seg.canon} }}}} inside a non-raw literal ({prefix or 'no prefix'}\"\"\")",
                                    "comment text with a backslash (`C:\\users`, `\\d+`, `\\x`) is interpreted as an escape in a non-raw literal: "
                                    "`\\u`/`\\x`/`\\N` are syntax errors, others change the text")
                # advance position
                t = seg.text
                nl = t.count("\n")
                if nl:
                    line += nl
                    col = len(t) - t.rfind("\n") - 1
                else:
                    col += len(t)


def check_wrap_and_doc(report):
    r4 = report.rule("C20.4", "textwrap calls never break words or hyphenated words", floor=2)
    m = pm()
    mod = m.module("gapic.utils.lines")
    tw = [c for c in calls(mod.tree) if ast.unparse(c.func) in ("textwrap.wrap", "textwrap.fill", "textwrap.TextWrapper")]
    r4.need(len(tw) >= 2, "textwrap calls in lines.py", str(len(tw)))
    for c in tw:
        k = {x.arg: ast.unparse(x.value) for x in c.keywords}
        r4.instance(ast.unparse(c)[:80])
        r4.check(k.get("break_long_words") == "False" and k.get("break_on_hyphens") == "False", mod.path, c.lineno, ast.unparse(c)[:120],
                 "without break_long_words=False / break_on_hyphens=False a long token (URL, identifier) is split and the words of the comment change")
    r5 = report.rule("C20.5", "Metadata.doc prefers leading, then trailing, then detached comments, else ''", floor=1)
    fi = m.func("gapic.schema.metadata.Metadata.doc")
    from ..pymodel import nreturn, tables_equivalent
    from ..pynorm import norm_expr
    e = nreturn(m, fi)
    D_ = "self.documentation"
    ref = norm_expr(ast.parse(f"{D_}.leading_comments.strip() if {D_}.leading_comments else ({D_}.trailing_comments.strip() if {D_}.trailing_comments "
                              f"else ('\\n\\n'.join({D_}.leading_detached_comments) if {D_}.leading_detached_comments else ''))", mode="eval").body)
    r5.instance("leading > trailing > detached > ''")
    r5.need(e is not None, "Metadata.doc", "the function does not reduce to a decision table; the rule cannot judge it")
    DET = f"{D_}.leading_detached_comments"
    JOIN = f"'\\n\\n'.join({DET})"

    def leaf_equal(a, b, assign):
        # joining an empty (falsy) sequence gives '': the explicit guard for it is optional
        return assign.get(DET) is False and {a, b} == {"''", JOIN}
    ok, cex = tables_equivalent(e, ref, leaf_equal=leaf_equal)
    r5.need(ok is not None, "Metadata.doc", str(cex))
    r5.check(ok, fi.module.path, fi.node.lineno, f"Metadata.doc differs from the reference selection: {cex}",
             "comment selection order leading > trailing > detached > '' (leading and trailing stripped; detached comments joined by blank lines)")


def check_wrap_slice(report):
    r = report.rule("C20.6", "wrap(): rewrites of `text` before `text[len(first):]` mirror what was appended to `first`", floor=1)
    m = pm()
    fi = m.func("gapic.utils.lines.wrap")
    fn, p = fi.node, fi.module.path
    TEXT = fn.args.args[0].arg
    sl = [n for n in ast.walk(fn) if isinstance(n, ast.Assign) and pmatch(f"{TEXT}[len(_F_):]", n.value) is not None and ast.unparse(n.targets[0]) == TEXT]
    r.need(len(sl) == 1, "wrap: text = text[len(first):]", f"{len(sl)} found")
    FIRST = pmatch(f"{TEXT}[len(_F_):]", sl[0].value)["_F_"]
    # appends to `first` under an endswith test:  if first.endswith(L): first += X
    appends = {}
    for n in ast.walk(fn):
        if isinstance(n, ast.If) and n.lineno < sl[0].lineno:
            b = pmatch(f"{FIRST}.endswith(_ANYL_)", n.test)
            if b is not None and len(n.body) == 1 and isinstance(n.body[0], ast.AugAssign) and ast.unparse(n.body[0].target) == FIRST \
                    and isinstance(n.body[0].op, ast.Add) and isinstance(n.body[0].value, ast.Constant):
                appends[ast.literal_eval(b["_ANYL_"])] = n.body[0].value.value
    subs = [n for n in fn.body if isinstance(n, ast.Assign) and ast.unparse(n.targets[0]) == TEXT and isinstance(n.value, ast.Call)
            and ast.unparse(n.value.func) == "re.sub" and n.lineno < sl[0].lineno]
    r.need(len(subs) >= 1 and appends, "wrap: re.sub on text before the slice, and `if first.endswith(..): first += ..`", f"{len(subs)} subs, {len(appends)} appends")
    for st in subs:
        c = st.value
        r.instance(ast.unparse(c)[:90])
        if not (len(c.args) == 3 and isinstance(c.args[0], ast.Constant) and isinstance(c.args[1], ast.Constant) and ast.unparse(c.args[2]) == TEXT):
            r.need(False, "wrap: re.sub(<literal>, <literal>, text)", ast.unparse(c)[:90])
        pat, rep = c.args[0].value, c.args[1].value
        tree = list(sre_parser.parse(pat))
        lo, hi = sre_parser.parse(pat).getwidth()
        if lo != hi:
            r.violation(p, c.lineno, f"wrap: {ast.unparse(c)[:90]}",
                        f"the pattern {pat!r} consumes between {lo} and {hi if hi < 1 << 20 else 'unboundedly many'} characters at the end of the first line, "
                        f"while `{FIRST}` is only ever extended by a fixed string ({appends}); `{TEXT}[len({FIRST}):]` then cuts at the wrong place "
                        f"and characters of the second line are dropped (or of the first line duplicated)")
            continue
        lits = []
        i = 0
        while i < len(tree) and str(tree[i][0]) == "LITERAL":
            lits.append(chr(tree[i][1]))
            i += 1
        L = "".join(lits)
        tail_ok = i == len(tree) - 1 and str(tree[i][0]) == "SUBPATTERN" and sre_parser.SubPattern(None, tree[i][1][3]).getwidth() == (1, 1) if i < len(tree) else False
        if not (L and tail_ok):
            r.need(False, "wrap: colon re.sub shape <literal><one captured char>", pat)
        X = appends.get(L)
        r.check(X is not None and _expand(rep) == L + X + "\x00", p, c.lineno,
                f"wrap: {ast.unparse(c)[:90]}",
                f"the substitution turns {L!r} into {_expand(rep)[:-1]!r} at the end of the first line, but `{FIRST}` is extended by {X!r} when it ends with "
                f"{L!r} (appends: {appends}); the two must agree or `{TEXT}[len({FIRST}):]` cuts at the wrong place")


def _expand(rep: str) -> str:
    """a replacement template with \\1 replaced by NUL and escapes decoded"""
    out = rep.replace("\\1", "\x00").replace("\\g<1>", "\x00")
    return out.replace("\\n", "\n")


def run(report: core.Report):
    report.explanation = ("Regex-AST analysis of the three substitutions of fix_whitespace, CFG placement of the sanitiser guards in rst(), a text-taint "
                          "walk of every comment-derived hole in the library skeletons (token context via tokenize on the skeleton), and keyword "
                          "checks on the textwrap calls.")
    report.assumptions.append("pandoc output (formatted path) is treated like any other text: it passes the same guards")
    check_fix_whitespace(report)
    check_rst(report)
    check_taint(report, Lib(), report.tier)
    check_wrap_and_doc(report)
    check_wrap_slice(report)
