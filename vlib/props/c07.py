"""C07 - paginated methods yield every item of every page exactly once, in order
(classification table, pager control flow and who-may-write, wiring; page histories are not mechanised).

  C07.1 Method.paged_result_field: presence+type checks for (input.page_token: str), (output.next_page_token: str);
        size field = first present of max_results, page_size with int / Int32Value / UInt32Value type;
        result = first repeated output field in declaration order; every failure returns None
  C07.2 pager `pages`: yields the first response, loops while next_page_token is truthy, stores the token into the
        request *before* the single fetch with the stored call options, stores and yields the new response; nothing
        else writes the request; __init__ copies the request and stores the call options
  C07.3 __iter__/__aiter__ drain self.pages in order from the paged field (.items() for maps); __getattr__ delegates
  C07.4 client wiring and naming of the pager type
  C07.5 a pager class is emitted for exactly the paged methods
"""
from __future__ import annotations

import ast

from .. import core
from ..cfg import CFG
from ..pymodel import pmatch, find_match
from ..skq import D, Dn, Lib, M, SVC, pm, calls, classes, own_body_walk, where, kw
from .clientmodel import client_methods

PM = "ELEM(service.methods.values())"     # selectattr is stripped from the element path
PRF = PM + ".paged_result_field"


# ---------------------------------------------------------------------------
# C07.1


def check_classification(report):
    """Decided on the decision table of the function's normal form (vlib/pynorm.py): paged_result_field has exactly one non-None
    outcome, reached under exactly the AIP-4233 conditions - however the checks are spelled (loop over a table of triples, unrolled,
    helper method, guard clauses, hoisted constants ...)."""
    from ..pymodel import nreturn, decision_leaves
    r = report.rule("C07.1", "paged_result_field applies the AIP-4233 table: string page_token / next_page_token, integer size field, "
                             "first repeated response field; None otherwise", floor=7)
    m = pm()
    fi = m.func("gapic.schema.wrappers.Method.paged_result_field")
    fn, p = fi.node, fi.module.path
    e = nreturn(m, fi)
    r.need(e is not None, "Method.paged_result_field", "the function does not reduce to a decision table (one conditional expression); the rule cannot judge it")
    leaves = decision_leaves(e)
    paged = [(c, v) for c, v in leaves if not (isinstance(v, ast.Constant) and v.value is None)]
    r.instance("single paged outcome")
    r.check(len(paged) == 1, p, fn.lineno, f"{len(paged)} non-None outcomes", "there must be exactly one way to be paged; every failed check gives None")
    if len(paged) != 1:
        return
    conds, value = paged[0]
    conds = set(conds)
    TOK = "self.input.fields.get('page_token', None)"
    NXT = "self.output.fields.get('next_page_token', None)"
    SIZE = "next((_c1 for _c1 in [self.input.fields.get('max_results', None), self.input.fields.get('page_size', None)] if _c1), None)"
    SIZE_OK = (f"OR(AND(isinstance({SIZE}.type, MessageType); {SIZE}.type.message_pb.name in {{'Int32Value', 'UInt32Value'}}); {SIZE}.type == int)")
    expected = [
        ((TOK, True), "self.input.page_token: present", "the request must have a `page_token` field"),
        ((f"{TOK}.type == str", True), "self.input.page_token: str", "the request's `page_token` (that same field) must be a string"),
        ((NXT, True), "self.output.next_page_token: present", "the response must have a `next_page_token` field"),
        ((f"{NXT}.type == str", True), "self.output.next_page_token: str", "the response's `next_page_token` (that same field) must be a string"),
        ((SIZE, True), "size field present", "the size field is the first present of max_results, page_size on the request; none means not paged"),
        ((SIZE_OK, True), "size field type", "allowed size types: int, or the wrapper messages Int32Value / UInt32Value"),
    ]
    alt = {c.replace(", None)", ")") for c, _ in conds}       # .get(name) and .get(name, None) are the same lookup
    for (src, pol), what, msg in expected:
        r.instance(what)
        r.check((src, pol) in conds or (src.replace(", None)", ")") in alt and pol), p, fn.lineno, what, msg)
    extra = conds - {x for x, _, _ in expected}
    r.check(not extra or all(c.replace(", None)", ")") in {x[0].replace(", None)", ")") for x, _, _ in expected} for c, _ in extra), p, fn.lineno,
            f"additional conditions {sorted(extra)[:2]}", "no other condition may decide whether a method is paged")
    r.instance("first repeated field")
    r.check(ast.unparse(value) == "next((_c1 for _c1 in self.output.fields.values() if _c1.repeated), None)", p, fn.lineno, ast.unparse(value)[:120],
            "the item field is the first repeated field of the response in declaration order (None when there is none)")


# ---------------------------------------------------------------------------
# C07.2 / C07.3 / C07.5


def check_pagers(report, lib: Lib, transport):
    r2 = report.rule("C07.2", "pages: first response, loop on next_page_token, token stored before the single fetch with stored options, "
                              "new response stored and yielded; request written nowhere else; request copied in __init__", floor=4)
    r3 = report.rule("C07.3", "__iter__/__aiter__ drain self.pages from the paged field; __getattr__ delegates to the latest response", floor=4)
    r5 = report.rule("C07.5", "one pager class pair per paged method (loop = selectattr('paged_result_field'))", floor=2)
    tname = SVC + "pagers.py.j2"
    root = lib.root
    seen = set()
    for sk in lib.variants(tname, transport=transport):
        for cls in classes(sk.tree()):
            nm = Dn(sk, cls.name)
            if nm not in ("{" + PM + ".name}Pager", "{" + PM + ".name}AsyncPager"):
                continue
            is_async = nm.endswith("AsyncPager")
            seen.add((is_async, bool(sk.valuation.assigned.get(PRF + ".map"))))
            seg = sk.seg_of_node(cls)
            r5.instance(nm)
            gs = [g for g in seg.guards if g[0] != "loop" and "'grpc' in" not in str(g) and "loop.first" not in str(g)]
            want = ("a", PRF)
            r5.check(gs == [want], *where(sk, cls, root), f"pager class guards {gs}",
                     "pager classes must be emitted for every method with a paged_result_field and only for those")
            fns = {f.name: f for f in cls.body if isinstance(f, (ast.FunctionDef, ast.AsyncFunctionDef))}
            # __init__
            init = fns.get("__init__")
            r2.instance({"class": nm})
            r2.check(init is not None, *where(sk, cls, root), f"{nm}.__init__", "pager needs __init__")
            if init is not None:
                stores = {D(sk, s.targets[0]): D(sk, s.value) for s in init.body if isinstance(s, ast.Assign)}
                exp = {"self._method": "method", "self._request": "{" + PM + ".input.ident}(request)", "self._response": "response",
                       "self._retry": "retry", "self._timeout": "timeout", "self._metadata": "metadata"}
                r2.check(stores == exp, *where(sk, init, root), f"__init__ stores {stores}",
                         "__init__ must copy the request (so the caller's object is never mutated) and keep method, response and the three call options")
            pages = fns.get("pages")
            r2.check(pages is not None and isinstance(pages, ast.AsyncFunctionDef) == is_async, *where(sk, cls, root), f"{nm}.pages",
                     "pages must be a (async) generator property")
            if pages is None:
                continue
            body = pages.body
            ok = len(body) == 2 and isinstance(body[0], ast.Expr) and isinstance(body[0].value, ast.Yield) \
                and D(sk, body[0].value.value) == "self._response" and isinstance(body[1], ast.While)
            r2.check(ok, *where(sk, pages, root), "pages body", "pages must yield the first response and then loop")
            if ok:
                w = body[1]
                r2.check(D(sk, w.test) == "self._response.next_page_token" and not w.orelse, *where(sk, w, root), D(sk, w.test),
                         "the loop must continue exactly while the latest response carries a non-empty next_page_token")
                cfg = CFG(pages.body)
                fetch = [c for c in calls(w) if D(sk, c.func) == "self._method"]
                r2.check(len(fetch) == 1, *where(sk, w, root), f"{len(fetch)} fetches per iteration", "exactly one fetch per page")
                tok = [s for s in w.body if isinstance(s, ast.Assign) and D(sk, s.targets[0]) == "self._request.page_token"]
                r2.check(len(tok) == 1 and D(sk, tok[0].value) == "self._response.next_page_token", *where(sk, w, root),
                         [D(sk, s) for s in tok].__repr__(), "the previous response's next_page_token must be stored into the request's page_token")
                if len(fetch) == 1 and len(tok) == 1:
                    fst = cfg.node_of(fetch[0])
                    r2.check(w.body.index(tok[0]) < w.body.index(fst), *where(sk, tok[0], root), "token store vs fetch order",
                             "the token must be stored before the next page is fetched")
                    r2.check(isinstance(fst, ast.Assign) and D(sk, fst.targets[0]) == "self._response", *where(sk, fst, root), D(sk, fst)[:80],
                             "the fetched page must replace self._response")
                    awaited = any(isinstance(n, ast.Await) and n.value is fetch[0] for n in ast.walk(fst))
                    r2.check(awaited == is_async, *where(sk, fst, root), f"await={awaited}", "the async pager awaits the fetch; the sync pager does not")
                    args = [D(sk, a) for a in fetch[0].args]
                    r2.check(args == ["self._request"] and kw(sk, fetch[0]) == {"retry": "self._retry", "timeout": "self._timeout", "metadata": "self._metadata"},
                             *where(sk, fst, root), D(sk, fetch[0]), "every further page must be fetched with the same request object and the stored call options")
                    last = w.body[-1]
                    r2.check(isinstance(last, ast.Expr) and isinstance(last.value, ast.Yield) and D(sk, last.value.value) == "self._response"
                             and w.body.index(last) > w.body.index(fst), *where(sk, w, root), "yield of the fetched page", "each fetched page must be yielded once, after the fetch")
                    r2.check(len(w.body) == 3, *where(sk, w, root), f"{len(w.body)} statements in the page loop", "unexpected extra statements in the page loop")
            # who-may-write the request
            for n in ast.walk(cls):
                if isinstance(n, (ast.Assign, ast.AugAssign)):
                    for t in (n.targets if isinstance(n, ast.Assign) else [n.target]):
                        d = D(sk, t)
                        if d.startswith("self._request.") and d != "self._request.page_token":
                            r2.violation(*where(sk, n, root), f"{nm}: {D(sk, n)[:80]}", "the pager changes a request field other than page_token between pages")
                        if d == "self._request" and (init is None or n not in init.body):
                            r2.violation(*where(sk, n, root), f"{nm}: {D(sk, n)[:80]}", "the pager replaces the request outside __init__")
            # iteration
            it = fns.get("__aiter__" if is_async else "__iter__")
            r3.instance({"class": nm})
            r3.check(it is not None, *where(sk, cls, root), f"{nm} iteration method", "pager must be iterable")
            if it is not None:
                is_map = sk.valuation.assigned.get(PRF + ".map")
                src = "page.{" + PRF + ".name}" + (".items()" if is_map else "")
                loops = [n for n in ast.walk(it) if isinstance(n, (ast.For, ast.AsyncFor))]
                outer = [l for l in loops if D(sk, l.iter) == "self.pages"]
                r3.check(len(outer) == 1 and isinstance(outer[0], ast.AsyncFor) == is_async, *where(sk, it, root), "loop over self.pages",
                         "iteration must go through self.pages (in order)")
                if is_async:
                    inner = [l for l in loops if D(sk, l.iter) == src]
                    ys = [n for n in ast.walk(it) if isinstance(n, ast.Yield)]
                    r3.check(len(inner) == 1 and len(ys) == 1 and isinstance(inner[0].target, ast.Name) and D(sk, ys[0].value) == inner[0].target.id,
                             *where(sk, it, root), f"inner loop over {[D(sk, l.iter) for l in loops]}", f"items must be yielded one by one from {src}")
                else:
                    yf = [n for n in ast.walk(it) if isinstance(n, ast.YieldFrom)]
                    r3.check(len(yf) == 1 and D(sk, yf[0].value) == src, *where(sk, it, root), [D(sk, y.value) for y in yf].__repr__(),
                             f"items must be yielded from {src} (the first repeated field of every page)")
            ga = fns.get("__getattr__")
            r3.check(ga is not None and len(ga.body) == 1 and D(sk, ga.body[0]) == "return getattr(self._response, name)", *where(sk, cls, root),
                     "__getattr__", "attribute access must delegate to the most recent page")
    r2.need(seen, "pager classes in some variant")
    return seen


def check_wiring(report, lib: Lib):
    r4 = report.rule("C07.4", "paged methods wrap the first response in <Method>Pager / <Method>AsyncPager with rpc, request, response and the "
                              "call options; _client_output names those classes", floor=4)
    paged_shape = {M + ".paged_result_field": True, M + ".lro": False, M + ".void": False, M + ".client_streaming": False,
                   M + ".server_streaming": False, M + ".extended_lro": False}
    for is_async in (False, True):
        import itertools
        for cm in itertools.chain(client_methods(lib, is_async), client_methods(lib, is_async, forced=paged_shape)):
            sk = cm.sk
            paged, lro, void = cm.v(".paged_result_field"), cm.v(".lro"), cm.v(".void")
            acc = M + (".client_output_async.ident" if is_async else ".client_output.ident")
            wraps = [s for s in cm.fn.body if isinstance(s, ast.Assign) and isinstance(s.value, ast.Call) and D(sk, s.value.func) == "{" + acc + "}"]
            if paged and not lro:
                r4.instance({"client": "async" if is_async else "sync", "method": cm.name})
                r4.check(len(wraps) == 1 and D(sk, wraps[0].targets[0]) == "response", *cm.where(), f"{len(wraps)} pager wraps in {cm.name}",
                         "a paged method must wrap its first response in its pager exactly once")
                if wraps:
                    k = kw(sk, wraps[0].value)
                    r4.check(k == {"method": "rpc", "request": "request", "response": "response", "retry": "retry", "timeout": "timeout", "metadata": "metadata"}
                             and not wraps[0].value.args, *cm.where(wraps[0]), str(k),
                             "the pager must receive the wrapped rpc, the coerced request, the first response and the caller's retry/timeout/metadata")
                    rc = cm.rpc_calls()
                    if len(rc) == 1:
                        r4.check(cm.fn.body.index(wraps[0]) > cm.fn.body.index(cm.stmt_of(rc[0])), *cm.where(wraps[0]), "wrap after call", "wrap follows the call")
            elif paged is False:
                r4.check(not wraps or lro, *cm.where(), f"pager wrap on non-paged method {cm.name}", "only paged methods return pagers")
    m = pm()
    co = m.func("gapic.schema.wrappers.Method._client_output")
    node, b = find_match("f'{self.name}AsyncPager' if _A_ else f'{self.name}Pager'", co.node)
    r4.instance("_client_output pager name")
    r4.check(node is not None and b["_A_"] == co.node.args.args[1].arg, co.module.path, co.node.lineno, "pager type name",
             "_client_output must name <Method>AsyncPager for the asyncio client and <Method>Pager otherwise (the classes pagers.py emits)")
    guard = [n for n in co.node.body if isinstance(n, ast.If) and ast.unparse(n.test) == "self.paged_result_field"]
    r4.check(len(guard) == 1, co.module.path, co.node.lineno, "if self.paged_result_field", "pager type chosen exactly for paged methods")


def run(report: core.Report):
    report.explanation = ("Classification table checks on Method.paged_result_field (pattern matching tolerant of loop or unrolled form), "
                          "control-flow and who-may-write rules on every pager class skeleton (sync/async, list/map), and client wiring.")
    report.assumptions.append("the argument from C07.2/C07.3 to 'every item exactly once, in order' over page histories is by reading, not mechanised")
    from .common_rules import loader_order
    loader_order(report, "C07.O", "the paged item field is the FIRST repeated field of the response")
    lib = Lib()
    check_classification(report)
    seen = check_pagers(report, lib, ("grpc", "rest"))
    r = report.rule("C07.2s", "sync and async pagers both present for list and map result fields", floor=1)
    r.instance(sorted(seen).__repr__())
    r.check({(False, False), (True, False)} <= seen, lib.path(SVC + "pagers.py.j2"), 0, f"pager kinds {sorted(seen)}", "sync and async pagers must both be emitted under gRPC")
    check_wiring(report, lib)
