"""C19 - resource path helpers build and parse names as mutual inverses
(construction agreement + regex-AST shape; the inverse law over all strings is a theorem about `re`, not claimed).

  C19.1 resource_path_args / resource_path_formatted / path_regex_str all derive from the one PATH_ARG_RE applied to the one
        resource_path; PATH_ARG_RE accepts {v} and {v=**} and captures only v
  C19.2 path_regex_str = "^" + PATH_ARG_RE.sub(<named lazy group>, path) + "$" (substitution keeps every literal of the pattern);
        the group body is a lazy repeat >= 1 of ANY, named by the captured variable; the pure wildcard maps to ^.*$
  C19.3 template helpers: <rt>_path parameters and .format keywords both from resource_path_args, format string =
        resource_path_formatted, parse = re.match(r"<path_regex_str>", path) -> groupdict or {}; async aliases one-to-one;
        common resource literals contain no `=`
  C19.4 Service.resource_messages unions message resources of inputs/outputs (LRO response when LRO) and referenced resources
"""
from __future__ import annotations

import ast
import re
import re._parser as sre_parser  # regex ASTs (CPython stdlib)

from .. import core
from ..pymodel import pmatch, find_match
from ..skq import D, Dn, Lib, M, SVC, pm, calls, classes, where

RM = "ELEM(service.resource_messages)"
CR = "ELEM(service.common_resources.values()).message_type"


def regex_shape(pattern: str):
    return sre_parser.parse(pattern)


def check_python(report):
    r1 = report.rule("C19.1", "one PATH_ARG_RE over one resource_path feeds args, format string and parsing regex", floor=4)
    r2 = report.rule("C19.2", "path_regex_str: ^ + escaped literals interleaved with named lazy ANY+ groups + $, wildcard special case", floor=4)
    m = pm()
    mt = m.cls("gapic.schema.wrappers.MessageType")
    p = mt.module.path
    pa = mt.members.get("PATH_ARG_RE")
    r1.need(pa is not None and isinstance(pa.node.value, ast.Call) and ast.unparse(pa.node.value.func) == "re.compile", "MessageType.PATH_ARG_RE = re.compile(...)")
    pat = pa.node.value.args[0].value
    r1.instance({"PATH_ARG_RE": pat})
    rx = re.compile(pat)  # compiling a literal taken from the source as data (stdlib), not repository code
    okre = (rx.groups == 1 and rx.fullmatch("{a_b-1}") and rx.fullmatch("{a_b-1}").group(1) == "a_b-1" and rx.fullmatch("{v=**}")
            and rx.fullmatch("{v=**}").group(1) == "v" and not rx.fullmatch("{v=*}") and not rx.search("plain/text") and not rx.fullmatch("{}"))
    r1.check(bool(okre), p, pa.node.lineno, pat, "PATH_ARG_RE must match {v} and {v=**}, capture only the variable name, and match nothing else")
    for prop, pattern, what in (
            ("resource_path_args", "self.PATH_ARG_RE.findall(self.resource_path or '')", "findall over the resource path (declaration order)"),
            ("resource_path_formatted", "self.PATH_ARG_RE.sub('{\\\\g<1>}', self.resource_path or '')", "substitution of each variable by {name}")):
        mem = m.member(mt, prop)
        r1.need(mem is not None, f"MessageType.{prop}")
        from ..pymodel import nmatch
        pfi_ = m.func(f"gapic.schema.wrappers.MessageType.{prop}")
        alts = [pattern]
        if prop == "resource_path_args":        # PATH_ARG_RE has exactly one group (checked above): findall == [m.group(1) for m in finditer]
            alts += ["[_M_.group(1) for _M_ in self.PATH_ARG_RE.finditer(self.resource_path or '')]",
                     "list((_M_.group(1) for _M_ in self.PATH_ARG_RE.finditer(self.resource_path or '')))",
                     "[_M_.groups()[0] for _M_ in self.PATH_ARG_RE.finditer(self.resource_path or '')]"]
        else:                                   # a callable replacement returning '{' + group 1 + '}' is the template r'{\g<1>}'
            alts += ["self.PATH_ARG_RE.sub(lambda _M_: '{' + _M_.group(1) + '}', self.resource_path or '')",
                     "self.PATH_ARG_RE.sub(lambda _M_: f'{{{_M_.group(1)}}}', self.resource_path or '')"]
        ok_ = any(nmatch(m, a_, pfi_, keep={"PATH_ARG_RE"}) is not None for a_ in alts)
        if not ok_ and prop == "resource_path_formatted":
            # replacement given as a named local function
            from ..pymodel import nfunc
            nf_ = nfunc(m, pfi_, keep={"PATH_ARG_RE"})
            defs_ = {d.name: d for d in ast.walk(pfi_.node) if isinstance(d, ast.FunctionDef) and d is not pfi_.node}
            for c_ in ast.walk(pfi_.node):
                if isinstance(c_, ast.Call) and ast.unparse(c_.func) == "self.PATH_ARG_RE.sub" and len(c_.args) == 2 and isinstance(c_.args[0], ast.Name) \
                        and c_.args[0].id in defs_:
                    d_ = defs_[c_.args[0].id]
                    body_ = [x for x in d_.body if not (isinstance(x, ast.Expr) and isinstance(x.value, ast.Constant))]
                    arg_ = d_.args.args[0].arg if d_.args.args else "m"
                    if len(body_) == 1 and isinstance(body_[0], ast.Return):
                        from ..pynorm import norm_expr
                        got_ = ast.unparse(norm_expr(body_[0].value))
                        ok_ = got_ in (ast.unparse(norm_expr(ast.parse(f"'{{' + {arg_}.group(1) + '}}'", mode="eval").body)),)
        r1.instance(prop)
        r1.check(ok_, p, mem.node.lineno, prop, f"{prop} must be {what}")
    rp = m.member(mt, "resource_path")
    rets = [n for n in ast.walk(rp.node) if isinstance(n, ast.Return)]
    r1.instance("resource_path")
    # "first element or None" has several spellings: next(iter(X), None), X[0] if X else None, X[0] if len(X) > 0 else None - read on the normal form
    from ..pymodel import nreturn as _nr
    e_rp = _nr(m, m.func("gapic.schema.wrappers.MessageType.resource_path"))
    PAT_ = "self.options.Extensions[resource_pb2.resource].pattern"
    forms_ = (f"next(iter({PAT_}), None)", f"{PAT_}[0] if {PAT_} else None", f"{PAT_}[0] if len({PAT_}) > 0 else None",
              f"{PAT_}[0] if len({PAT_}) >= 1 else None", f"None if not {PAT_} else {PAT_}[0]", f"None if len({PAT_}) == 0 else {PAT_}[0]",
              f"next((_c1 for _c1 in {PAT_}), None)")
    got_rp = ast.unparse(e_rp) if e_rp is not None else ""
    r1.need(e_rp is not None, "MessageType.resource_path", "does not reduce to one expression")
    r1.check(any(pmatch(f_, e_rp) is not None for f_ in forms_), p, rp.node.lineno, got_rp[:120], "resource_path is the first declared pattern (or None)")

    # ---- path_regex_str: decided on the decision table of the normal form (loop / comprehension / generator, early return for the
    # wildcard or a test afterwards, f-string / format / concatenation ... all give the same table)
    from ..pymodel import nreturn, decision_leaves
    from ..pynorm import norm_expr
    pr = m.member(mt, "path_regex_str")
    fn = pr.node
    pfi = m.func("gapic.schema.wrappers.MessageType.path_regex_str")
    e = nreturn(m, pfi, keep={"PATH_ARG_RE"})
    r2.instance("construction")
    if e is None:
        raise core.AnalysisError("C19.2", "MessageType.path_regex_str", "the function does not reduce to a decision table; the rule cannot judge it")
    leaves = decision_leaves(e)
    general = [(c, v) for c, v in leaves if not (isinstance(v, ast.Constant) and v.value == "^.*$")]
    wild = [(c, v) for c, v in leaves if isinstance(v, ast.Constant) and v.value == "^.*$"]
    r2.check(len(general) == 1, p, fn.lineno, f"{len(general)} general outcomes", "one construction for every pattern except the wildcard")
    if len(general) != 1:
        return
    gc, gv = general[0]
    SPLIT = "self.PATH_ARG_RE.split(self.resource_path or '')"
    pat_ok = norm_expr(ast.parse("f\"^{''.join((_ANYG_ if _I_ % 2 else re.escape(_P_) for (_I_, _P_) in enumerate(" + SPLIT + ")))}$\"", mode="eval").body)
    pat_ok2 = norm_expr(ast.parse("f\"^{''.join((re.escape(_P_) if _I_ % 2 == 0 else _ANYG_ for (_I_, _P_) in enumerate(" + SPLIT + ")))}$\"", mode="eval").body)
    from ..pymodel import _pm, _LOOSE
    bb = None
    _LOOSE[0] = True
    try:
        for pt in (pat_ok, pat_ok2):
            b_ = {}
            if _pm(pt, gv, b_):
                bb = b_
                break
    finally:
        _LOOSE[0] = False
    src = ast.unparse(gv)
    if bb is None:
        unescaped = "re.escape(" not in src and "PATH_ARG_RE" in src
        zipped = "zip(" in src
        r2.check(not unescaped, p, fn.lineno, "path_regex_str: literals not escaped",
                 "the literal text of the pattern is copied into the regex unescaped: a `.` delimiter (permitted by AIP-4231, e.g. `as/{a}.{b}`) "
                 "matches any character, so `as/x-y`, which does not match the pattern, parses to {'a': 'x', 'b': 'y'} instead of {}")
        r2.check(not zipped, p, fn.lineno, "path_regex_str: zip over the literal/name slices of a split",
                 "zip() over the literal/name slices of a regex split stops at the shorter list: the literal text after the last variable is "
                 "dropped, so patterns ending in a literal (`users/{user}/profile`) parse strings they must reject")
        if not r2.violations:
            raise core.AnalysisError("C19.2", "MessageType.path_regex_str",
                                     "construction is not '^' + ''.join(<escaped literal | named group> over PATH_ARG_RE.split(...)) + '$' and matches "
                                     "no known defective idiom: the rule cannot judge it")
        return
    r2.ok()
    r2.instance("literal and variable pieces come from one split of the resource path")
    r2.ok()
    r2.instance("literals are regex-escaped")
    r2.ok()
    grp = ast.parse(bb["_ANYG_"], mode="eval").body
    P = bb["_P_"]
    group_tmpl = None
    if isinstance(grp, ast.JoinedStr):
        parts_ = []
        for v in grp.values:
            if isinstance(v, ast.Constant):
                parts_.append(v.value)
            elif isinstance(v, ast.FormattedValue) and ast.unparse(v.value) == P:
                parts_.append("{name}")
            else:
                parts_ = None
                break
        group_tmpl = "".join(parts_) if parts_ else None
    r2.instance("replacement names the captured variable")
    r2.check(isinstance(group_tmpl, str) and group_tmpl.startswith("(?P<{name}>"), p, fn.lineno, ast.unparse(grp)[:120],
             "each variable must become a group named by the captured variable name")
    r2.need(group_tmpl is not None, "replacement template of the substitution")
    shape = regex_shape(group_tmpl.replace("{name}", "x"))
    r2.instance({"group": group_tmpl})
    ok = False
    if len(shape) == 1 and str(shape[0][0]) == "SUBPATTERN":
        gid, _, _, inner = shape[0][1]
        if len(inner) == 1 and str(inner[0][0]) == "MIN_REPEAT":
            lo, hi, item = inner[0][1]
            ok = lo == 1 and str(hi) == "MAXREPEAT" and len(item) == 1 and str(item[0][0]) == "ANY"
    r2.check(ok, p, fn.lineno, group_tmpl,
             "the group body must be a lazy repeat (>= 1) of any character: lazy so that literal separators other than '/' split "
             "segments correctly, any-character so that a trailing `**` variable may contain '/', at least one so empty segments do not match")
    r2.instance("wildcard")
    wconds = {c_ for c, _ in wild for c_ in c}
    r2.check(len(wild) == 1 and wconds <= {("self.resource_path == '*'", True), ("self.resource_path", True)} and ("self.resource_path == '*'", True) in wconds
             and ("self.resource_path == '*'", False) in gc, p, fn.lineno,
             "wildcard special case", "the pattern `*` (and only it) must parse with ^.*$")


def helper_functions(sk, cls):
    out = {}
    for f in cls.body:
        if isinstance(f, ast.FunctionDef):
            out[Dn(sk, f.name)] = f
    return out


def check_templates(report, lib: Lib):
    r3 = report.rule("C19.3", "emitted helpers: parameters and format keywords from resource_path_args, format string resource_path_formatted, "
                              "parse via re.match(r'<path_regex_str>') -> groupdict or {}; async aliases; common patterns have no `=`", floor=8)
    root = lib.root
    tname = SVC + "client.py.j2"
    checked = 0
    for sk in lib.variants(tname, transport=("grpc", "rest"), want2=True):
        for cls in classes(sk.tree()):
            fns = helper_functions(sk, cls)
            for base, fmt_acc, prefix in ((RM, ".resource_path_formatted", ""), (CR, ".resource_path", "common_")):
                bname = "{" + base + ".resource_type|snake_case()}"
                build = fns.get(f"{prefix}{bname}_path")
                parse = fns.get(f"parse_{prefix}{bname}_path")
                if build is None and parse is None:
                    continue
                checked += 1
                r3.instance({"helper": f"{prefix}{bname}_path"})
                r3.check(build is not None and parse is not None, *where(sk, cls, root), f"{prefix}{bname}_path / parse_ pair",
                         "each visible resource needs both a builder and a parser")
                if build is None or parse is None:
                    continue
                nargs = sk.valuation.assigned.get("LOOP:" + base + ".resource_path_args")
                arg = "{ELEM(" + base + ".resource_path_args)}"
                params = [Dn(sk, a.arg) for a in build.args.args]
                rets = [n for n in ast.walk(build) if isinstance(n, ast.Return)]
                r3.check(any(D(sk, d) == "staticmethod" for d in build.decorator_list), *where(sk, build, root), "decorator", "helpers are static methods")
                if nargs is not None:
                    r3.check(params == [arg] * nargs, *where(sk, build, root), f"parameters {params}",
                             "builder parameters must be exactly the pattern's variables, in order (resource_path_args)")
                ok = len(rets) == 1 and isinstance(rets[0].value, ast.Call) and isinstance(rets[0].value.func, ast.Attribute) and rets[0].value.func.attr == "format"
                r3.check(ok, *where(sk, build, root), D(sk, rets[0].value)[:120] if rets else "", "builder must return <pattern>.format(...)")
                if ok:
                    c = rets[0].value
                    r3.check(D(sk, c.func.value) == '"{' + base + fmt_acc + '}"', *where(sk, c, root), D(sk, c.func.value),
                             f"the format string must be {base}{fmt_acc}")
                    kws = [(Dn(sk, k.arg), D(sk, k.value)) for k in c.keywords]
                    if nargs is not None:
                        r3.check(kws == [(arg, arg)] * nargs and not c.args, *where(sk, c, root), f"format keywords {kws}",
                                 "every variable must be passed to format under its own name")
                body = [s for s in parse.body if not (isinstance(s, ast.Expr) and isinstance(s.value, ast.Constant))]
                okp = len(body) == 2 and D(sk, body[0]) == 'm = re.match(r"{' + base + '.path_regex_str}", path)' \
                    and D(sk, body[1]) == "return m.groupdict() if m else {}"
                r3.check(okp, *where(sk, parse, root), " ; ".join(D(sk, s) for s in body)[:200],
                         "parser must be `m = re.match(r\"<path_regex_str>\", path); return m.groupdict() if m else {}`")
                r3.check([Dn(sk, a.arg) for a in parse.args.args] == ["path"], *where(sk, parse, root), "parse parameters", "parser takes the path string")
    r3.need(checked >= 2, "resource path helpers in client.py.j2 variants")
    # async aliases
    aliases = 0
    for sk in lib.variants(SVC + "async_client.py.j2", transport=("grpc", "rest")):
        for cls in classes(sk.tree()):
            for st in cls.body:
                if isinstance(st, ast.Assign) and isinstance(st.value, ast.Call) and D(sk, st.value.func) == "staticmethod":
                    t = D(sk, st.targets[0])
                    if not t.endswith("_path"):
                        continue
                    aliases += 1
                    r3.instance({"alias": t})
                    r3.check(len(st.value.args) == 1 and D(sk, st.value.args[0]).endswith("Client." + t), *where(sk, st, root), D(sk, st),
                             "the asyncio client must alias the synchronous helper of the same name")
    r3.need(aliases >= 4, "path helper aliases in async_client.py.j2")
    # common resource literals
    m = pm()
    svc = m.cls("gapic.schema.wrappers.Service")
    cr = svc.members.get("common_resources")
    r3.need(cr is not None, "Service.common_resources")
    # the table may be hoisted into a module-level constant: follow module-level names the class attribute refers to
    mod_ = svc.module
    nodes_, seen_ = [cr.node], set()
    for _ in range(3):
        for n in list(nodes_):
            for x in ast.walk(n):
                if isinstance(x, ast.Name) and x.id in mod_.assigns and x.id not in seen_:
                    seen_.add(x.id)
                    nodes_.append(mod_.assigns[x.id])
    pats = sorted({c.value for n in nodes_ for c in ast.walk(n) if isinstance(c, ast.Constant) and isinstance(c.value, str) and "{" in c.value})
    r3.need(len(pats) >= 5, "common resource patterns", f"found {len(pats)}")
    for pt in pats:
        r3.instance({"common pattern": pt})
        r3.check("=" not in pt, svc.module.path, cr.node.lineno, f"common pattern {pt}",
                 "common_*_path formats resource_path directly, which is only right for patterns without `{v=**}`")


def check_visible(report):
    r4 = report.rule("C19.4", "Service.resource_messages: resources of every method's input and output (LRO response when LRO), direct and "
                              "referenced through resource_reference", floor=2)
    m = pm()
    fi = m.func("gapic.schema.wrappers.Service.resource_messages")
    src = ast.unparse(fi.node)
    r4.instance("sources")
    from ..pymodel import fmatch
    node, _, _f = fmatch(m, "chain(gen_resources(_M_.input), gen_resources(_M_.lro.response_type if _M_.lro else _M_.output), "
                            "gen_indirect_resources_used(_M_.input), gen_indirect_resources_used(_M_.lro.response_type if _M_.lro else _M_.output))", fi,
                         keep={"gen_resources", "gen_indirect_resources_used"})
    r4.check(node is not None, fi.module.path, fi.node.lineno, "chain(...) of the four sources",
             "helpers must exist for resources of inputs and outputs, declared on the message or referenced by a field")
    r4.instance("all methods")
    node, _, _f = fmatch(m, "frozenset((_X_ for _M_ in self.methods.values() for _X_ in _ANYC_))", fi, keep={"gen_resources", "gen_indirect_resources_used"})
    r4.check(node is not None, fi.module.path, fi.node.lineno, "over all methods", "every method of the service contributes its resources")
    r4.check("self.visible_resources.get(" in src and "recursive_resource_fields" in src and "recursive_field_types" in src, fi.module.path, fi.node.lineno,
             "nested and referenced resources", "nested field types and resource references must be followed")


def check_aggregation(report):
    """C19.5: a resource declared in ANY loaded file (dependency files included) can be referenced from the API, so API.build must
    aggregate `proto.resource_messages` over every pre-loaded proto without a filter and hand that aggregate to the second pass."""
    r5 = report.rule("C19.5", "API.build aggregates resource_messages of every loaded proto (unfiltered) and passes the aggregate to every "
                              "second-pass Proto.build as all_resources", floor=3)
    m = pm()
    from .common_rules import stmt_guards
    bd = m.func("gapic.schema.api.API.build")
    p = bd.module.path
    # 1. every file descriptor is pre-loaded: pre_protos[...] = Proto.build(...) directly under `for fd in file_descriptors`
    stores = [(g, st) for g, st in stmt_guards(bd.node) if isinstance(st, ast.Assign) and isinstance(st.targets[0], ast.Subscript)
              and isinstance(st.value, ast.Call) and ast.unparse(st.value.func) == "Proto.build"
              and not any(k.arg == "all_resources" for k in st.value.keywords)]        # (the second pass may be written as such a loop too)
    r5.need(len(stores) == 1, "API.build: <pre_protos>[name] = Proto.build(...)", f"{len(stores)} found")
    g, st = stores[0]
    pre = ast.unparse(st.targets[0].value)
    r5.instance("first pass loads every file")
    conds = [x for x in g if x[0] != "for"]
    loops = [x for x in g if x[0] == "for"]
    r5.check(not conds and len(loops) == 1 and loops[0][2] == "file_descriptors", p, st.lineno, f"first pass under {g}",
             "every file descriptor (dependencies included) must be pre-loaded: resources may be declared in any of them")
    # 2. the aggregate
    reads = []
    par = {}
    for n in ast.walk(bd.node):
        for c in ast.iter_child_nodes(n):
            par[c] = n
    for n in ast.walk(bd.node):
        if isinstance(n, ast.Attribute) and n.attr == "resource_messages":
            reads.append(n)
    # (the selective-generation branch builds its own aggregate over the finished `protos`; the one that feeds the second pass is the
    # first in source order, before any Proto.build(..., all_resources=...))
    second_line = min((n.lineno for n in ast.walk(bd.node) if isinstance(n, ast.Call) and ast.unparse(n.func) == "Proto.build"
                       and any(k.arg == "all_resources" for k in n.keywords)), default=None)
    r5.need(second_line is not None, "API.build: Proto.build(..., all_resources=...)")
    reads = [x for x in reads if x.lineno < second_line]
    r5.need(len(reads) == 1, "API.build: one read of <proto>.resource_messages before the second pass", f"{len(reads)} found")
    rd = reads[0]
    owner = ast.unparse(rd.value)
    comp = par.get(rd)
    r5.instance("aggregate over every proto")
    if isinstance(comp, (ast.GeneratorExp, ast.ListComp)) and comp.elt is rd:
        gens = comp.generators
        ok = len(gens) == 1 and not gens[0].ifs and ast.unparse(gens[0].target) == owner and ast.unparse(gens[0].iter) == f"{pre}.values()"
        r5.check(ok, p, rd.lineno, f"{ast.unparse(comp)[:110]}",
                 f"the aggregate must range over {pre}.values() without a filter: a resource declared in a dependency file (file_to_generate "
                 f"false) would otherwise be invisible and its <name>_path / parse_<name>_path helpers silently missing")
    else:
        hit = [(g2, s2) for g2, s2 in stmt_guards(bd.node) if any(x is rd for x in ast.walk(s2))]
        r5.need(len(hit) == 1, "API.build: statement reading resource_messages")
        g2, s2 = hit[0]
        loops2 = [x for x in g2 if x[0] == "for"]
        conds2 = [x for x in g2 if x[0] != "for"]
        r5.need(len(loops2) == 1 and loops2[0][1] == owner, "API.build: resource_messages read in a loop over the protos", str(g2))
        r5.check(not conds2 and loops2[0][2] == f"{pre}.values()", p, rd.lineno, f"{ast.unparse(s2)[:80]} under {g2}",
                 f"the aggregate must take resource_messages of every proto in {pre}.values(), unconditionally")
    # 3. handed to the second pass
    second = [n for n in ast.walk(bd.node) if isinstance(n, ast.Call) and ast.unparse(n.func) == "Proto.build" and any(k.arg == "all_resources" for k in n.keywords)]
    r5.instance("second pass receives the aggregate")
    r5.check(len(second) >= 1, p, bd.node.lineno, "Proto.build(..., all_resources=...)", "the second pass must receive the aggregated resources")
    for c in second:
        comp2 = par.get(c)
        while comp2 is not None and not isinstance(comp2, (ast.DictComp, ast.ListComp, ast.GeneratorExp, ast.For, ast.FunctionDef)):
            comp2 = par.get(comp2)
        if isinstance(comp2, (ast.DictComp, ast.ListComp, ast.GeneratorExp)):
            r5.check(not any(gg.ifs for gg in comp2.generators), p, c.lineno, "second pass comprehension", "every pre-loaded proto is rebuilt in the second pass")
        elif isinstance(comp2, ast.For):
            g3 = [g_ for g_, st_ in stmt_guards(bd.node) if any(x is c for x in ast.walk(st_))]
            r5.check(bool(g3) and not [x for x in g3[0] if x[0] != "for"], p, c.lineno, f"second pass loop under {g3[0] if g3 else None}",
                     "every pre-loaded proto is rebuilt in the second pass")


def run(report: core.Report):
    report.explanation = ("Construction-agreement rules: the three Python derivations share one regex and one pattern; the parsing regex keeps "
                          "every literal (substitution form) and its group body has the required regex-AST shape; the emitted helper pair "
                          "is filled from those accessors in both clients.")
    report.assumptions.append("the inverse law itself (parse(build(x)) == x for delimiter-free segments) is a property of Python's re on these shapes")
    check_python(report)
    lib = Lib()
    check_templates(report, lib)
    check_visible(report)
    check_aggregation(report)
