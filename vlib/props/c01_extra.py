"""C01.4 - C01.7 and C01.K.

C01.4  cross-module names: relative imports of emitted library modules resolve to an emitted
       module that binds the imported (possibly hole-built) name at top level
C01.5  transport gating: the generator's skip predicate (extracted from Generator._render_template by
       Engine P and partially evaluated on the on-disk template names) emits every module the emitted
       clients import, for each transport set x rest_async flag; the transport registries hold exactly
       the requested labels, gRPC first
C01.6  with_context re-binds every wrapper-typed dataclass field
C01.7  JSON artefacts come from MessageToJson
C01.K  atom constraints are justified by the Python definitions they cite
"""
from __future__ import annotations

import ast
import os
import re

from .. import core
from ..constraints import CONSTRAINTS
from ..pyeval import Evaluator, UNKNOWN
from ..pymodel import PyModel, string_properties, strip_docstring, parse_ann, find_match, pmatch
from ..pyscope import bound_in_block
from ..tmodel import TemplateSet, cover, SymDict

REST_ASYNC_ATOM = ("api.all_library_settings[api.naming.proto_package].python_settings.experimental_features."
                   "rest_async_io_enabled")
SERVICE_DIR = "%namespace/%name_%version/%sub/services/%service/"
TRANSPORT_SETS = (["grpc"], ["rest"], ["grpc", "rest"])


# ---------------------------------------------------------------------------
# C01.5a: generator skip predicate


def extract_skip_predicate(pm: PyModel, rule):
    fn = pm.func("gapic.generator.generator.Generator._render_template").node
    loop = None
    for n in ast.walk(fn):
        if isinstance(n, ast.For) and "services" in ast.unparse(n.iter):
            loop = n
    rule.need(loop is not None, "for service in api_schema.services.values() in _render_template")
    cond = None
    for st in loop.body:
        if isinstance(st, ast.If) and any(isinstance(b, ast.Continue) for b in st.body):
            cond = st.test
    helper_calls = [c for c in ast.walk(cond) if isinstance(c, ast.Call) and ast.unparse(c.func).startswith("self.")
                    and ast.unparse(c.func) != "self._is_desired_transport"] if cond is not None else []
    if cond is None or helper_calls:
        # the predicate was moved into helpers / rewritten as a guard around the rest of the body: read it off the normal form, where
        # single-expression helpers are inlined and `if c: continue; rest` is `if not c: rest`
        from ..pymodel import nfunc
        nf = nfunc(pm, pm.func("gapic.generator.generator.Generator._render_template"), keep={"_is_desired_transport", "_get_file"})
        for n in ast.walk(nf):
            if isinstance(n, ast.For) and "services" in ast.unparse(n.iter):
                for st in n.body:
                    if isinstance(st, ast.If) and any(isinstance(c, ast.Call) and ast.unparse(c.func) == "self._get_file" for c in ast.walk(st)) and not st.orelse:
                        cond = ast.UnaryOp(op=ast.Not(), operand=st.test)
                    elif isinstance(st, ast.If) and any(isinstance(b, ast.Continue) for b in st.body):
                        cond = st.test
    rule.need(cond is not None, "`if <skip predicate>: continue` in the %service loop")
    return cond


def inline_function_result(pm: PyModel, qual: str, env: dict):
    """Evaluate a straight-line helper (assignments then `return expr`)."""
    fn = pm.func(qual).node
    ev = Evaluator(env)
    for st in strip_docstring(fn.body):
        if isinstance(st, ast.Assign) and len(st.targets) == 1 and isinstance(st.targets[0], ast.Name):
            env[st.targets[0].id] = ev.ev(st.value)
        elif isinstance(st, ast.Return):
            return ev.ev(st.value)
        else:
            return UNKNOWN
    return UNKNOWN


def emitted_service_templates(pm: PyModel, ts: TemplateSet, cond, transport, rest_async: bool, rule):
    out = set()
    for name in ts.public_names():
        if "%service" not in name:
            continue

        def desired(template_name, opts):
            return inline_function_result(pm, "gapic.generator.generator.Generator._is_desired_transport",
                                          {"template_name": template_name, "opts": opts, "opts.transport": list(transport)})

        def hook(dotted, node):
            if dotted.endswith("rest_async_io_enabled"):
                return rest_async
            return UNKNOWN
        env = {"template_name": name, "skip_subpackages": False, "opts": {"transport": list(transport)},
               "opts.transport": list(transport)}
        ev = Evaluator(env, funcs={"self._is_desired_transport": desired}, attr_hook=hook)
        v = ev.ev(cond)
        rule.need(v is not UNKNOWN, f"skip predicate evaluates for {name}", "partial evaluation left the predicate undetermined")
        if not v:
            out.add(name)
    return out


# ---------------------------------------------------------------------------
# skeleton helpers


def rel_imports(sk, tree):
    """(level, module, [names], node, in_try_importerror) for every relative ImportFrom."""
    out = []

    def visit(body, guarded):
        for st in body:
            if isinstance(st, ast.ImportFrom) and st.level:
                out.append((st.level, st.module or "", [a.name for a in st.names], st, guarded))
            elif isinstance(st, ast.Try):
                catches = any(h.type is None or "ImportError" in ast.unparse(h.type) or "Exception" in ast.unparse(h.type)
                              for h in st.handlers)
                visit(st.body, guarded or catches)
                for h in st.handlers:
                    visit(h.body, guarded)
                visit(st.orelse, guarded)
                visit(st.finalbody, guarded)
            elif isinstance(st, (ast.If, ast.With, ast.For, ast.While)):
                visit(st.body, guarded)
                visit(getattr(st, "orelse", []), guarded)
    visit(tree.body, False)
    return out


def norm_roots(s: str) -> str:
    """the per-file roots `service` / `proto` are elements of api.services / api.protos in aggregating templates"""
    s = re.sub(r"ELEM\(api\.services(\.values\(\))?\)", "service", s)
    s = re.sub(r"ELEM\(api\.(protos|all_protos)(\.values\(\))?\)", "proto", s)
    return s


def top_level_names(sk, tree):
    names = set()
    bound_in_block(tree.body, names)
    return {norm_roots(sk.describe(n)) for n in names}


def resolve_template(ts: TemplateSet, importer: str, level: int, module: str, sk):
    """Map a relative import inside the file emitted by `importer` to the template of the target module."""
    parts = importer.split("/")[:-1]
    if level > 1:
        parts = parts[: -(level - 1)]
    for seg in [s for s in module.split(".") if s]:
        d = sk.describe(seg)
        if d.startswith("{") and d.endswith("}"):
            canon = d[1:-1]
            if re.search(r"services\b.*\.name\|snake_case\(\)$", canon) or canon.endswith(".module_name") and "service" in canon.lower():
                seg = "%service"
            elif canon.endswith(".module_name"):
                seg = "%proto"
            else:
                return None, f"unrecognised hole segment {d}"
        parts.append(seg)
    base = "/".join(parts)
    for cand in (base + ".py.j2", base + "/__init__.py.j2"):
        if ts.exists(cand):
            return cand, None
    return None, f"no template emits module {base}"


# ---------------------------------------------------------------------------


def check_module_graph(report, pm: PyModel):
    r4 = report.rule("C01.4", "relative imports between emitted library modules name a module that is emitted and "
                              "binds the imported name at top level", floor=20)
    r5 = report.rule("C01.5", "per transport set x rest_async flag: modules imported by the emitted clients are emitted; "
                              "registry keys = requested transports, gRPC first; async client iff gRPC", floor=6)
    ts = TemplateSet(core.TEMPLATES, unfold={k: v[0] for k, v in string_properties(pm).items()})
    cond = extract_skip_predicate(pm, r5)
    lib_templates = [n for n in ts.public_names() if n.startswith("%namespace/%name_%version/") and n.endswith(".py.j2")]
    r4.need(len(lib_templates) >= 10, "library .py templates")
    gen_py = os.path.join(core.GAPIC, "generator/generator.py")
    for transport in TRANSPORT_SETS:
        for rest_async in (False, True):
            cfg = f"transport={'+'.join(transport)},rest_async={rest_async}"
            emitted = emitted_service_templates(pm, ts, cond, transport, rest_async, r5)
            r5.instance({"config": cfg, "emitted": sorted(os.path.basename(e) for e in emitted)})
            # property statement: one sync client always; asyncio client iff grpc (or rest_async experiment)
            has_client = SERVICE_DIR + "client.py.j2" in emitted
            has_async = SERVICE_DIR + "async_client.py.j2" in emitted
            r5.check(has_client, gen_py, 0, f"skip predicate under {cfg}", "client.py is not emitted")
            r5.check(has_async == ("grpc" in transport or rest_async), gen_py, 0, f"skip predicate under {cfg} (async_client)",
                     f"async_client.py emitted={has_async}, expected {'grpc' in transport or rest_async}")
            for t, want in (("transports/grpc.py.j2", "grpc" in transport), ("transports/grpc_asyncio.py.j2", "grpc" in transport),
                            ("transports/rest.py.j2", "rest" in transport), ("transports/rest_base.py.j2", "rest" in transport),
                            ("transports/rest_asyncio.py.j2", "rest" in transport and rest_async),
                            ("transports/base.py.j2", True), ("transports/__init__.py.j2", True)):
                got = SERVICE_DIR + t in emitted
                if t == "transports/rest_asyncio.py.j2":
                    # emitted whenever the flag is on and 'rest' matches the name; never without the flag
                    r5.check((not got) or rest_async, gen_py, 0, f"skip predicate {t} under {cfg}", "rest_asyncio emitted without the flag")
                    if want:
                        r5.check(got, gen_py, 0, f"skip predicate {t} under {cfg}", "rest_asyncio not emitted although requested")
                    continue
                r5.check(got == want, gen_py, 0, f"skip predicate {t} under {cfg}", f"emitted={got}, expected={want}")

            const_roots = {"opts": SymDict("opts", transport=list(transport))}
            forced = {REST_ASYNC_ATOM: rest_async}
            tops = {}

            def variants_of(name):
                if name not in tops:
                    vs, _ = cover(ts, name, constraints=CONSTRAINTS, const_roots=const_roots, base_forced=forced,
                                  known_roots={"api", "opts", "service", "proto", "snippet_index"})
                    good = [v for v in vs if v.tree() is not None]
                    tops[name] = (good, [top_level_names(v, v.tree()) for v in good])
                return tops[name]

            for name in lib_templates:
                if "%service" in name and name not in emitted:
                    continue
                vs, _ = variants_of(name)
                seen = set()
                for sk in vs:
                    for level, module, names, node, guarded in rel_imports(sk, sk.tree()):
                        key = (level, sk.describe(module), tuple(sk.describe(n) for n in names), guarded)
                        if key in seen:
                            continue
                        seen.add(key)
                        target, why = resolve_template(ts, name, level, module, sk)
                        w = sk.where(node)
                        where = os.path.join(core.TEMPLATES, w[0])
                        construct = f"from {'.' * level}{sk.describe(module)} import {', '.join(sk.describe(n) for n in names)}"
                        if target is None:
                            # `from . import x` style: names are sub-modules
                            if not module and level == 1:
                                continue
                            r4.instance()
                            r4.check(guarded, where, w[1], construct, f"{why} ({cfg})", config=cfg)
                            continue
                        r4.instance({"import": construct, "target": target, "config": cfg})
                        if "%service" in target and target not in emitted:
                            r5.check(guarded, where, w[1], construct,
                                     f"imports {target}, which Generator._render_template skips under {cfg}", config=cfg)
                            continue
                        tvs, ttops = variants_of(target)
                        r4.need(tvs, f"skeletons of {target}")
                        for n in names:
                            dn = norm_roots(sk.describe(n))
                            if dn == "*":
                                continue
                            missing = [i for i, tn in enumerate(ttops) if dn not in tn]
                            # the importing variant fixes some atoms; require the name in every target variant
                            # that agrees with the importer on the atoms both decided
                            bad = None
                            a = {norm_roots(k): v for k, v in sk.valuation.assigned.items()}
                            for i in missing:
                                b = {norm_roots(k): v for k, v in tvs[i].valuation.assigned.items()}
                                if all(bool(b.get(k, v)) == bool(v) for k, v in a.items() if k in b):
                                    bad = tvs[i]
                                    break
                            r4.check(bad is None or guarded, where, w[1], construct + f" [{dn}]",
                                     f"{target} does not bind '{dn}' at top level in a variant consistent with the importer ({cfg})",
                                     config=cfg)

            # registries
            for tname, label in ((SERVICE_DIR + "client.py.j2", "client metaclass"),
                                 (SERVICE_DIR + "transports/__init__.py.j2", "transports/__init__")):
                vs, _ = variants_of(tname)
                r5.need(vs, f"skeletons of {tname}")
                expected = (["grpc", "grpc_asyncio"] if "grpc" in transport else []) + (["rest"] if "rest" in transport else []) \
                    + (["rest_asyncio"] if ("rest" in transport and rest_async) else [])
                for sk in vs[:6]:
                    keys = []
                    first_node = None
                    for n in ast.walk(sk.tree()):
                        pass
                    for n in _ordered_registry_stores(sk.tree()):
                        keys.append(n[0])
                        first_node = first_node or n[1]
                    r5.need(first_node is not None or not expected, f"_transport_registry assignments in {label}")
                    w = sk.where(first_node) if first_node is not None else (tname, 0)
                    r5.check(keys == expected, os.path.join(core.TEMPLATES, w[0]), w[1],
                             f"_transport_registry keys in {label}",
                             f"under {cfg} the registry assigns {keys}; expected {expected} (gRPC first so that it is the default)",
                             config=cfg)


def _ordered_registry_stores(tree):
    out = []
    for n in ast.walk(tree):
        if isinstance(n, ast.Assign) and len(n.targets) == 1 and isinstance(n.targets[0], ast.Subscript):
            t = n.targets[0]
            if isinstance(t.value, ast.Name) and t.value.id == "_transport_registry" and isinstance(t.slice, ast.Constant):
                out.append((t.slice.value, n))
    out.sort(key=lambda x: (x[1].lineno, x[1].col_offset))
    return out


# ---------------------------------------------------------------------------
# C01.6 with_context exhaustiveness

WRAPPER_MODULES = ("gapic.schema.wrappers", "gapic.schema.api", "gapic.schema.metadata")


def contains_wrapper(t, with_ctx_classes) -> bool:
    if t[0] == "cls":
        return t[1].qual in with_ctx_classes
    if t[0] in ("opt",):
        return contains_wrapper(t[1], with_ctx_classes)
    if t[0] == "seq":
        return contains_wrapper(t[1], with_ctx_classes)
    if t[0] == "map":
        return contains_wrapper(t[2], with_ctx_classes)
    if t[0] in ("union", "tuple"):
        return any(contains_wrapper(x, with_ctx_classes) for x in t[1])
    return False


# fields that are deliberately not re-bound, with reasons
WITH_CONTEXT_EXCEPTIONS = {
    ("Service", "visible_resources"):
        "read-only view used only for resource type names and path patterns (Service.resource_messages); no "
        "module-qualified identifier is rendered from the messages reached through it",
}


def check_with_context(report, pm: PyModel):
    r6 = report.rule("C01.6", "with_context of every schema wrapper re-binds every wrapper-typed dataclass field "
                              "(or the wrapper has none)", floor=8)
    with_ctx = {ci.qual for ci in pm.classes.values() if "with_context" in ci.members and ci.module.name in WRAPPER_MODULES}
    r6.need(len(with_ctx) >= 8, "classes defining with_context")
    for q in sorted(with_ctx):
        ci = pm.classes[q]
        fn = ci.members["with_context"].node
        rebound = set()
        whole_self = False
        for n in ast.walk(fn):
            if isinstance(n, ast.Call) and ast.unparse(n.func) in ("dataclasses.replace", "replace"):
                for k in n.keywords:
                    if k.arg:
                        rebound.add(k.arg)
            if isinstance(n, ast.Call) and isinstance(n.func, ast.Name) and n.func.id in ("type",):
                pass
        # also constructor-style rebuilds: ClassName(field=..., ...)
        for n in ast.walk(fn):
            if isinstance(n, ast.Call) and (ast.unparse(n.func) in (ci.name, "type(self)", "self.__class__")):
                for k in n.keywords:
                    if k.arg:
                        rebound.add(k.arg)
        wrapper_fields = []
        for name, mem in ci.members.items():
            if mem.kind != "field":
                continue
            t = parse_ann(pm, ci.module, mem.ann)
            if contains_wrapper(t, with_ctx):
                wrapper_fields.append(name)
        r6.instance({"class": ci.name, "wrapper_fields": wrapper_fields, "rebound": sorted(rebound)})
        # C01.6c (seed C08e): a return leaf that hands back `self` un-rebound is sound only when there is nothing to alias at all
        # (`not collisions`); a short-cut keyed on ONE field's module leaves the other wrapper fields in the old context.
        if wrapper_fields:
            from .common_rules import stmt_guards
            from ..pymodel import _nnf
            for guards, st in stmt_guards(fn):
                if not isinstance(st, ast.Return) or st.value is None:
                    continue
                leaves = []

                def split(e, conds):
                    if isinstance(e, ast.IfExp):
                        split(e.body, conds + _nnf(e.test, True, []))
                        split(e.orelse, conds + _nnf(e.test, False, []))
                    else:
                        leaves.append((e, conds))
                split(st.value, [g for g in guards if g[0] != "for"])
                for e, conds in leaves:
                    if not (isinstance(e, ast.Name) and e.id == "self"):
                        continue
                    r6.instance(f"{ci.name}.with_context: `return self` leaf under {conds}")
                    import re as _re
                    # `collisions == self.<x>.collisions` (already in that context) is not a fact about a field's shape
                    stripped = [_re.sub(r"self(\.\w+)*\.collisions\b", "CTX", c_) for c_, _p in conds]
                    keyed_on_field = [f for f in wrapper_fields for c_ in stripped if _re.search(r"\bself\." + f + r"\b", c_)]
                    mentions_coll = any("collisions" in c_ for c_, _p in conds)
                    r6.check(mentions_coll and not keyed_on_field, ci.module.path, st.lineno,
                             f"{ci.name}.with_context returns self un-rebound when {[('' if p_ else 'not ') + c_ for c_, p_ in conds]}",
                             f"{ci.name}.with_context may skip re-binding only on a test of `collisions` itself (empty, or equal to the current context); under a test of one field's shape the wrapper "
                             f"fields {wrapper_fields} keep the old context and a colliding module renders unaliased")
        for f in wrapper_fields:
            if (ci.name, f) in WITH_CONTEXT_EXCEPTIONS:
                r6.note(f"exception {ci.name}.{f}: {WITH_CONTEXT_EXCEPTIONS[(ci.name, f)]}")
                continue
            r6.check(f in rebound, ci.module.path, fn.lineno, f"{ci.name}.with_context field {f}",
                     f"{ci.name}.with_context does not re-bind wrapper-typed field '{f}': references reached through it keep "
                     f"the old collision context and may render an unaliased (unbound) module name")


# ---------------------------------------------------------------------------
# C01.7 JSON artefacts


def check_json(report, pm: PyModel):
    r7 = report.rule("C01.7", "emitted JSON artefacts are produced by MessageToJson", floor=2)
    ts = TemplateSet(core.TEMPLATES)
    name = "%namespace/%name_%version/gapic_metadata.json.j2"
    r7.need(ts.exists(name), name)
    from ..tmodel import render
    sk = render(ts, name)
    txt = sk.describe(sk.text).strip()
    r7.instance(txt)
    r7.check(re.fullmatch(r"\{api\.gapic_metadata_json\((options=)?opts\)\}", txt) is not None, ts.path(name), 1, txt,
             "gapic_metadata.json.j2 must print exactly api.gapic_metadata_json(opts)")
    for qual in ("gapic.schema.api.API.gapic_metadata_json", "gapic.samplegen_utils.snippet_index.SnippetIndex.get_metadata_json"):
        fi = pm.func(qual)
        rets = [n for n in ast.walk(fi.node) if isinstance(n, ast.Return) and n.value is not None]
        r7.need(rets, qual + " return")
        r7.instance(qual)
        for ret in rets:
            src = ast.unparse(ret.value)
            ok = "MessageToJson(" in src
            if not ok and isinstance(ret.value, ast.Name):
                # returned variable assigned from MessageToJson / re-serialised json
                for n in ast.walk(fi.node):
                    if isinstance(n, ast.Assign) and any(isinstance(t, ast.Name) and t.id == ret.value.id for t in n.targets):
                        if "MessageToJson(" in ast.unparse(n.value) or "json.dumps(" in ast.unparse(n.value):
                            ok = True
            r7.check(ok, fi.module.path, ret.lineno, f"{qual}: return {src[:80]}",
                     "JSON artefact is not the result of MessageToJson / json.dumps")


# ---------------------------------------------------------------------------
# C01.K constraint justification


def _any_over_methods(pm, cls, prop, attr):
    """`prop` of `cls` is any(m.<attr> for m in self.methods.values()) - on the normal form, so an early-return loop or a helper reads the same."""
    from ..pymodel import nmatch
    q = f"{cls}.{prop}"
    if q not in pm.functions:
        return False
    return nmatch(pm, f"any((_M_.{attr} for _M_ in self.methods.values()))", pm.functions[q]) is not None


def check_constraints(report, pm: PyModel):
    rk = report.rule("C01.K", "every atom constraint used to prune valuations is justified by the Python construct it cites", floor=10)
    from ..pymodel import nfunc, nreturn
    from .common_rules import stmt_guards
    wr = pm.module("gapic.schema.wrappers").path
    for prop, attr in (("has_lro", "lro"), ("has_extended_lro", "extended_lro"), ("has_pagers", "paged_result_field"),
                       ("any_server_streaming", "server_streaming"), ("any_client_streaming", "client_streaming"),
                       ("any_deprecated", "is_deprecated"), ("any_extended_operations_methods", "operation_service")):
        rk.instance(f"Service.{prop} = any(m.{attr} ...)")
        rk.check(_any_over_methods(pm, "gapic.schema.wrappers.Service", prop, attr), wr, 0, f"Service.{prop}",
                 f"Service.{prop} is no longer `any(m.{attr} for m in self.methods.values())`; constraint K rows relying on it are stale")
    # Method.void compares with google.protobuf.Empty; lro requires Operation output
    void = pm.member(pm.cls("gapic.schema.wrappers.Method"), "void")
    rk.need(void is not None, "Method.void")
    e_void = nreturn(pm, pm.func("gapic.schema.wrappers.Method.void"))
    src = ast.unparse(e_void) if e_void is not None else ast.unparse(void.node)
    rk.instance("Method.void")
    rk.check("google.protobuf.Empty" in src or ("Empty" in src and "protobuf" in src), wr, void.node.lineno, "Method.void",
             "Method.void no longer compares the output type with google.protobuf.Empty (K-lro-void / K-paged-void)")
    lro = pm.func("gapic.schema.api._ProtoBuilder._maybe_get_lro")
    rk.instance("_maybe_get_lro")
    rk.check("google.longrunning.Operation" in ast.unparse(nfunc(pm, lro)), lro.module.path, lro.node.lineno, "_maybe_get_lro",
             "_maybe_get_lro no longer requires output google.longrunning.Operation (K-lro-void, K-lro-paged)")
    # _fields_mapping drops non-primitive fields of cross-package requests (K-map-samepkg)
    fm = pm.func("gapic.schema.wrappers.Method._fields_mapping")
    ok = False
    from .common_rules import helper_views
    views_ = helper_views(pm, fm, keep={"get_field"})
    for fn_ in views_ + [n for v_ in views_ for n in ast.walk(v_) if isinstance(n, ast.FunctionDef) and n is not v_]:
        for guards, st in stmt_guards(fn_):
            if isinstance(st, ast.Expr) and isinstance(st.value, ast.Yield) or (isinstance(st, ast.Assign) and isinstance(st.targets[0], ast.Subscript)):
                facts = {g for g in guards if g[0] != "for"}
                # the entry is produced only when NOT (cross-package request AND non-primitive field): as an OR(...) fact or two alternatives
                txt = " ".join(str(g) for g in facts)
                if "self.input.ident.package" in txt and "self.ident.package" in txt and ".is_primitive" in txt:
                    ok = True
    assigned = True
    rk.instance("_fields_mapping")
    rk.check(ok and assigned, fm.module.path, fm.node.lineno, "Method._fields_mapping",
             "_fields_mapping no longer skips non-primitive fields of cross-package requests (K-map-samepkg)")
    # Field.map requires message + repeated?  map = bool(self.repeated and self.message and self.message.map)
    fmap = pm.member(pm.cls("gapic.schema.wrappers.Field"), "map")
    rk.need(fmap is not None, "Field.map")
    s = ast.unparse(fmap.node)
    rk.instance("Field.map")
    rk.check("self.repeated" in s and "self.message" in s, wr, fmap.node.lineno, "Field.map",
             "Field.map no longer requires a repeated message field (K-map-repeated, K-map-samepkg)")
    # enforce_valid_method_settings rejects streaming methods (K-autopop-unary-*)
    ev = pm.func("gapic.schema.api.API.enforce_valid_method_settings")
    s = ast.unparse(ev.node)
    rk.instance("enforce_valid_method_settings")
    rk.check("client_streaming" in s and "server_streaming" in s, ev.module.path, ev.node.lineno, "enforce_valid_method_settings",
             "enforce_valid_method_settings no longer rejects streaming methods (K-autopop-unary-c/s)")
    # FullRequest.flattenable is always False (sample profile)
    sg = pm.module("gapic.samplegen.samplegen")
    calls = [n for n in ast.walk(sg.tree) if isinstance(n, ast.Call) and ast.unparse(n.func).endswith("FullRequest")]
    rk.need(calls, "FullRequest(...) constructions")
    for c in calls:
        kw = {k.arg: ast.unparse(k.value) for k in c.keywords}
        rk.instance("FullRequest(flattenable=False)")
        rk.check(kw.get("flattenable", "False") == "False", sg.path, c.lineno, "FullRequest(flattenable=...)",
                 "sample profile assumes request.flattenable is always False")


MUTATORS = {"add", "update", "append", "extend", "discard", "remove", "clear", "pop", "insert", "setdefault", "popitem",
            "difference_update", "intersection_update", "symmetric_difference_update", "sort", "reverse"}


def check_with_context_pure(report, pm: PyModel):
    r = report.rule("C01.6b", "with_context never mutates its arguments (collisions / visited_messages are shared by the whole "
                              "traversal: an in-place update changes which sibling references get re-bound)", floor=8)
    for ci in pm.classes.values():
        if ci.module.name not in WRAPPER_MODULES or "with_context" not in ci.members:
            continue
        fn = ci.members["with_context"].node
        params = {a.arg for a in fn.args.args + fn.args.kwonlyargs if a.arg != "self"}
        r.instance(f"{ci.name}.with_context({', '.join(sorted(params))})")
        for n in ast.walk(fn):
            if isinstance(n, ast.Call) and isinstance(n.func, ast.Attribute) and isinstance(n.func.value, ast.Name) \
                    and n.func.value.id in params and n.func.attr in MUTATORS:
                r.violation(ci.module.path, n.lineno, f"{ci.name}.with_context: {ast.unparse(n)[:80]}",
                            f"with_context mutates its argument '{n.func.value.id}' in place; the set is shared with the caller's "
                            f"traversal, so messages visited in one branch are wrongly skipped in sibling branches")
            if isinstance(n, ast.AugAssign) and isinstance(n.target, ast.Name) and n.target.id in params \
                    and isinstance(n.op, (ast.BitOr, ast.BitAnd, ast.Sub, ast.BitXor)):
                r.violation(ci.module.path, n.lineno, f"{ci.name}.with_context: {ast.unparse(n)[:80]}",
                            f"augmented assignment updates the caller's '{n.target.id}' set in place")
        r.ok()


def check_import_closure(report, pm: PyModel):
    from ..pymodel import pmatch, find_match
    r = report.rule("C01.8", "the collections that feed emitted import lines range over every type the templates reference "
                             "(python_modules / field_types / recursive_field_types / _ref_types are exhaustive)", floor=6)
    pr = pm.func("gapic.schema.api.Proto.python_modules")
    node, b = find_match("{_T_.ident.python_import for _M_ in self.all_messages.values() for _T_ in _M_.field_types "
                         "if _T_.ident.python_import != _SR_}", pr.node)
    r.instance("Proto.python_modules")
    r.check(node is not None, pr.module.path, pr.node.lineno, "Proto.python_modules comprehension",
            "imports of a types module must be collected from every message (nested and map entries included: all_messages) and every "
            "one of its field types, excluding only the module's own import; an extra filter drops imports the emitted fields still reference")
    ft = pm.func("gapic.schema.wrappers.MessageType.field_types")
    node, b = find_match("tuple((_F_.type for _F_ in self.fields.values() if _F_.message or _F_.enum))", ft.node)
    r.instance("MessageType.field_types")
    r.check(node is not None, ft.module.path, ft.node.lineno, "MessageType.field_types",
            "field_types must be the type of every field that is a message or an enum")
    rf = pm.func("gapic.schema.wrappers.MessageType.recursive_field_types")
    src = ast.unparse(rf.node)
    r.instance("MessageType.recursive_field_types")
    adds = [n for n in ast.walk(rf.node) if isinstance(n, ast.If) and pmatch("not _F_.is_primitive", n.test) is not None
            and any(isinstance(x, ast.Expr) and pmatch("_TS_.add(_F_.type)", x.value) is not None for x in n.body)]
    desc = [n for n in ast.walk(rf.node) if isinstance(n, ast.If) and pmatch("_F_.message and _F_.type not in _TS_", n.test) is not None]
    r.check(len(adds) == 1 and len(desc) == 1, rf.module.path, rf.node.lineno, "recursive_field_types traversal",
            "every non-primitive field type must be added and every unseen message descended into")
    # _ref_types
    rt = pm.func("gapic.schema.wrappers.Method._ref_types")
    want = {  # expression appended/extended -> required enclosing condition (None = unconditional)
        "self.client_output": "not self.void", "self.client_output.field_types": "not self.void",
        "self.client_output_async": "not self.void", "self.client_output_async.field_types": "not self.void",
        "self.lro.response_type": "self.lro", "self.lro.metadata_type": "self.lro",
        "self.extended_lro.request_type": "self.extended_lro", "self.extended_lro.operation_type": "self.extended_lro",
        "self.paged_result_field.message": "self.paged_result_field and self.paged_result_field.message",
    }
    from .common_rules import ref_types_inclusions
    ref_types_inclusions(r, want)
    init = [n for n in ast.walk(rt.node) if isinstance(n, (ast.Assign, ast.AnnAssign)) and isinstance(n.value, ast.List)
            and [ast.unparse(e) for e in n.value.elts] == ["self.input"]]
    r.check(len(init) == 1, rt.module.path, rt.node.lineno, "_ref_types starts with [self.input]", "the request type must always be imported")
    node, _ = find_match("self.input.recursive_field_types if _R_ else (_F_.type for _F_ in self.flattened_fields.values() if _F_.message or _F_.enum)", rt.node)
    r.check(node is not None, rt.module.path, rt.node.lineno, "_ref_types field types",
            "flattened parameter types (or all recursive field types) must be included")


def check_subpackage_listing(report, pm: PyModel):
    """C01.9: under `%sub`, the generator emits a types module / service package only for protos / services whose sub-package EQUALS the
    view being rendered, while `api.protos` / `api.services` of a view also contain those of deeper sub-packages. Every emitted import whose
    module path is filled from an element of those collections must therefore carry the same equality as a guard (or put the element's own
    sub-package into the path), otherwise the parent package imports modules that only exist below the sub-package."""
    import re as _re
    r9 = report.rule("C01.9", "imports filled from api.protos / api.services elements carry the generator's sub-package emission predicate", floor=4)
    rt = pm.func("gapic.generator.generator.Generator._render_template")
    from .common_rules import stmt_guards as _sg
    from ..pymodel import nfunc as _nfn
    nrt = _nfn(pm, rt, keep={"_is_desired_transport", "_get_file", "_render_template"})
    for kind, var in (("%proto", "proto"), ("%service", "service")):
        node, _ = find_match(f"skip_subpackages and {var}.meta.address.subpackage != api_schema.subpackage_view", rt.node)
        if node is None:
            # however the test is spelled (continue / guard around the emission, De Morgan): the emission of a per-proto / per-service file runs
            # under the canonical fact  OR(not skip_subpackages; <x>.meta.address.subpackage == api_schema.subpackage_view)
            for guards_, st_ in _sg(nrt):
                if f"{var}={var}" in ast.unparse(st_).replace(" ", "") and "_get_file(" in ast.unparse(st_):
                    for g_ in guards_:
                        if g_[0] != "for" and g_[1] is True and g_[0].startswith("OR(") and "not skip_subpackages" in g_[0] \
                                and f"{var}.meta.address.subpackage == api_schema.subpackage_view" in g_[0]:
                            node = st_
        r9.need(node is not None, f"_render_template: skip predicate for {kind} under %sub",
                "the generator no longer restricts per-proto / per-service files to the view's own sub-package: re-derive this rule")
    from ..skq import Lib
    roots = [core.TEMPLATES] + ([core.ADS_TEMPLATES] if report.tier == "thorough" else [])

    def elem_of(c):
        """'ELEM(api.protos...)' prefix of a canon that reads `.module_name` / `.name` of an element of api.protos / api.services"""
        if not c or not c.startswith(("ELEM(api.protos", "ELEM(api.services")):
            return None
        depth = 0
        for i, ch in enumerate(c):
            if ch == "(":
                depth += 1
            elif ch == ")":
                depth -= 1
                if depth == 0:
                    rest = c[i + 1:]
                    if _re.match(r"\.(module_name|name)(\||$)", rest):
                        return c[:i + 1]
                    return None
        return None
    for root in roots:
        lib = Lib(root)
        for tname in lib.ts.public_names():
            if not tname.endswith(".py.j2") or tname.startswith(("tests/", "examples/")):
                continue
            seen = set()
            for sk in lib.variants(tname, transport=("grpc", "rest")):
                tree = sk.tree()
                if tree is None:
                    continue
                for n in ast.walk(tree):
                    if not isinstance(n, ast.ImportFrom) or not n.module:
                        continue
                    canons = [sk.holes.get(h) for h in _re.findall(r"H\d+_", n.module)]
                    hits = [elem_of(c) for c in canons if elem_of(c)]
                    if not hits:
                        continue
                    e = hits[0]
                    key = (tname, e, sk.describe(n.module))
                    if key in seen:
                        continue
                    seen.add(key)
                    r9.instance(f"{os.path.basename(tname)}: from {sk.describe(n.module)[:80]} import ...")
                    conj = []

                    def flat(f):
                        if isinstance(f, tuple) and f and f[0] == "&":
                            flat(f[1]); flat(f[2])
                        else:
                            conj.append(f)
                    for g in sk.guards_of_node(n):
                        flat(g)
                    want = f"{e}.meta.address.subpackage == api.subpackage_view"
                    guarded = any(isinstance(c, tuple) and c[0] == "a" and str(c[1]) == want for c in conj)
                    in_path = any(c and c.startswith(f"{e}.meta.address.subpackage") for c in canons)
                    w = sk.where(n)
                    r9.check(guarded or in_path, os.path.join(os.path.relpath(root, core.REPO), w[0]), w[1], f"from {sk.describe(n.module)[:100]} import ...",
                             f"the import is emitted for every element of `{e[5:-1]}`, which in a parent view includes protos / services of deeper "
                             f"sub-packages, but their modules are only emitted below the sub-package (generator skip predicate): the parent "
                             f"package raises ModuleNotFoundError on import. Add `if <elem>.meta.address.subpackage == api.subpackage_view`")


def check_python_package_exprs(report, pm: PyModel):
    """C01.10: the directory an emitted module lands in is decided by Generator._get_filename from Naming (module_namespace,
    versioned_module_name - both honour the name / namespace overrides) plus the sub-package. Every place in the schema that builds the
    *import* package of an API-owned module must build it from the same three pieces; a package derived from the proto package
    (convert_to_versioned_package) is only right for dependency packages generated elsewhere."""
    r = report.rule("C01.10", "import packages of API-owned modules are built from Naming.module_namespace + versioned_module_name + subpackage", floor=6)
    sites = []
    for q, fi in sorted(pm.functions.items()):
        if not q.startswith("gapic.schema."):
            continue
        parents = {}
        for n in ast.walk(fi.node):
            for c in ast.iter_child_nodes(n):
                parents[c] = n
        for n in ast.walk(fi.node):
            if isinstance(n, ast.Call) and ast.unparse(n.func).split(".")[-1] in ("Address", "Import"):
                for k in n.keywords:
                    if k.arg == "package":
                        sites.append((q, fi, n, k.value, parents))
    # a function that reduces to one conditional expression is read leaf by leaf instead (the package may be computed in an if/elif chain
    # and passed to ONE shared constructor call): each leaf is a construction, its conditions are the guards
    from ..pymodel import nreturn, decision_leaves
    leaf_sites = {}
    for q in sorted({s_[0] for s_ in sites}):
        fi_ = pm.functions[q]
        try:
            e_ = nreturn(pm, fi_, keep={"convert_to_versioned_package"})
        except Exception:
            e_ = None
        if e_ is None:
            continue
        ls = []
        for conds_, leaf_ in decision_leaves(e_):
            if isinstance(leaf_, ast.Call) and ast.unparse(leaf_.func).split(".")[-1] in ("Address", "Import"):
                for k in leaf_.keywords:
                    if k.arg == "package":
                        ls.append((q, fi_, leaf_, k.value, [c for c, pol in conds_ if pol]))
        if ls:
            leaf_sites[q] = ls
    sites = [s_ for s_ in sites if s_[0] not in leaf_sites] + [x for v in leaf_sites.values() for x in v]
    r.need(len(sites) >= 6, "Address(...) / Import(...) constructions with package=", str(len(sites)))
    own = 0
    from .common_rules import local_env
    from ..pynorm import subst as _subst
    for q, fi, call, val, parents in sites:
        val = _subst(val, local_env(fi.node))          # named intermediates stand for what they were bound to
        val = _subst(val, local_env(fi.node))
        src = ast.unparse(val)
        r.instance(f"{q.rsplit('.', 2)[-2]}.{q.rsplit('.', 1)[-1]}: package={src[:80]}")
        # enclosing if-tests
        guards = []
        n = call
        if isinstance(parents, list):
            guards = list(parents)              # leaf of a decision table: its (positive) conditions
        while isinstance(parents, dict) and n in parents:
            pnode = parents[n]
            if isinstance(pnode, ast.If) and n in pnode.body:
                guards.append(ast.unparse(pnode.test))
            n = pnode
        if isinstance(val, ast.Tuple) and all(isinstance(e, ast.Constant) for e in val.elts):
            r.ok()                      # a fixed third-party package (google.api_core ...)
            continue
        if src in ("self.package",) or src.startswith(("tuple(file_descriptor.package.split(", "[*file_descriptor.package.split(")):
            r.ok()                      # the proto package itself (descriptor identity / pb2 imports)
            continue
        if "convert_to_versioned_package()" in src:
            r.check(any(g == "self.is_proto_plus_type" for g in guards), fi.module.path, call.lineno, f"{q}: package={src[:100]}",
                    "a package derived from the PROTO package is only right for proto-plus dependency packages; for modules this generator emits "
                    "it ignores the python-gapic-name / -namespace overrides (and the naming of unversioned packages), so the emitted import "
                    "names a package that does not exist")
            continue
        b = pmatch("_ANYN_.module_namespace + (_ANYM_.versioned_module_name,) + _ANYS_.subpackage + _ANYREST_", val)
        ok = b is not None and b["_ANYN_"] == b["_ANYM_"] and b["_ANYN_"].endswith("api_naming")
        own += 1 if ok else 0
        r.check(ok, fi.module.path, call.lineno, f"{q}: package={src[:100]}",
                "the import package of an API-owned module must be <naming>.module_namespace + (<naming>.versioned_module_name,) + <address>.subpackage + ...")
    r.need(own >= 2 or r.violations, "own-package constructions (types, pagers)", str(own))


def run(report, pm: PyModel):
    check_subpackage_listing(report, pm)
    check_python_package_exprs(report, pm)
    check_with_context_pure(report, pm)
    check_import_closure(report, pm)
    check_module_graph(report, pm)
    check_with_context(report, pm)
    check_json(report, pm)
    check_constraints(report, pm)
