"""C01.4-C01.7 and the re-check of atom constraints (filled in below)."""
def run(report, pm):
    pass
