"""C12 - reserved-word and colliding names are disambiguated without altering the wire
(one-predicate sibling check, keyword subset, name-kind typing of holes, renderer agreement; the executed
70-word x 9-position cross product is replaced by these rules).

  C12.1 every proto-name -> Python-name site has the shape `x + "_" if x in RESERVED_NAMES else x` over the one RESERVED_NAMES literal
  C12.2 set(keyword.kwlist) <= RESERVED_NAMES (for the interpreter that runs the generator)
  C12.3 rpc / module names: client_method_name and transport_safe_name test name.lower() against keyword.kwlist; proto file names avoid
        keywords and the client control parameters; module_alias fires on collisions or reserved module names
  C12.4 name-kind typing: a hole in Python-identifier position fed by a field-derived RAW accessor is a violation; the routing
        header / http option positions carry RAW names
  C12.5 all renderers of the client method name agree (client, async client, gapic_metadata, sample metadata, sample template)
"""
from __future__ import annotations

import ast
import keyword
import os

from .. import core
from ..pymodel import pmatch, find_match
from ..skq import D, Dn, Lib, M, SVC, pm, calls, where
from ..tmodel import TemplateSet
from .c01 import sample_profiles

SITES = [
    # (qualified function, pattern with metavariables, description)
    ("gapic.schema.wrappers.Field.name",
     "_N_ + '_' if _N_ in utils.RESERVED_NAMES and self.meta.address.is_proto_plus_type else _N_",
     "Field.name (proto-plus types only: raw pb2 messages keep their attribute names)"),
    ("gapic.utils.uri_conv.convert_uri_fieldnames", "_S_ + '_' if _S_ in RESERVED_NAMES else _S_", "uri path variable segments"),
]

# RAW accessors (wire spelling) that must not fill a Python-identifier slot, unless excepted below
RAW_SUFFIXES = (".raw", ".routing_parameters).field", ".field_pb.name", ".operation_request_field", ".operation_response_field",
                ".routing_parameters).key")
IDENT_EXCEPTIONS = {
    # (template basename, canonical suffix) -> reason
}


def check_predicate(report):
    r1 = report.rule("C12.1", "every proto-name to Python-name mapping is `x + '_' if x in RESERVED_NAMES else x` over the single literal", floor=6)
    m = pm()
    # the one literal
    names = m.const("gapic.utils.reserved_names", "RESERVED_NAMES")
    r1.need(isinstance(names, frozenset) and len(names) >= 60, "RESERVED_NAMES literal", f"{type(names)} of {len(names) if hasattr(names, '__len__') else '?'}")
    for mod in ("gapic.utils", "gapic.schema.metadata", "gapic.schema.api", "gapic.utils.uri_conv"):
        mm = m.module(mod)
        tgt = mm.imports.get("RESERVED_NAMES")
        r1.instance(f"{mod}.RESERVED_NAMES -> {tgt}")
        r1.check(tgt in ("gapic.utils.reserved_names.RESERVED_NAMES", "gapic.utils.RESERVED_NAMES"), mm.path, 0, f"{mod} imports RESERVED_NAMES from {tgt}",
                 "every site must test membership in the one reserved list")
    from ..pymodel import fmatch
    for qual, pattern, what in SITES:
        fi = m.func(qual)
        node, b, _form = fmatch(m, pattern, fi)
        r1.instance(what)
        r1.check(node is not None, fi.module.path, fi.node.lineno, what, f"{what}: expected the shape `{pattern}` (exactly one trailing underscore, same predicate)")
    # writer / reader agreement on the keys of `<message>.fields`: the writer is _get_fields (`answer[field.name] = field`), so a reader that
    # computes a key from a proto name must suffix under exactly Field.name's condition - reserved AND proto-plus.  A reader that suffixes
    # every reserved word looks up `type_` in a raw pb2 (dependency package) message whose key is `type`: KeyError at generation time.
    gf = m.func("gapic.schema.wrappers.MessageType.get_field")
    r1.instance("MessageType.get_field lookup key agrees with Field.name")
    node_pp, _b, _f = fmatch(m, "_X_.fields[_F_ + ('_' if _F_ in utils.RESERVED_NAMES and _X_.meta.address.is_proto_plus_type else '')]", gf)
    node_un, _b, _f = fmatch(m, "_X_.fields[_F_ + ('_' if _F_ in utils.RESERVED_NAMES else '')]", gf)
    r1.need(node_pp is not None or node_un is not None, "MessageType.get_field: self.fields[<name> + ('_' if <reserved...> else '')]", "lookup key not recognised")
    r1.check(node_pp is not None, gf.module.path, (node_un or gf.node).lineno if hasattr(node_un or gf.node, "lineno") else gf.node.lineno,
             "MessageType.get_field: key suffixed for every reserved word",
             "the keys of `fields` are Field.name, which suffixes reserved words only in proto-plus messages; get_field suffixes unconditionally, so "
             "`get_field('type')` on a dependency-package (pb2) request raises KeyError('type_') - e.g. a method_signature, http body or routing "
             "field naming a reserved-word field of such a request aborts generation")
    from .common_rules import per_segment_disambiguation
    for qual, attr, what in (("gapic.schema.wrappers.FieldHeader.disambiguated", "raw", "implicit routing header / http path variable read (may be dotted)"),
                             ("gapic.schema.wrappers.RoutingParameter.disambiguated_field", "field", "explicit routing field read (may be dotted)")):
        ok, shown, dfi = per_segment_disambiguation(qual, attr)
        r1.instance(what)
        r1.check(ok, dfi.module.path, dfi.node.lineno, f"{qual.rsplit('.', 2)[-2]}.{qual.rsplit('.', 1)[-1]}: {shown[:120]}",
                 f"{what}: every reserved SEGMENT of the dotted path gets one trailing underscore (`book.class` -> `book.class_`); testing the whole "
                 f"string emits `request.book.class` (syntax error) or reads a non-existent attribute (`request.book.type`)")
    # _fields_mapping: suffix decided by the resolved leaf field's proto name
    from .common_rules import fields_mapping_facts
    ff = fields_mapping_facts()
    fm = ff["fi"]
    r1.instance("_fields_mapping key suffix")
    r1.check(ff["key_rule"] and ff["key_pos"], fm.module.path, fm.node.lineno, "flattened key suffix",
             "the flattened key gets '_' exactly when the *resolved leaf field's* proto name is reserved (a dotted path `a.class` must become `a.class_`)")
    r1.instance("_fields_mapping key suffix agrees with Field.name")
    r1.check(ff["proto_plus_only"] or not ff["key_rule"], fm.module.path, fm.node.lineno, "flattened key suffixed for every reserved word",
             "the key is the attribute path written as `request.<key> = <param>`; a raw pb2 (dependency package) request keeps `type`, so the key "
             "must be suffixed only when the resolved field's own name is (reserved AND proto-plus), like Field.name")
    # body suffix in try_parse_http_rule (decided on finite models of its normal form, see common_rules.try_parse_http_rule_table)
    from .common_rules import try_parse_http_rule_table
    bad, shown, tp = try_parse_http_rule_table()
    r1.instance("http body suffix")
    r1.need(bad is not None, "HttpRule.try_parse_http_rule", shown)
    body_bad = [b for b in (bad or []) if "verb='get' uri='/v1/x'" in b]
    r1.check(not body_bad, tp.module.path, tp.node.lineno, f"body + '_' if body in RESERVED_NAMES: {'; '.join(body_bad[:2])}" if body_bad else "body + '_' if body in RESERVED_NAMES",
             "the http body field name follows the same rule")

    r2 = report.rule("C12.2", "every Python keyword of the running interpreter is in RESERVED_NAMES", floor=30)
    missing = sorted(set(keyword.kwlist) - set(names))
    r2.instance(n=len(keyword.kwlist))
    r2.ok(len(keyword.kwlist) - len(missing))
    for kwd in missing:
        r2.violation(m.module("gapic.utils.reserved_names").path, 0, f"keyword {kwd}", f"Python keyword `{kwd}` is not in RESERVED_NAMES: a field with that name is emitted verbatim")

    r3 = report.rule("C12.3", "rpc and module names avoid keywords and transport/client internals", floor=4)
    wr = m.module("gapic.schema.wrappers").path
    # both name rules are decided by evaluating the normal form (vlib/pyeval.py) on a finite set of rpc names that covers every case:
    # keyword in either capitalisation, the transport's own members, ordinary names - for is_internal in {False, True}
    import keyword as _kw
    import itertools as _it
    from ..pymodel import nreturn as _nret
    from ..pyeval import Evaluator as _Ev, UNKNOWN as _UNK
    NAMES = ("Import", "import", "Class", "From", "GetFoo", "list_things", "CreateChannel", "GrpcChannel", "OperationsClient", "createchannel", "Lambda")
    funcs_ = {"chain": lambda *a: [y for x in a for y in x], "itertools.chain": lambda *a: [y for x in a for y in x],
              "make_private": lambda x: "_" + x, "utils.make_private": lambda x: "_" + x}
    for qual_, members_, what_, internal_ in (
            ("gapic.schema.wrappers.Method.client_method_name", (), "Method.client_method_name",
             "keyword rpc names get one trailing '_' (case-insensitively, because the method name is snake-cased); internal ones a leading '_'"),
            ("gapic.schema.wrappers.Method.transport_safe_name", ("createchannel", "grpcchannel", "operationsclient"), "Method.transport_safe_name",
             "transport property names avoid keywords and the transport's own members")):
        f_ = m.func(qual_)
        e_ = _nret(m, f_, keep={"make_private"})
        r3.instance(what_.split(".")[1])
        r3.need(e_ is not None, what_, "does not reduce to one expression")
        bad_ = []
        for nm_, internal in _it.product(NAMES, (False, True)):
            v_ = _Ev({"self": {"name": nm_, "is_internal": internal}, "keyword": {"kwlist": list(_kw.kwlist)}}, funcs=funcs_).ev(e_)
            r3.need(v_ is not _UNK, what_, f"cannot evaluate `{ast.unparse(e_)[:100]}` for name={nm_!r}")
            want_ = nm_ + "_" if (nm_.lower() in _kw.kwlist or nm_.lower() in members_) else nm_
            if qual_.endswith("client_method_name") and internal:
                want_ = "_" + want_
            if v_ != want_:
                bad_.append(f"{nm_!r}{' (internal)' if internal else ''} -> {v_!r}, expected {want_!r}")
        r3.check(not bad_, wr, f_.node.lineno, f"{what_}: {'; '.join(bad_[:3])}" if bad_ else what_, internal_)
    bd = m.func("gapic.schema.api.API.build")
    from ..pymodel import FuncInfo, nfunc, find_match_ast
    from ..pynorm import norm_expr
    inner = [n for n in ast.walk(bd.node) if isinstance(n, ast.FunctionDef) and n.name == "disambiguate_keyword_sanitize_fname"]
    r3.need(len(inner) == 1, "API.build.<locals>.disambiguate_keyword_sanitize_fname")
    ifi = FuncInfo(bd.qual + ".<locals>.disambiguate_keyword_sanitize_fname", inner[0], bd.module, bd.cls)
    nf = nfunc(m, ifi)
    node, bb = find_match_ast(norm_expr(ast.parse("_ANYN_ in _ANYS_ or _ANYP_ in _V_", mode="eval").body), nf)
    r3.instance("proto file names")
    names_src = None
    if node is not None:
        names_src = bb["_ANYS_"]
        if names_src.isidentifier():      # a variable of the enclosing function: look at what it is bound to
            defs = [n for n in ast.walk(bd.node) if isinstance(n, ast.Assign) and ast.unparse(n.targets[0]) == names_src]
            names_src = ast.unparse(defs[0].value) if len(defs) == 1 else None
    ok = False
    if names_src is not None:
        parts, work = [], [ast.parse(names_src, mode="eval").body]
        while work:                       # operands of a `|` / .union() chain
            e = work.pop()
            if isinstance(e, ast.BinOp) and isinstance(e.op, ast.BitOr):
                work += [e.left, e.right]
            elif isinstance(e, ast.Call) and isinstance(e.func, ast.Attribute) and e.func.attr == "union":
                work += [e.func.value] + list(e.args)
            elif isinstance(e, ast.Call) and isinstance(e.func, ast.Name) and e.func.id in ("set", "frozenset") and len(e.args) == 1:
                work.append(e.args[0])
            else:
                parts.append(e)
        lits = {c.value for e in parts if isinstance(e, (ast.Set, ast.List, ast.Tuple)) for c in e.elts if isinstance(c, ast.Constant)}
        ok = any(ast.unparse(e) == "keyword.kwlist" for e in parts) and {"metadata", "retry", "timeout", "request"} <= lits
    r3.check(ok, bd.module.path, inner[0].lineno, "invalid module names", "proto file names avoid keywords and the client control parameters")
    r3.check(node is not None and "disambiguate_keyword_sanitize_fname(" in ast.unparse(inner[0].body), bd.module.path, inner[0].lineno,
             "disambiguate_keyword_sanitize_fname", "colliding or invalid names get '_' and are re-checked")
    ma = m.func("gapic.schema.metadata.Address.module_alias")
    r3.instance("module_alias")
    r3.check(find_match("self.module in self.collisions or self.module in RESERVED_NAMES", ma.node)[0] is not None, ma.module.path, ma.node.lineno,
             "Address.module_alias", "module aliases are applied for collisions and reserved module names")
    # every import the library emits for a type goes through Address.python_import; collisions are computed over the module names of ALL
    # referenced types (Proto.names / Service.names), so every arm must carry the alias - an arm without one binds the bare module name even
    # when two packages provide a module of that name
    pi = m.func("gapic.schema.metadata.Address.python_import")
    imports = [n for n in ast.walk(pi.node) if isinstance(n, ast.Call) and ast.unparse(n.func).endswith("Import")]
    r3.need(len(imports) >= 2, "Address.python_import: imp.Import(...) arms", f"{len(imports)} found")
    for c in imports:
        kws = {k.arg: ast.unparse(k.value) for k in c.keywords}
        r3.instance({"python_import arm": kws.get("module", "?")})
        r3.check("module_alias" in kws.get("alias", ""), pi.module.path, c.lineno, f"Address.python_import: Import(module={kws.get('module')}) without alias",
                 f"this arm imports `{kws.get('module')}` without the collision alias: two dependency packages that both ship a file of the same base "
                 f"name (acme/alpha/types.proto, acme/beta/types.proto) are imported as the same name and the second import shadows the first")
    from .common_rules import proto_names_module_collisions, camel_case_drops_trailing_separator
    proto_names_module_collisions(r3)
    camel_case_drops_trailing_separator(r3)


def check_holes(report, lib: Lib):
    r4 = report.rule("C12.4", "no RAW (wire-spelled) field accessor fills a Python identifier slot of an emitted library module", floor=300)
    ts = lib.ts
    known = 0
    for tname in ts.public_names():
        if not (tname.startswith("%namespace/%name_%version/") and tname.endswith(".py.j2")):
            continue
        seen = set()
        for sk in lib.variants(tname, transport=("grpc", "rest")):
            for n in ast.walk(sk.tree()):
                slots = []
                if isinstance(n, ast.Attribute):
                    slots.append((n.attr, n))
                elif isinstance(n, ast.arg):
                    slots.append((n.arg, n))
                elif isinstance(n, ast.keyword) and n.arg:
                    slots.append((n.arg, n.value))
                elif isinstance(n, (ast.FunctionDef, ast.AsyncFunctionDef, ast.ClassDef)):
                    slots.append((n.name, n))
                for ident, node in slots:
                    canon = sk.canon_of(ident)
                    if canon is None:
                        continue
                    r4.instance()
                    raw = [s for s in RAW_SUFFIXES if canon.endswith(s)]
                    if not raw:
                        r4.ok()
                        continue
                    key = (tname, canon)
                    if key in seen:
                        continue
                    seen.add(key)
                    exc = IDENT_EXCEPTIONS.get((os.path.basename(sk.where(node)[0]), raw[0]))
                    if exc:
                        r4.note(f"exception {canon}: {exc}")
                        continue
                    w = where(sk, node, lib.root)
                    r4.violation(w[0], w[1], f"identifier slot filled by {{{canon}}} (emitted by {os.path.basename(tname)})",
                                 f"`{canon}` is the wire spelling of a field name; in a Python identifier position a reserved word (e.g. a field named "
                                 f"`from` or `class`) is a syntax error or misses the generated attribute `<name>_`")


def check_renderers(report, lib: Lib):
    r5 = report.rule("C12.5", "every renderer of the client method name derives it from Method.client_method_name", floor=4)
    m = pm()
    # python renderers
    for qual in ("gapic.schema.api.API.gapic_metadata", "gapic.samplegen.samplegen._fill_sample_metadata"):
        fi = m.func(qual)
        r5.instance(qual)
        r5.check("client_method_name" in ast.unparse(fi.node), fi.module.path, fi.node.lineno, qual, "must use Method.client_method_name")
    # sample template
    prof = [p for p in sample_profiles(m) if p[0].startswith("Request/grpc/")][0]
    from ..tmodel import cover
    from ..constraints import CONSTRAINTS
    vs, _ = cover(lib.ts, "examples/sample.py.j2", constraints=CONSTRAINTS, const_roots=prof[1],
                  known_roots={"sample", "imports", "calling_form", "calling_form_enum"})
    found = False
    for sk in vs:
        if sk.tree() is None:
            continue
        for c in calls(sk.tree()):
            f = c.func
            if isinstance(f, ast.Attribute) and isinstance(f.value, ast.Name) and f.value.id == "client":
                found = True
                nm = Dn(sk, f.attr)
                r5.instance({"sample call": "client." + nm})
                w = where(sk, c, lib.root)
                r5.check("client_method_name" in nm, w[0], w[1], f"client.{nm}(...) in the generated sample",
                         "the sample calls the client through a name derived from the raw rpc name, not from Method.client_method_name: "
                         "for an rpc named by a Python keyword (e.g. `Import`) the client defines `import_` but the sample calls `client.import(...)`")
    r5.need(found, "client.<method>(...) call in the sample skeleton")


def run(report: core.Report):
    report.explanation = ("Sibling cross-check of every renaming site against one predicate shape and one literal (the finite quantifier over "
                          "reserved words is discharged symbolically), name-kind typing of identifier holes in every library skeleton, and "
                          "renderer agreement for method names.")
    report.assumptions.append("proto-plus maps a reserved non-keyword attribute `x` to `x_` at run time; hard keywords cannot be attribute names at all")
    lib = Lib()
    check_predicate(report)
    check_holes(report, lib)
    check_renderers(report, lib)
