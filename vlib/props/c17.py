"""C17 - mixin RPCs are exposed exactly as configured in the service YAML
(selection guards, 10-method x 5-file agreement with the mixin services' descriptors; wire behaviour not claimed).

  C17.1 Python selection: Locations under has_location_mixin, IAM under has_iam_mixin and not _has_iam_overrides, Operations under
        has_operations_mixin; a mixin method is kept iff its fully-qualified name is an http rule selector; IAM mixins yield only to
        *same-named* RPCs of the API; MIXINS_MAP = the 10 methods of the three services with their descriptor types
  C17.2 the hand-written per-method blocks (sync client, async client, gRPC stubs, base transport): same set of method guards in each
        file = MIXINS_MAP; inside guard X: name snake(X), request type, canonical gRPC path, (de)serializers, routing field, lookup key
  C17.3 REST mixins: one _Base<X> / <X> class per api.mixin_api_signatures entry with http options from api.mixin_http_options[X]
  C17.4 add-iam-methods: the three IAM methods exist on sync and asyncio clients, stubs in grpc / grpc_asyncio / base, all under
        opts.add_iam_methods; mixin IAM blocks are guarded by its negation
"""
from __future__ import annotations

import ast
import os
import re

from jinja2 import nodes

from .. import core
from ..pymodel import pmatch, find_match
from ..skq import D, Dn, Lib, SVC, pm, calls, classes, where, kw
from ..tmodel import TemplateSet

SERVICES = {
    # yaml api name -> (pb2 module import, routing field)
    "google.longrunning.Operations": ("google.longrunning.operations_pb2", "name"),
    "google.iam.v1.IAMPolicy": ("google.iam.v1.iam_policy_pb2", "resource"),
    "google.cloud.location.Locations": ("google.cloud.location.locations_pb2", "name"),
}


def snake(name: str) -> str:
    return re.sub(r"(?<!^)(?=[A-Z])", "_", name).lower()


def descriptor_table():
    """X -> dict(service, path, in_type, out_type, routing) from the installed googleapis-common-protos (third-party data)."""
    import importlib
    out = {}
    for api_name, (mod, routing) in SERVICES.items():
        pb = importlib.import_module(mod)
        for svc in pb.DESCRIPTOR.services_by_name.values():
            if svc.full_name != api_name:
                continue
            for meth in svc.methods:
                def ty(msg):
                    if msg.full_name == "google.protobuf.Empty":
                        return "None"
                    base = os.path.basename(msg.file.name)[: -len(".proto")]
                    return f"{base}_pb2.{msg.name}"
                out[meth.name] = {"service": svc.full_name, "path": f"/{svc.full_name}/{meth.name}", "in": ty(meth.input_type),
                                  "out": ty(meth.output_type), "routing": routing,
                                  "has_routing_field": routing in meth.input_type.fields_by_name}
    return out


def check_python(report, table):
    r1 = report.rule("C17.1", "mixin selection: per-API flags, http-rule selectors, exact-name IAM overrides, MIXINS_MAP = descriptors", floor=14)
    m = pm()
    mm = m.func("gapic.schema.api.API.mixin_api_methods")
    p = mm.module.path
    from .common_rules import stmt_guards
    conds = {}
    for guards, st in stmt_guards(mm.node):
        for x in ast.walk(st):
            if isinstance(x, ast.Call) and ast.unparse(x.func) == "self._get_methods_from_service" and x.args:
                conds[ast.unparse(x.args[0])] = sorted(g for g in guards if g[0] != "for")
    exp = {"locations_pb2": [("self.has_location_mixin", True)], "operations_pb2": [("self.has_operations_mixin", True)],
           "iam_policy_pb2": [("self._has_iam_overrides", False), ("self.has_iam_mixin", True)]}
    leaves_ = None
    if not all(k in conds for k in exp):
        # table- or loop-driven selection over a literal table: the normal form unrolls it into one decision table; a module must be merged
        # in exactly the leaves whose conditions contain its expected condition
        from ..pymodel import nreturn as _nr, decision_leaves as _dl
        e_mm = _nr(m, mm, keep={"_get_methods_from_service", "has_location_mixin", "has_iam_mixin", "has_operations_mixin", "_has_iam_overrides"})
        if e_mm is not None:
            leaves_ = [(set(c_), {ast.unparse(x.args[0]) for x in ast.walk(l_) if isinstance(x, ast.Call)
                                  and ast.unparse(x.func) == "self._get_methods_from_service" and x.args}) for c_, l_ in _dl(e_mm)]
    for k, v in exp.items():
        r1.instance(f"{k} under {v}")
        if leaves_ is not None and any(k in pres for _c, pres in leaves_):
            wrong = [sorted(c_) for c_, pres in leaves_ if (set(v) <= c_) != (k in pres)]
            r1.check(not wrong, p, mm.node.lineno, f"{k} merged / not merged against its condition in the case {wrong[0] if wrong else ''}"[:200],
                     f"methods of {k} must be exposed exactly under {v}")
            continue
        r1.need(k in conds, f"mixin_api_methods: self._get_methods_from_service({k})",
                "the merge of this mixin service is not a direct call under readable conditions (table- or loop-driven selection is not analysed)")
        r1.check(conds.get(k) == sorted(v), p, mm.node.lineno, f"{k} merged under {conds.get(k)}", f"methods of {k} must be exposed exactly under {v}")
    for prop, api_name in (("has_location_mixin", "google.cloud.location.Locations"), ("has_iam_mixin", "google.iam.v1.IAMPolicy"),
                           ("has_operations_mixin", "google.longrunning.Operations")):
        f = m.func(f"gapic.schema.api.API.{prop}")
        from ..pymodel import nmatch
        bb = nmatch(m, "any((_X_.name == _ANYN_ for _X_ in self.service_yaml_config.apis))", f)
        r1.need(bb is not None, f"API.{prop}", "not of the form any(api.name == <constant> for api in self.service_yaml_config.apis) after normalisation")
        consts = [bb["_ANYN_"]] if bb else []
        r1.instance(prop)
        r1.check(consts == [repr(api_name)], p, f.node.lineno, f"{prop}: {consts}",
                 f"{prop} must test that `{api_name}` is listed under `apis` in the service YAML")
    gm = m.func("gapic.schema.api.API._get_methods_from_service")
    SP = gm.node.args.args[1].arg
    r1.instance("selector match")
    from ..pymodel import nfunc, find_match_ast, nreturn, decision_leaves
    from ..pynorm import norm_expr
    from .common_rules import stmt_guards, local_env
    ngm = nfunc(m, gm)
    # selectors are '<package>.<Service>.<Method>' of the descriptor passed in
    sel_pat = norm_expr(ast.parse("f'{" + SP + ".DESCRIPTOR.package}.{_S_.name}.{_M_.name}'", mode="eval").body)
    ok = find_match_ast(sel_pat, ngm)[0] is not None
    # the http rule is copied exactly under `rule.selector in <selectors>`, for every rule of the YAML
    copies = [(g, st) for g, st in stmt_guards(ngm, local_env(ngm)) if isinstance(st, ast.Expr) and isinstance(st.value, ast.Call)
              and ast.unparse(st.value.func).endswith(".options.Extensions[annotations_pb2.http].CopyFrom")]
    ok2 = len(copies) == 1
    if ok2:
        g, st = copies[0]
        loops = [x for x in g if x[0] == "for"]
        conds = [x for x in g if x[0] != "for"]
        ok2 = len(loops) == 1 and loops[0][2] == "self.service_yaml_config.http.rules" and len(conds) == 1 and conds[0][1] is True \
            and conds[0][0].startswith(f"{loops[0][1]}.selector in ") and ast.unparse(st.value.args[0]) == loops[0][1]
    r1.check(ok and ok2, p, gm.node.lineno, "_get_methods_from_service", "a mixin method is exposed iff its fully-qualified name is the selector of an http rule in the YAML")
    r1.check(ok2, p, gm.node.lineno, "http rule copied", "the YAML rule (verb, path, body) must be attached to the exposed method")
    ov = m.func("gapic.schema.api.API._has_iam_overrides")
    r1.instance("IAM overrides by exact name")
    e = nreturn(m, ov, keep={"_get_methods_from_service"})
    leaves = decision_leaves(e) if e is not None else []
    yes = [v for c, v in leaves if ("self.has_iam_mixin", True) in c]
    no = [v for c, v in leaves if ("self.has_iam_mixin", False) in c]
    IAM = "self._get_methods_from_service(iam_policy_pb2)"
    forms = (f"any((_c1_1 in _c1.methods for _c1 in self.services.values() for _c1_1 in {IAM}))",
             f"any((_c1 in _c1_1.methods for _c1 in {IAM} for _c1_1 in self.services.values()))")
    okv = len(yes) == 1 and ast.unparse(yes[0]) in forms
    r1.check(okv, p, ov.node.lineno, f"override test `{ast.unparse(yes[0])[:120] if yes else None}`",
             "IAM mixins yield only to an RPC of the API with exactly the same name (membership in service.methods), not to names that merely contain it")
    r1.check(len(no) == 1 and ast.unparse(no[0]) == "False" and len(leaves) == 2, p, ov.node.lineno, "guard", "no override without the IAM mixin")
    # MIXINS_MAP
    mod = m.module("gapic.schema.mixins")
    mp = mod.assigns.get("MIXINS_MAP")
    r1.need(mp is not None, "MIXINS_MAP = ...")
    # literal, comprehension over a module-level literal, or derived from the pb2 service descriptors: fold it (vlib/constfold.py)
    from ..constfold import fold
    from ..pyeval import UNKNOWN

    def mixin_method(name=None, request_type=None, response_type=None):
        return {"name": name, "request_type": request_type, "response_type": response_type}
    folded = fold(m, "gapic.schema.mixins", "MIXINS_MAP", ctors={"wrappers.MixinMethod": mixin_method, "MixinMethod": mixin_method})
    r1.need(folded is not UNKNOWN and isinstance(folded, dict) and all(isinstance(v, dict) and isinstance(k, str) for k, v in folded.items()),
            "MIXINS_MAP", "the table does not fold to a constant {rpc name: MixinMethod(...)} mapping")
    entries = {k: (v.get("name"), v.get("request_type"), v.get("response_type")) for k, v in folded.items()}
    r1.instance({"MIXINS_MAP": sorted(entries)})
    r1.check(set(entries) == set(table), mod.path, 0, f"MIXINS_MAP keys {sorted(entries)}", f"MIXINS_MAP must list exactly the methods of the three mixin services: {sorted(table)}")
    for x, (nm, rq, rs) in entries.items():
        if x not in table:
            continue
        r1.instance(x)
        r1.check((nm, rq, rs) == (x, table[x]["in"], table[x]["out"]), mod.path, 0, f"MIXINS_MAP[{x}] = ({nm}, {rq}, {rs})",
                 f"expected ({x}, {table[x]['in']}, {table[x]['out']}) from the service descriptor")
    return entries


def guard_names(ts: TemplateSet, name: str):
    out = []
    tree = ts.parse(name)
    # `{% set x = api.mixin_api_methods %}` aliases
    aliases = {a_.target.name for a_ in tree.find_all(nodes.Assign) if isinstance(a_.target, nodes.Name) and isinstance(a_.node, nodes.Getattr)
               and a_.node.attr == "mixin_api_methods" and isinstance(a_.node.node, nodes.Name) and a_.node.node.name == "api"}
    for n in tree.find_all(nodes.If):
        t = n.test
        if isinstance(t, nodes.Compare) and len(t.ops) == 1 and t.ops[0].op == "in" and isinstance(t.expr, nodes.Const):
            rhs = t.ops[0].expr
            if (isinstance(rhs, nodes.Getattr) and rhs.attr == "mixin_api_methods") or (isinstance(rhs, nodes.Name) and rhs.name in aliases):
                out.append((t.expr.value, n.lineno))
    return out


def check_templates(report, lib: Lib, table, which=("sync", "async", "stubs", "base")):
    r2 = report.rule("C17.2", "per-method mixin blocks agree with MIXINS_MAP and the descriptors in every file", floor=40)
    ts = lib.ts
    files = {"sync": SVC + "_mixins.py.j2", "async": SVC + "_async_mixins.py.j2", "stubs": SVC + "transports/_mixins.py.j2", "base": SVC + "transports/base.py.j2"}
    for label, f in files.items():
        g = guard_names(ts, f)
        names = sorted(x for x, _ in g)
        r2.instance({label: names})
        r2.check(names == sorted(table), ts.path(f), 0, f"{label}: guards {names}",
                 f"every mixin method must have exactly one guarded block in {os.path.basename(f)}: expected {sorted(table)}")
    forced = {"opts.add_iam_methods": False}
    # ---- sync / async client methods
    for label, tname, tr in (("sync", SVC + "client.py.j2", "self._transport"), ("async", SVC + "async_client.py.j2", "self._client._transport")):
        sk = lib.one(tname, forced=forced)
        r2.need(sk.tree() is not None, f"skeleton of {tname}")
        fns = {}
        for cls in classes(sk.tree()):
            for fn in cls.body:
                if isinstance(fn, (ast.FunctionDef, ast.AsyncFunctionDef)):
                    fns[fn.name] = fn
        for x, d in table.items():
            fn = fns.get(snake(x))
            r2.instance({"file": label, "method": x})
            r2.check(fn is not None, lib.path(tname), 0, f"{label} client method {snake(x)}", f"mixin {x} has no client method `{snake(x)}`")
            if fn is None:
                continue
            w = where(sk, fn, lib.root)
            seg = sk.seg_of_node(fn)
            gs = [gg for gg in seg.guards if gg[0] == "a" and gg[1].endswith("in api.mixin_api_methods")]
            r2.check(gs == [("a", f"'{x}' in api.mixin_api_methods")], *w, f"guards of {snake(x)}: {gs}", f"`{snake(x)}` must be emitted exactly under '{x}' in api.mixin_api_methods")
            req = [a for a in fn.args.args if a.arg == "request"]
            r2.check(len(req) == 1 and req[0].annotation is not None and D(sk, req[0].annotation) == f"Optional[{d['in']}]", *w,
                     D(sk, req[0].annotation) if req and req[0].annotation is not None else "", f"request type must be {d['in']}")
            co = [c for c in calls(fn) if D(sk, c.func) == d["in"] and any(k.arg is None for k in c.keywords)]
            r2.check(len(co) == 1, *w, f"dict coercion with {d['in']}(**request)", "a dict request must be expanded into the canonical request type")
            look = [s for s in ast.walk(fn) if isinstance(s, ast.Assign) and D(sk, s.targets[0]) == "rpc"]
            exp_keys = (f"{tr}._wrapped_methods[{tr}.{snake(x)}]", f"self.transport._wrapped_methods[{tr}.{snake(x)}]")
            r2.check(len(look) == 1 and D(sk, look[0].value) in exp_keys, *w, D(sk, look[0].value) if look else "", f"lookup must use the transport property `{snake(x)}`")
            hdr = [c for c in calls(fn) if D(sk, c.func) == "gapic_v1.routing_header.to_grpc_metadata"]
            r2.check(len(hdr) == 1 and D(sk, hdr[0].args[0]).replace(" ", "") == f'(("{d["routing"]}",request.{d["routing"]}),)', *w,
                     D(sk, hdr[0].args[0]) if hdr else "<no routing header>", f"the routing header must carry `{d['routing']}` (the field the HTTP rule binds)")
            r2.check(d["has_routing_field"], *w, f"{d['in']}.{d['routing']}", "routing field missing from the request descriptor")
            rc = [c for c in calls(fn) if isinstance(c.func, ast.Name) and c.func.id == "rpc"]
            r2.check(len(rc) == 1 and D(sk, rc[0].args[0]) == "request" and kw(sk, rc[0]) == {"retry": "retry", "timeout": "timeout", "metadata": "metadata"},
                     *w, D(sk, rc[0]) if rc else "", "exactly one call with the caller's request, retry, timeout and metadata")
    # ---- stubs
    for label, tname in (("grpc", SVC + "transports/grpc.py.j2"), ("grpc_asyncio", SVC + "transports/grpc_asyncio.py.j2")):
        sk = lib.one(tname, forced=forced, transport=("grpc",))
        r2.need(sk.tree() is not None, f"skeleton of {tname}")
        props = {}
        for cls in classes(sk.tree()):
            for fn in cls.body:
                if isinstance(fn, ast.FunctionDef) and any(D(sk, dd) == "property" for dd in fn.decorator_list):
                    props[fn.name] = fn
        for x, d in table.items():
            fn = props.get(snake(x))
            r2.instance({"file": label, "stub": x})
            r2.check(fn is not None, lib.path(tname), 0, f"{label} stub {snake(x)}", f"mixin {x} has no stub property `{snake(x)}`")
            if fn is None:
                continue
            w = where(sk, fn, lib.root)
            ch = [c for c in calls(fn) if D(sk, c.func).startswith("self._logged_channel.")]
            r2.check(len(ch) == 1 and D(sk, ch[0].func) == "self._logged_channel.unary_unary", *w, D(sk, ch[0].func) if ch else "", "mixin rpcs are unary-unary")
            if len(ch) == 1:
                c = ch[0]
                r2.check(D(sk, c.args[0]).strip("\"'") == d["path"], *w, D(sk, c.args[0]), f"canonical path must be {d['path']}")
                k = kw(sk, c)
                r2.check(k.get("request_serializer") == d["in"] + ".SerializeToString", *w, str(k.get("request_serializer")), f"serializer of {d['in']}")
                exp_d = "None" if d["out"] == "None" else d["out"] + ".FromString"
                r2.check(k.get("response_deserializer") == exp_d, *w, str(k.get("response_deserializer")), f"deserializer must be {exp_d}")
                st = [s for s in ast.walk(fn) if isinstance(s, ast.Assign) and s.value is c]
                r2.check(len(st) == 1 and D(sk, st[0].targets[0]).replace("'", '"') == f'self._stubs["{snake(x)}"]', *w, D(sk, st[0].targets[0]) if st else "", "cached under its own key")
            seg = sk.seg_of_node(fn)
            gs = [gg for gg in seg.guards if gg[0] == "a" and gg[1].endswith("in api.mixin_api_methods")]
            r2.check(gs == [("a", f"'{x}' in api.mixin_api_methods")], *w, f"guards {gs}", f"stub must be emitted exactly under '{x}' in api.mixin_api_methods")


def check_rest_and_iam(report, lib: Lib):
    r3 = report.rule("C17.3", "REST mixins: one class per api.mixin_api_signatures entry, http options from api.mixin_http_options[name]", floor=2)
    ts = lib.ts
    for f, what in ((SVC + "transports/_rest_mixins_base.py.j2", "_Base"), (SVC + "transports/_rest_mixins.py.j2", "call")):
        tree = ts.parse(f)
        loops = [n for n in tree.find_all(nodes.For)]
        r3.instance(f)
        def _over_signatures(it):
            # api.mixin_api_signatures.items() / .keys() / the mapping itself (iterating a mapping yields its keys)
            if isinstance(it, nodes.Call) and isinstance(it.node, nodes.Getattr) and it.node.attr in ("items", "keys") and not it.args:
                it = it.node.node
            return isinstance(it, nodes.Getattr) and it.attr == "mixin_api_signatures"
        ok = len(loops) >= 1 and _over_signatures(loops[0].iter) and loops[0].test is None
        r3.check(ok, ts.path(f), loops[0].lineno if loops else 0, "for name, sig in api.mixin_api_signatures.items()", "every configured mixin gets its REST class, unfiltered")
    tree = ts.parse(SVC + "transports/_rest_mixins_base.py.j2")
    loopvar = None
    for lp_ in tree.find_all(nodes.For):
        if isinstance(lp_.target, nodes.Tuple) and lp_.target.items and isinstance(lp_.target.items[0], nodes.Name):
            loopvar = lp_.target.items[0].name
            break
        if isinstance(lp_.target, nodes.Name) and isinstance(lp_.iter, (nodes.Getattr, nodes.Call)):      # `for name in api.mixin_api_signatures`
            loopvar = lp_.target.name
            break

    def names_key(arg):
        if isinstance(arg, nodes.Name):
            return arg.name
        if isinstance(arg, nodes.Call) and isinstance(arg.node, nodes.Getattr) and arg.node.attr == "format" and isinstance(arg.node.node, nodes.Const) \
                and arg.node.node.value == "{}" and len(arg.args) == 1 and isinstance(arg.args[0], nodes.Name):
            return arg.args[0].name
        return None
    gets = [g for g in tree.find_all(nodes.Getitem) if isinstance(g.node, nodes.Getattr) and g.node.attr == "mixin_http_options"
            and isinstance(g.node.node, nodes.Name) and g.node.node.name == "api"]
    r3.check(bool(gets) and all(names_key(g.arg) == loopvar for g in gets), ts.path(SVC + "transports/_rest_mixins_base.py.j2"), 0, "http options source",
             "REST mixins must take verb, path and body from api.mixin_http_options[name] (the YAML rule)")
    m = pm()
    ho = m.func("gapic.schema.api.API.mixin_http_options")
    r3.instance("mixin_http_options")
    from ..pymodel import fmatch
    node_, bb_, _f = fmatch(m, "[MixinHttpRule.try_parse_http_rule(_X_) for _X_ in [_ANYH_, *_ANYH_.additional_bindings] if MixinHttpRule.try_parse_http_rule(_X_)]", ho)
    r3.check(node_ is not None and bb_["_ANYH_"].endswith(".options.Extensions[annotations_pb2.http]"), ho.module.path, ho.node.lineno,
             "mixin_http_options", "each mixin's options are its YAML rule plus additional bindings")

    r4 = report.rule("C17.4", "add-iam-methods: three IAM methods on both clients and all gRPC transports under opts.add_iam_methods; mixin IAM under its negation", floor=10)
    forced = {"opts.add_iam_methods": True}
    for tname, kind, tp in ((SVC + "client.py.j2", "method", ("grpc", "rest")), (SVC + "async_client.py.j2", "method", ("grpc", "rest")),
                            (SVC + "transports/grpc.py.j2", "property", ("grpc",)), (SVC + "transports/grpc_asyncio.py.j2", "property", ("grpc",)),
                            (SVC + "transports/base.py.j2", "property", ("grpc", "rest"))):
        sk = lib.one(tname, forced=forced, transport=tp)
        r4.need(sk.tree() is not None, f"skeleton of {tname}")
        names = {}
        for cls in classes(sk.tree()):
            for fn in cls.body:
                if isinstance(fn, (ast.FunctionDef, ast.AsyncFunctionDef)):
                    names.setdefault(fn.name, []).append(fn)
        for x in ("set_iam_policy", "get_iam_policy", "test_iam_permissions"):
            fns = names.get(x, [])
            r4.instance({"file": os.path.basename(tname), "name": x})
            r4.check(len(fns) == 1, lib.path(tname), 0, f"{x} defined {len(fns)} times in {os.path.basename(tname)} with add-iam-methods",
                     "the legacy option must expose each IAM rpc exactly once (and the mixin block must not define it again)")
            for fn in fns:
                seg = sk.seg_of_node(fn)
                gs = [g for g in seg.guards if "add_iam_methods" in str(g)]
                r4.check(("a", "opts.add_iam_methods") in gs, *where(sk, fn, lib.root), f"guards {gs}", "legacy IAM methods must be emitted under opts.add_iam_methods")
    # without the option and without the mixin: none
    sk = lib.one(SVC + "client.py.j2", forced={"opts.add_iam_methods": False, "api.has_iam_mixin": False})
    names = {fn.name for cls in classes(sk.tree()) for fn in cls.body if isinstance(fn, ast.FunctionDef)}
    r4.instance("neither option nor mixin")
    r4.check(not ({"set_iam_policy", "get_iam_policy", "test_iam_permissions"} & names), lib.path(SVC + "client.py.j2"), 0, "IAM methods without configuration",
             "no IAM rpc may be exposed when neither the mixin nor add-iam-methods is configured")


def run(report: core.Report):
    report.explanation = ("AST pattern rules on the mixin selection code, and agreement of every hand-written per-method block (clients, stubs, base "
                          "transport) with MIXINS_MAP and the method descriptors of the three mixin services shipped in googleapis-common-protos.")
    report.assumptions.append("googleapis-common-protos' *_pb2 descriptors are the reference for paths and types of the mixin services")
    table = descriptor_table()
    report.set("descriptor_table", table)
    if len(table) != 10:
        raise core.AnalysisError("C17", "mixin service descriptors", f"expected 10 methods, found {len(table)}")
    lib = Lib()
    check_python(report, table)
    check_templates(report, lib, table)
    check_rest_and_iam(report, lib)
