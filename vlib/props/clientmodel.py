"""Shared extraction of generated client methods from skeletons of client.py.j2 /
async_client.py.j2 (used by C03, C05, C06, C07, C08, C18)."""
from __future__ import annotations

import ast
import re
from typing import Iterator, List, Optional, Tuple

from .. import core
from ..cfg import CFG
from ..skq import Lib, D, Dn, SVC, M, own_body_walk

CLIENT_T = SVC + "client.py.j2"
ASYNC_T = SVC + "async_client.py.j2"
NAME_RE = re.compile(r"^\{" + re.escape(M) + r"\.client_method_name\|snake_case\(\)\}(_unary)?$")


class CM:
    """one generated client method in one skeleton variant"""

    def __init__(self, sk, fn, is_async, root):
        self.sk, self.fn, self.is_async, self.root = sk, fn, is_async, root
        self.name = Dn(sk, fn.name)
        self.unary_suffix = self.name.endswith("_unary")
        self._cfg: Optional[CFG] = None

    def v(self, atom_suffix: str):
        return self.sk.valuation.assigned.get(M + atom_suffix)

    def atom(self, atom: str):
        return self.sk.valuation.assigned.get(atom)

    @property
    def cfg(self) -> CFG:
        if self._cfg is None:
            self._cfg = CFG(self.fn.body)
        return self._cfg

    def where(self, node=None) -> Tuple[str, int]:
        import os
        t, l = self.sk.where(node if node is not None else self.fn)
        return os.path.join(self.root, t), l

    def rpc_calls(self) -> List[ast.Call]:
        out = []
        for n in own_body_walk(self.fn):
            if isinstance(n, ast.Call) and isinstance(n.func, ast.Name) and n.func.id == "rpc":
                out.append(n)
        return out

    def stmt_of(self, node):
        return self.cfg.node_of(node)

    def params(self) -> List[ast.arg]:
        a = self.fn.args
        return a.posonlyargs + a.args + a.kwonlyargs


def client_methods(lib: Lib, is_async: bool, transport=("grpc", "rest"), want2=False, forced=None) -> Iterator[CM]:
    t = ASYNC_T if is_async else CLIENT_T
    for sk in lib.variants(t, transport=transport, want2=want2, forced=forced):
        for n in ast.walk(sk.tree()):
            if isinstance(n, (ast.FunctionDef, ast.AsyncFunctionDef)) and NAME_RE.match(Dn(sk, n.name)):
                yield CM(sk, n, is_async, lib.root)
