"""C09 - default retry and timeout of each method equal its gRPC service-config entry
(key -> field -> slot tables; retry timing inside api_core is not claimed).

  C09.1 _get_retry_and_timeout / _to_float: selector, first match, key table, unit conversion (Python AST)
  C09.2 template slot table in base.py.j2 _prep_wrapped_messages and the async override macro
  C09.3 sibling agreement sync (retries.Retry / gapic_v1.method.wrap_method) vs async (retries.AsyncRetry / self._wrap_method)
  C09.4 _get_methods passes the pair to Method(retry=, timeout=) un-swapped; Method defaults are None
"""
from __future__ import annotations

import ast
import os

from .. import core
from ..skq import Lib, D, Dn, where, val, SVC, M, pm, calls, kw
from ..pymodel import pmatch, find_match
from .c03 import table_keys, KEY

KEY_TABLE = {            # service-config key -> RetryInfo field (reason: grpc service_config.proto RetryPolicy)
    "maxAttempts": "max_attempts",
    "initialBackoff": "initial_backoff",
    "maxBackoff": "max_backoff",
    "backoffMultiplier": "backoff_multiplier",
    "retryableStatusCodes": "retryable_exceptions",
}
SLOT_TABLE = {           # api_core Retry keyword -> Method accessor
    "initial": M + ".retry.initial_backoff",
    "maximum": M + ".retry.max_backoff",
    "multiplier": M + ".retry.backoff_multiplier",
    "deadline": M + ".timeout",
}


def check_python(report):
    r = report.rule("C09.1", "_get_retry_and_timeout: selector {service: <package>.<Service>, method: <rpc>}, first methodConfig "
                             "whose name list contains it, timeout via _to_float, RetryInfo fields from the key table; "
                             "_to_float converts <n>s and <n>n", floor=9)
    m = pm()
    fi = m.func("gapic.schema.api._ProtoBuilder._get_retry_and_timeout")
    p = fi.module.path
    fn = fi.node
    # Decided on the decision table of the normal form (vlib/pynorm.py): helper methods, hoisted locals, loops vs next(...), .format vs
    # f-strings, guard clauses ... all reduce to the same table of (conditions -> (retry, timeout)).
    from ..pymodel import nreturn, nmatch, decision_leaves
    r.need(len(fn.args.args) == 3, "_get_retry_and_timeout(self, service_address, meth_pb)")
    SA, MP = fn.args.args[1].arg, fn.args.args[2].arg
    e = nreturn(m, fi, keep={"_to_float", "RetryInfo"})
    r.need(e is not None, "_get_retry_and_timeout", "the function does not reduce to a decision table; the rule cannot judge it")
    leaves = decision_leaves(e)
    r.need(all(isinstance(v, ast.Tuple) and len(v.elts) == 2 for _, v in leaves), "every outcome is a (retry, timeout) pair")
    SEL = "{'service': f\"{'.'.join(" + SA + ".package)}.{" + SA + ".name}\", 'method': " + MP + ".name}"
    MC = f"next((_c1 for _c1 in self.opts.retry.get('methodConfig', []) if {SEL} in _c1.get('name', None)), None)"
    MC = ast.unparse(ast.parse(MC, mode="eval").body)
    base = {("self.opts.retry", True), (MC, True)}
    seen_mc = any((MC, True) in c for c, _ in leaves)
    r.instance("selector")
    r.check(seen_mc, p, fn.lineno, "selector / method-config lookup",
            "the entry must be the FIRST methodConfig whose name list contains {'service': '<package>.<Service>', 'method': <rpc name>} of the "
            "service address and method descriptor passed in")
    r.instance("match")
    r.check(all(ast.unparse(v) == "(None, None)" for c, v in leaves if not base <= set(c)), p, fn.lineno, "no config / no matching entry",
            "without a retry config or a matching entry both defaults are None")
    # timeout component
    r.instance("timeout")
    okt = True
    for c, v in leaves:
        if not base <= set(c):
            continue
        has = (f"{MC}.get('timeout', None)", True) in c
        want = (f"self._to_float({MC}['timeout'])", f"self._to_float({MC}.get('timeout', None))") if has else ("None",)
        okt = okt and ast.unparse(v.elts[1]) in want
    r.check(okt and seen_mc, p, fn.lineno, "timeout component", "timeout must be self._to_float(<entry>['timeout']) when the entry has a timeout, else None")
    # retry component
    R = f"{MC}['retryPolicy']"
    built = [(c, v.elts[0]) for c, v in leaves if base <= set(c) and (f"'retryPolicy' in {MC}", True) in c]
    notbuilt = [(c, v.elts[0]) for c, v in leaves if not (base <= set(c) and (f"'retryPolicy' in {MC}", True) in c)]
    r.check(bool(built) and all(isinstance(v, ast.Call) and ast.unparse(v.func).split(".")[-1] == "RetryInfo" for _, v in built)
            and all(ast.unparse(v) == "None" for _, v in notbuilt), p, fn.lineno, "guard of RetryInfo construction",
            "retry must be a RetryInfo exactly when the matching entry has a retryPolicy, else None")
    k = {kk.arg: ast.unparse(kk.value) for kk in built[0][1].keywords} if built and isinstance(built[0][1], ast.Call) else {}
    for cfg_key, field in KEY_TABLE.items():
        r.instance(f"{cfg_key} -> {field}")
        got = k.get(field, "<missing>")
        if field in ("initial_backoff", "max_backoff"):
            ok = got == f"self._to_float({R}.get('{cfg_key}', '0s'))"
            msg = f"RetryInfo.{field} must be self._to_float(retryPolicy.get('{cfg_key}', '0s'))"
        elif field == "retryable_exceptions":
            ok = got == f"frozenset((exceptions.exception_class_for_grpc_status(getattr(grpc.StatusCode, _c1)) for _c1 in {R}.get('{cfg_key}', [])))"
            msg = "status code names must map through grpc.StatusCode to api_core exception classes, for every listed code"
        else:
            ok = got.startswith(f"{R}.get('{cfg_key}', ")
            msg = f"RetryInfo.{field} must be read from retryPolicy['{cfg_key}']"
        r.check(ok, p, fn.lineno, f"{field}={got[-110:]}", msg)
    # _to_float
    tf = m.func("gapic.schema.api._ProtoBuilder._to_float")
    r.instance("_to_float")
    r.check(nmatch(m, "int(_S_[:-1]) / 1000000000.0 if _S_.endswith('n') else float(_S_[:-1])", tf) is not None,
            p, tf.node.lineno, "_to_float", "_to_float must give seconds: '<k>n' -> k/1e9, otherwise float(s[:-1])")
    RV, TV = "retry", "timeout"
    # hand-over to Method(...)
    r4 = report.rule("C09.4", "_get_methods hands (retry, timeout) to Method(retry=retry, timeout=timeout); Method defaults are None", floor=3)
    gm = m.func("gapic.schema.api._ProtoBuilder._get_methods")
    un = [n for n in ast.walk(gm.node) if isinstance(n, ast.Assign) and "_get_retry_and_timeout" in ast.unparse(n.value)]
    r4.need(len(un) == 1, "retry, timeout = self._get_retry_and_timeout(...)")
    r4.instance("unpack")
    tg = un[0].targets[0]
    okp = isinstance(tg, ast.Tuple) and len(tg.elts) == 2 and all(isinstance(e, ast.Name) for e in tg.elts)
    r4.check(okp, gm.module.path, un[0].lineno, ast.unparse(un[0]), "the pair must be unpacked into two variables")
    rv, tv = (tg.elts[0].id, tg.elts[1].id) if okp else ("retry", "timeout")
    loops = [n for n in ast.walk(gm.node) if isinstance(n, ast.For) and any(x is un[0] for x in ast.walk(n))]
    r4.need(loops, "method loop in _get_methods")
    mp = [t for t in ast.walk(loops[0].target) if isinstance(t, ast.Name)][-1].id
    r4.check(pmatch("self._get_retry_and_timeout(_ANYA_, _MP_)", un[0].value, {"_MP_": mp}) is not None, gm.module.path, un[0].lineno,
             ast.unparse(un[0].value), "retry/timeout must be looked up for the loop's own method descriptor")
    # the function itself returns (retry var, timeout var): retry var is the one bound to RetryInfo, timeout var to _to_float
    r4.check(RV != TV, p, fn.lineno, "return of _get_retry_and_timeout", "_get_retry_and_timeout must return (retry, timeout)")
    mk = [c for c in calls(gm.node) if ast.unparse(c.func) == "wrappers.Method"]
    r4.need(len(mk) == 1, "wrappers.Method(...)")
    kk = {x.arg: ast.unparse(x.value) for x in mk[0].keywords}
    r4.instance("Method(...)")
    r4.check(kk.get("retry") == rv and kk.get("timeout") == tv, gm.module.path, mk[0].lineno,
             f"retry={kk.get('retry')}, timeout={kk.get('timeout')}", "Method must receive retry=<retry>, timeout=<timeout> un-swapped")
    meth = m.cls("gapic.schema.wrappers.Method")
    for f in ("retry", "timeout"):
        mem = meth.members.get(f)
        r4.instance(f"Method.{f} default")
        r4.check(mem is not None and mem.kind == "field" and isinstance(mem.node.value, ast.Call) and "default=None" in ast.unparse(mem.node.value)
                 or (mem is not None and mem.node.value is not None and ast.unparse(mem.node.value) == "None"),
                 m.module("gapic.schema.wrappers").path, mem.node.lineno if mem else 0, f"Method.{f}",
                 f"Method.{f} must default to None (methods without an entry get no default)")


def wrapped_entries(sk, fn):
    d = table_keys(sk, fn)
    if d is None:
        return
    for k, v in zip(d.keys, d.values):
        if D(sk, k) == "self." + KEY and isinstance(v, ast.Call):
            yield k, v


def check_table(report, lib: Lib, tname, label, retry_cls, wrapper):
    r = report.rule("C09.2", "wrapped-method entry slots: initial/maximum/multiplier/deadline/predicate/default_timeout; "
                             "default_retry iff method.retry", floor=9)
    root = lib.root
    shapes = {}
    for sk in lib.variants(tname, transport=("grpc", "rest")):
        for fn in ast.walk(sk.tree()):
            if not (isinstance(fn, ast.FunctionDef) and fn.name == "_prep_wrapped_messages"):
                continue
            for k, v in wrapped_entries(sk, fn):
                w = where(sk, v, root)
                r.instance({"template": label, "entry": D(sk, v)[:120]})
                r.check(D(sk, v.func) == wrapper, *w, D(sk, v.func), f"{label}: methods must be wrapped with {wrapper}")
                kws = {x.arg: x.value for x in v.keywords}
                r.check("default_timeout" in kws and D(sk, kws["default_timeout"]) == "{" + M + ".timeout}", *w,
                        f"default_timeout={D(sk, kws['default_timeout']) if 'default_timeout' in kws else None}",
                        "default_timeout must be Method.timeout (None when the method has no entry)")
                has_retry = val(sk, M + ".retry")
                if has_retry is not None:
                    r.check(("default_retry" in kws) == bool(has_retry), *w, f"default_retry present={('default_retry' in kws)} with method.retry={has_retry}",
                            "default_retry must exist exactly when the method has a retry policy")
                if "default_retry" not in kws:
                    shapes.setdefault("noretry", sorted(kws))
                    continue
                rc = kws["default_retry"]
                r.check(isinstance(rc, ast.Call) and D(sk, rc.func) == retry_cls, *w, D(sk, rc.func) if isinstance(rc, ast.Call) else D(sk, rc),
                        f"{label}: default_retry must be {retry_cls}(...)")
                if not isinstance(rc, ast.Call):
                    continue
                rk = {x.arg: x.value for x in rc.keywords}
                for slot, acc in SLOT_TABLE.items():
                    guard_atom = acc if slot != "deadline" else None
                    present = slot in rk
                    if guard_atom is not None:
                        gv = val(sk, guard_atom)
                        if gv is not None:
                            r.check(present == bool(gv), *w, f"{slot}= present={present} with {guard_atom}={gv}",
                                    f"{slot}= must be emitted exactly when {guard_atom} is set")
                    else:
                        r.check(present, *w, f"{slot}= missing", f"{slot}= (overall retry deadline) must always be passed")
                    if present and guard_atom is not None:
                        # C09.2g (seed C09e): the slot's own guard is the ONLY condition between the Retry(...) call and the keyword -
                        # nested under a sibling slot's guard it silently disappears for policies that lack the sibling
                        seg, vseg = sk.seg_of_node(rk[slot]), sk.seg_of_node(rc)
                        extra_g = [g for g in seg.guards[len(vseg.guards):] if g[0] != "loop" and guard_atom not in str(g)]
                        if os.environ.get("VERIF_DEBUG_C09"):
                            print("C09.2g", slot, seg.guards[len(vseg.guards):])
                        r.check(not extra_g, *w, f"{slot}= additionally guarded by {extra_g}",
                                f"{slot}= must depend on {guard_atom} alone; under another slot's guard it is dropped for policies without that slot")
                    if present:
                        r.check(D(sk, rk[slot]) == "{" + acc + "}", *w, f"{slot}={D(sk, rk[slot])}", f"{slot}= must be fed from {acc}")
                extra = set(rk) - set(SLOT_TABLE) - {"predicate"}
                r.check(not extra, *w, f"unexpected Retry keywords {sorted(extra)}", "unknown Retry keyword")
                pred = rk.get("predicate")
                r.check(pred is not None and isinstance(pred, ast.Call) and D(sk, pred.func) == "retries.if_exception_type", *w,
                        D(sk, pred)[:80] if pred is not None else "<none>", "predicate must be retries.if_exception_type(...)")
                if isinstance(pred, ast.Call):
                    exs = [D(sk, a) for a in pred.args]
                    n_ex = sk.valuation.assigned.get("LOOP:" + M + ".retry.retryable_exceptions")
                    exp = "core_exceptions.{ELEM(" + M + ".retry.retryable_exceptions).__name__}"
                    # the names may also be taken first and then iterated: retryable_exceptions|map(attribute='__name__')
                    exp2 = "core_exceptions.{ELEM(" + M + ".retry.retryable_exceptions|map(attribute='__name__'))}"
                    r.check(all(e in (exp, exp2) for e in exs) and (n_ex is None or len(exs) == n_ex or exs and exs[0] == exp2), *w, f"predicate args {exs}",
                            "predicate must list core_exceptions.<name> for every retryable exception")
                    # the loop over exceptions must be unfiltered
                    for a in pred.args:
                        seg, vseg = sk.seg_of_node(a), sk.seg_of_node(pred)
                        extra_g = [g for g in seg.guards[len(vseg.guards):] if g[0] != "loop"]
                        r.check(not extra_g, *w, f"exception entry guarded by {extra_g}", "some retryable codes would be dropped")
                shapes.setdefault("retry", (sorted(kws), sorted(rk)))
    r.need(shapes, f"wrapped-method entries in {label}")
    return shapes


def run(report: core.Report):
    report.explanation = ("Key -> field -> slot tables from the service-config dictionary through RetryInfo / Method.timeout to the "
                          "keywords of api_core's Retry and wrap_method in the transport templates, with sync/async sibling agreement.")
    report.assumptions.append("api_core Retry/AsyncRetry keyword semantics (initial, maximum, multiplier, deadline, predicate) as documented")
    check_python(report)
    lib = Lib()
    a = check_table(report, lib, SVC + "transports/base.py.j2", "base (sync)", "retries.Retry", "gapic_v1.method.wrap_method")
    b = check_table(report, lib, SVC + "transports/grpc_asyncio.py.j2", "grpc_asyncio", "retries.AsyncRetry", "self._wrap_method")
    c = check_table(report, lib, SVC + "transports/rest_asyncio.py.j2", "rest_asyncio", "retries.AsyncRetry", "self._wrap_method")
    r3 = report.rule("C09.3", "sync and async wrapped-method tables pass the same keyword sets", floor=2)
    for name, other in (("grpc_asyncio", b), ("rest_asyncio", c)):
        r3.instance(name)
        r3.check(a == other, lib.path(SVC + "_shared_macros.j2"), 0, f"keyword sets sync {a} vs {name} {other}",
                 "sync and async tables disagree on the keywords they pass")
    if report.tier == "thorough":
        ads = Lib(core.ADS_TEMPLATES)
        check_table(report, ads, "%namespace/%name/%version/%sub/services/%service/transports/base.py.j2", "ads base",
                    "retries.Retry", "gapic_v1.method.wrap_method")
