"""C01 - every generated library is valid, importable Python (structural clauses).

Rules (DESIGN.md section 4, C01):
  C01.1   every covering skeleton variant of every template that emits a .py file parses
  C01.2   template <-> schema interface closure (typed access paths, filters, tests,
          include/import/extends targets, macro call arity)
  C01.2b  printed holes are printable (no wrapper object / collection repr in code)
  C01.3   literal global names read in a skeleton are bound at module level in that
          (consistent) variant; __all__ entries are bound
  C01.4+  see c01_extra.py (cross-module names, transport gating, with_context, JSON)
"""
from __future__ import annotations

import ast
import multiprocessing
import os
import time

from jinja2 import nodes

from .. import core
from ..constraints import CONSTRAINTS, table as constraint_table
from ..pymodel import PyModel
from ..pyscope import unbound_globals, dunder_all, PURE_HOLE, ScopeChecker, module_bindings
from ..tmodel import TemplateSet, cover, SymDict, Sym, root_of, render, Infeasible, f_atoms, f_eval, f_and
from ..tyenv import TyEnv

PY_SUFFIX = ".py.j2"

# names a skeleton may read without a module-level binding, with reasons (per-name exceptions)
NAME_EXCEPTIONS = {
    # (template basename, name): reason
    ("client.py.j2", "HAS_ASYNC_REST_DEPENDENCIES"):
        "O-13: read sits behind `label == \"rest_asyncio\"`, a label the library does not offer when the binding guard is false",
    ("client.py.j2", "ASYNC_REST_EXCEPTION"):
        "O-13: same short-circuit as HAS_ASYNC_REST_DEPENDENCIES",
}


def calling_forms(pm: PyModel):
    ci = pm.cls("gapic.samplegen_utils.types.CallingForm")
    core_rule_need(ci is not None, "class CallingForm")
    names = [k for k, m in ci.members.items() if m.kind == "const"]
    return names


def core_rule_need(cond, anchor):
    if not cond:
        raise core.AnalysisError("C01", anchor, "anchor missing")


def reachable_calling_forms(pm: PyModel):
    """members CallingForm.method_default can return (the only forms auto-generated samples use)"""
    fi = pm.func("gapic.samplegen_utils.types.CallingForm.method_default")
    out = []
    for n in ast.walk(fi.node):
        if isinstance(n, ast.Attribute) and isinstance(n.value, ast.Name) and n.value.id == "cls" and n.attr not in out:
            out.append(n.attr)
    return out


def sample_profiles(pm: PyModel):
    forms = calling_forms(pm)
    enum = SymDict("calling_form_enum", {f: "CF." + f for f in forms})
    reach = reachable_calling_forms(pm)
    core_rule_need(len(reach) >= 5 and set(reach) <= set(forms), "CallingForm.method_default return values")
    profiles = []
    for f in reach:
        for transport in ("grpc", "grpc-async", "rest"):
            for resp in ([{"print": ["%s", "$resp"]}], []):
                if not resp and f in ("RequestPaged", "RequestPagedAll", "LongRunningRequestPromise"):
                    continue  # K-paged-void / K-lro-void: these forms never have a void response
                sample = SymDict("sample", transport=transport, response=resp,
                                 request=SymDict("sample.request", flattenable=False))
                profiles.append((f"{f}/{transport}/{'resp' if resp else 'void'}",
                                 {"calling_form_enum": enum, "calling_form": "CF." + f, "sample": sample}))
    return profiles


def _summ_val(sk):
    f = sk.valuation.forced
    return {k: v for k, v in list(f.items())[:12]}


def conj(guards):
    f = ("c", True)
    for g in guards:
        f = f_and(f, g)
    return f


def subterms(t):
    yield t
    if t[0] in ("attr", "elem", "key", "idx", "item", "call", "filter"):
        yield from subterms(t[1])
    if t[0] in ("call", "filter"):
        for a in (t[2] if t[0] == "call" else t[3]):
            if isinstance(a, tuple):
                yield from subterms(a)


def canon_of_term(t) -> str:
    k = t[0]
    if k == "root":
        return t[1]
    if k == "attr":
        return canon_of_term(t[1]) + "." + t[2]
    if k == "elem":
        return "ELEM(" + canon_of_term(t[1]) + ")"
    if k == "key":
        return "KEY(" + canon_of_term(t[1]) + ")"
    if k == "call":
        return canon_of_term(t[1]) + "(" + ", ".join(canon_of_term(a) for a in t[2]) + ")"
    if k == "filter":
        return canon_of_term(t[1]) + "|" + t[2]
    if k == "item":
        return canon_of_term(t[1]) + "[" + canon_of_term(t[2]) + "]"
    if k == "idx":
        return canon_of_term(t[1]) + f"[{t[2]}]"
    if k == "const":
        return repr(t[1])
    return str(t[1]) if len(t) > 1 else "?"


def strip_filters(c: str) -> str:
    import re
    return re.sub(r"\|(list|sort|unique|reverse)\(\)", "", c)


def positive_atoms(f, pos=True, out=None):
    """atoms that must be true for formula f to hold (conjunctive part only)."""
    if out is None:
        out = set()
    k = f[0]
    if k == "a" and pos:
        out.add(f[1])
    elif k == "loop" and pos:
        out.add("LOOP:" + f[1])
    elif k == "n":
        positive_atoms(f[1], not pos, out)
    elif k == "&" and pos:
        positive_atoms(f[1], True, out)
        positive_atoms(f[2], True, out)
    elif k == "|" and not pos:
        positive_atoms(f[1], False, out)
        positive_atoms(f[2], False, out)
    return out


TRANSPORT_PROFILES = (["grpc"], ["rest"], ["grpc", "rest"])
JINJA_GLOBALS = {"loop", "caller", "varargs", "kwargs", "range", "dict", "lipsum", "cycler", "joiner", "namespace"}


def mentions(ts, name, needle, seen=None) -> bool:
    """Does the template, or anything it extends / imports / includes, mention `needle`?"""
    seen = seen if seen is not None else set()
    if name in seen or not ts.exists(name):
        return False
    seen.add(name)
    if needle in ts.source(name):
        return True
    tree = ts.parse(name)
    for n in tree.find_all((nodes.Include, nodes.Import, nodes.FromImport, nodes.Extends)):
        if isinstance(n.template, nodes.Const) and mentions(ts, n.template.value, needle, seen):
            return True
    return False


def template_roots(name):
    if name.startswith("examples/"):
        return {"sample", "imports", "calling_form", "calling_form_enum", "trim_blocks", "lstrip_blocks"}
    roots = {"api", "opts", "snippet_index"}
    if "%service" in name:
        roots.add("service")
    if "%proto" in name:
        roots.add("proto")
    return roots


def analyse_template(args):
    root, name, tier, profile = args
    t0 = time.time()
    pm = _pm()
    ts = TemplateSet(root, unfold=_unfold())
    out = {"template": name, "parse_fail": [], "unbound": [], "misses": [], "unprintable": [], "visited": set(),
           "notes": [], "opaque": [], "unknown_roots": [], "all_unbound": [], "profile": profile[0] if profile else None,
           "global_reads": 0}
    want2 = tier == "thorough"
    seeds = ((True, 1), (False, 1)) + (((True, 2),) if want2 else ())
    roots = template_roots(name)
    kw = dict(constraints=CONSTRAINTS, loop_arities=(0, 1, 2) if want2 else (0, 1), seeds=seeds, known_roots=roots)
    runs = []
    if name.startswith("tests/") and tier == "quick":
        kw["max_runs"] = 150  # emitted tests only feed C01.1/C01.2; the full search runs in the thorough tier
    if profile:
        runs.append((profile[0], cover(ts, name, const_roots=profile[1], **kw)))
    elif mentions(ts, name, "opts.transport"):
        # the transport option has a finite domain: enumerate it instead of treating it symbolically
        for tp in TRANSPORT_PROFILES:
            cr = {"opts": SymDict("opts", transport=list(tp))}
            runs.append(("transport=" + "+".join(tp), cover(ts, name, const_roots=cr, **kw)))
    else:
        runs.append((None, cover(ts, name, **kw)))
    out["stats"] = {"runs": 0, "sites_outcomes": 0}
    is_py = name.endswith(PY_SUFFIX)
    is_sample = name.startswith("examples/")
    ty = TyEnv(pm)
    if is_sample:
        ty.root_types = {"sample": ("any",), "imports": ("any",), "calling_form": ("any",), "calling_form_enum": ("any",)}
    seen_use = set()
    typed_steps = 0
    nvar = 0
    bind_guards, use_guards = {}, {}
    profile_roots = {}
    for pname, (variants, stats) in runs:
        out["stats"]["runs"] += stats["runs"]
        out["stats"]["sites_outcomes"] += stats["sites_outcomes"]
        nvar += len(variants)
        for sk in variants:
            val = dict(_summ_val(sk))
            if pname:
                val["PROFILE"] = pname
            for s in sk.segs:
                out["visited"].add(s.tmpl)
            out["notes"].extend(sk.notes)
            out["opaque"].extend(sk.opaque)
            # interface closure on every used access path
            for (canon, kind), (term, tmpl, line, guards, _fctx) in sk.uses.items():
                if kind in ("first", "last"):
                    # first/last of a possibly empty sequence: jinja returns Undefined, StrictUndefined raises on use
                    key = (kind, tmpl, line, canon)
                    if key in seen_use:
                        continue
                    seen_use.add(key)
                    out["first_sites"] = out.get("first_sites", 0) + 1
                    atoms = set()
                    for g in guards:
                        atoms |= positive_atoms(g)
                    core_base = strip_filters(canon)
                    if not any(strip_filters(a) == core_base or a == "LOOP:" + core_base for a in atoms):
                        out.setdefault("first_unguarded", []).append((tmpl, line, canon, kind))
                    continue
                if (canon, kind) in seen_use:
                    continue
                seen_use.add((canon, kind))
                r = root_of(term)
                if r is not None and r not in roots and r not in JINJA_GLOBALS:
                    out["unknown_roots"].append((r, tmpl, line, canon, kind))
                    continue
                ty.misses = []
                t = ty.typeof(term)
                typed_steps += 1
                for m in ty.misses:
                    out["misses"].append((tmpl, line, canon, m.cls, m.attr, m.why))
                if kind == "print" and is_py:
                    why = ty.printable(t)
                    if why:
                        out["unprintable"].append((tmpl, line, canon, why))
            if not is_py:
                continue
            err = sk.syntax_error()
            if err is not None:
                w = sk.where_line(err.lineno or 1)
                lines = sk.text.split("\n")
                ltxt = lines[(err.lineno or 1) - 1] if err.lineno and err.lineno <= len(lines) else ""
                out["parse_fail"].append((w[0], w[1], err.msg, sk.describe(ltxt.strip())[:160], val))
                continue
            if name.startswith("tests/"):
                continue  # name binding inside emitted tests is C13's concern (not applicable), see DESIGN
            tree = sk.tree()
            sc = ScopeChecker(tree)
            un, bound, reads = sc.run(), sc.module_bound, sc.global_reads
            out["global_reads"] += reads
            # guard formulas of conditional bindings and of uses, for the implication search below
            for nm, st in module_bindings(tree):
                if PURE_HOLE.fullmatch(nm):
                    continue
                g = sk.guards_of_node(st)
                bind_guards.setdefault((pname, sk.describe(nm)), set()).add(g)
            for nm, node in sc.global_read_nodes:
                if PURE_HOLE.fullmatch(nm):
                    continue
                use_guards.setdefault((pname, sk.describe(nm)), {}).setdefault(sk.guards_of_node(node), sk.where(node))
            for nm, node in un:
                w = sk.where(node)
                out["unbound"].append((w[0], w[1], sk.describe(nm), nm, val))
            lazy = any(isinstance(st, ast.FunctionDef) and st.name == "__getattr__" for st in tree.body)
            for nm, node in dunder_all(tree):
                if PURE_HOLE.fullmatch(nm) or lazy:
                    continue  # PEP 562 module __getattr__ resolves the listed names lazily
                if nm not in bound:
                    w = sk.where(node)
                    out["all_unbound"].append((w[0], w[1], sk.describe(nm), val))
    # ---- implication search (C01.3b): does every guard under which a name is used imply a guard under which it is bound?
    out["implications"] = 0
    out["unbound_by_implication"] = []
    if is_py and not name.startswith("tests/"):
        import itertools
        reported = {(d, n) for (_, _, d, n, _) in out["unbound"]}
        for (pname, dname), uses in use_guards.items():
            binds = bind_guards.get((pname, dname))
            if not binds or () in binds:
                continue   # never bound at module level (local / attribute) or bound unconditionally
            bformulas = [conj(g) for g in binds]
            for ug, w in uses.items():
                uf = conj(ug)
                atoms = sorted(set().union(f_atoms(uf), *[f_atoms(b) for b in bformulas]))
                if not atoms or len(atoms) > 12:
                    continue
                out["implications"] += 1
                tried = 0
                for vals in itertools.product((True, False), repeat=len(atoms)):
                    env = dict(zip(atoms, vals))
                    try:
                        if not f_eval(uf, env) or any(f_eval(b, env) for b in bformulas):
                            continue
                    except KeyError:
                        continue
                    forced = {}
                    for a, v in env.items():
                        forced[a] = (1 if v else 0) if a.startswith("LOOP:") else v
                    cr = None
                    if pname and pname.startswith("transport="):
                        cr = {"opts": SymDict("opts", transport=pname[len("transport="):].split("+"))}
                    elif profile:
                        cr = profile[1]
                    tried += 1
                    if tried > 6:
                        break
                    try:
                        sk2 = render(ts, name, forced=forced, default=True, constraints=CONSTRAINTS, const_roots=cr, known_roots=roots)
                    except Infeasible:
                        continue
                    if sk2.tree() is None:
                        continue
                    un2, _, _ = unbound_globals(sk2.tree())
                    hit = [(n2, nd) for n2, nd in un2 if sk2.describe(n2) == dname]
                    if hit and (dname, hit[0][0]) not in reported and (os.path.basename(name), hit[0][0]) not in NAME_EXCEPTIONS:
                        w2 = sk2.where(hit[0][1])
                        out["unbound_by_implication"].append((w2[0], w2[1], dname, {k: v for k, v in forced.items()}))
                        reported.add((dname, hit[0][0]))
                        break
    out["typed_steps"] = typed_steps
    out["ty_stats"] = ty.stats
    out["n_variants"] = nvar
    out["wall"] = round(time.time() - t0, 2)
    out["visited"] = sorted(out["visited"])
    return out


_PM = None
_UNFOLD = None


def _unfold():
    global _UNFOLD
    if _UNFOLD is None:
        from ..pymodel import string_properties
        _UNFOLD = {k: v[0] for k, v in string_properties(_pm()).items()}
    return _UNFOLD



def _pm():
    global _PM
    if _PM is None:
        _PM = PyModel()
    return _PM


def registered_filters_tests(pm: PyModel):
    fn = pm.func("gapic.generator.generator.Generator.__init__").node
    filters, tests = set(), set()
    for n in ast.walk(fn):
        if isinstance(n, ast.Assign) and len(n.targets) == 1 and isinstance(n.targets[0], ast.Subscript):
            t = n.targets[0]
            base = ast.unparse(t.value)
            if isinstance(t.slice, ast.Constant) and isinstance(t.slice.value, str):
                if base.endswith("_env.filters"):
                    filters.add(t.slice.value)
                elif base.endswith("_env.tests"):
                    tests.add(t.slice.value)
    return filters, tests


def env_config(pm: PyModel):
    """The jinja2.Environment(...) call in Generator.__init__ must be the one Engine T mirrors."""
    fn = pm.func("gapic.generator.generator.Generator.__init__").node
    for n in ast.walk(fn):
        if isinstance(n, ast.Call) and ast.unparse(n.func).endswith("jinja2.Environment"):
            return {k.arg: ast.unparse(k.value) for k in n.keywords}
    return None


def run(report: core.Report):
    tier = report.tier
    pm = _pm()
    report.explanation = (
        "Engine S builds Python-with-holes skeletons of every template for a covering set of consistent "
        "guard valuations (every if/elif/else outcome, loop arity 0/1[/2]) and parses them (C01.1); every access "
        "path used by a template is typed through the repository's class table (C01.2); literal global names are "
        "resolved against module-level bindings of the same variant (C01.3). Nothing is rendered or executed.")
    r1 = report.rule("C01.1", "every covering skeleton variant of a .py template parses", floor=300)
    r2 = report.rule("C01.2", "every template access path resolves in the typed schema environment; filters/tests/"
                              "include targets exist; macro calls match arity", floor=1000)
    r2b = report.rule("C01.2b", "printed holes are text (no object/collection repr in emitted code)", floor=200)
    r2c = report.rule("C01.2c", "`|first` / `|last` only on sequences an enclosing guard proves non-empty", floor=1)
    r3 = report.rule("C01.3", "literal global names read in a skeleton are bound in the same consistent variant", floor=1000)

    cfg = env_config(pm)
    r2.need(cfg is not None, "jinja2.Environment(...) in Generator.__init__")
    r2.check(cfg.get("trim_blocks") == "True" and cfg.get("lstrip_blocks") == "True"
             and "jinja2.ext.do" in cfg.get("extensions", "") and "StrictUndefined" in cfg.get("undefined", ""),
             os.path.join(core.GAPIC, "generator/generator.py"), 56, "jinja2.Environment(" + str(cfg) + ")",
             "Engine T mirrors trim_blocks/lstrip_blocks/do-extension/StrictUndefined; the generator's environment differs")

    filters, tests = registered_filters_tests(pm)
    r2.need(len(filters) >= 6, "self._env.filters[...] registrations")
    import jinja2.defaults as jd
    known_filters = set(jd.DEFAULT_FILTERS) | filters
    known_tests = set(jd.DEFAULT_TESTS) | tests

    roots = [core.TEMPLATES] + ([core.ADS_TEMPLATES] if tier == "thorough" else [])
    jobs = []
    for root in roots:
        ts = TemplateSet(root)
        names = ts.names()
        report.count("templates_on_disk", len(names))
        # static Jinja-AST checks over every template (public and private)
        for name in names:
            tree = ts.parse(name)
            for n in tree.find_all((nodes.Filter, nodes.Test, nodes.Include, nodes.Import, nodes.FromImport, nodes.Extends)):
                if isinstance(n, nodes.Filter):
                    r2.instance()
                    r2.check(n.name in known_filters, ts.path(name), n.lineno, f"filter |{n.name}",
                             f"filter '{n.name}' is neither a Jinja built-in nor registered in Generator.__init__")
                elif isinstance(n, nodes.Test):
                    r2.instance()
                    r2.check(n.name in known_tests, ts.path(name), n.lineno, f"test is {n.name}",
                             f"test '{n.name}' is neither a Jinja built-in nor registered in Generator.__init__")
                else:
                    tn = n.template
                    if isinstance(tn, nodes.Const):
                        r2.instance()
                        r2.check(ts.exists(tn.value), ts.path(name), n.lineno,
                                 f"{type(n).__name__} {tn.value}", f"template '{tn.value}' does not exist under {core.relpath(root)}")
        for name in ts.public_names():
            if name.startswith("examples/"):
                if root == core.ADS_TEMPLATES:
                    # old-naming (required by the ads set) switches autogen snippets off; the ads sample template is
                    # only reachable through hand-written sample configs, which no property covers
                    r1.note("ads-templates/examples/* not analysed: unreachable under the autogen profile")
                    continue
                if name.endswith("sample.py.j2"):
                    for prof in sample_profiles(pm):
                        jobs.append((root, name, tier, prof))
                continue
            jobs.append((root, name, tier, None))

    with multiprocessing.Pool(min(16, os.cpu_count() or 4)) as pool:
        results = pool.map(analyse_template, jobs, chunksize=1)

    visited = set()
    py_templates = 0
    for (root, name, _, prof), res in zip(jobs, results):
        ts_path = lambda t: os.path.join(root, t)
        visited.update((root, v) for v in res["visited"])
        report.count("skeleton_variants", res["n_variants"])
        report.count("valuation_runs", res["stats"]["runs"])
        report.count("decision_outcomes_covered", res["stats"]["sites_outcomes"])
        report.count("typed_access_paths", res["typed_steps"])
        for k, v in res["ty_stats"].items():
            report.count("steps_" + k, v)
        if name.endswith(PY_SUFFIX):
            py_templates += 1
            r1.instance({"template": name, "variants": res["n_variants"], "profile": res["profile"]}, n=res["n_variants"])
            r1.ok(res["n_variants"] - len(res["parse_fail"]))
            r3.instance(n=res.get("global_reads", 0))
            r3.ok(res.get("global_reads", 0))
        r2.instance(n=res["typed_steps"])
        r2.ok(res["typed_steps"])
        r2b.instance(n=sum(1 for _ in res["visited"]))
        for tmpl, line, msg, ltxt, val in res["parse_fail"]:
            r1.violation(ts_path(tmpl), line, f"{ltxt}", f"skeleton does not parse: {msg}", valuation=val,
                         entry_template=name, profile=res["profile"])
        for tmpl, line, canon, cls, attr, why in res["misses"]:
            r2.violation(ts_path(tmpl), line, f"{canon} :: {cls}.{attr}", why, entry_template=name)
        for r, tmpl, line, canon, kind in res["unknown_roots"]:
            r2.violation(ts_path(tmpl), line, f"undefined name {r} used ({kind}) as {canon}",
                         f"template uses '{r}', which is neither bound by the template nor passed by the generator for "
                         f"{name}: StrictUndefined raises when it is {kind}ed/compared", entry_template=name)
        for note in res["notes"]:
            if note.startswith("macro ") and ("without argument" in note or "unexpected argument" in note):
                r2.violation(ts_path(name), 0, note.split(" at ")[0], note)
        r2c.instance(n=res.get("first_sites", 0))
        r2c.ok(res.get("first_sites", 0))
        for tmpl, line, base, which in res.get("first_unguarded", []):
            r2c.violation(ts_path(tmpl), line, f"{base}|{which}",
                          f"`|{which}` of a sequence that may be empty: Jinja yields Undefined and StrictUndefined raises "
                          f"when it is printed/tested; no enclosing guard asserts the sequence is non-empty",
                          entry_template=name)
        for tmpl, line, canon, why in res["unprintable"]:
            r2b.violation(ts_path(tmpl), line, f"{{{{ {canon} }}}}", why, entry_template=name)
        r2b.ok(res["typed_steps"])
        for tmpl, line, dname, raw, val in res["unbound"]:
            if (os.path.basename(name), raw) in NAME_EXCEPTIONS:
                r3.note(f"exception {raw} in {name}: {NAME_EXCEPTIONS[(os.path.basename(name), raw)]}")
                continue
            r3.violation(ts_path(tmpl), line, f"global name {dname} (emitted by {name})",
                         f"name '{dname}' is read but no import/def/assignment binds it at module level in this variant",
                         valuation=val, entry_template=name)
        r3.instance(n=res.get("implications", 0))
        r3.ok(res.get("implications", 0))
        for tmpl, line, dname, val in res.get("unbound_by_implication", []):
            r3.violation(ts_path(tmpl), line, f"global name {dname} (emitted by {name})",
                         f"name '{dname}' is used under a guard that does not imply any guard under which it is bound: unbound for the valuation shown",
                         valuation=val, entry_template=name)
        for tmpl, line, dname, val in res["all_unbound"]:
            r3.violation(ts_path(tmpl), line, f"__all__ entry {dname} (emitted by {name})",
                         f"__all__ lists '{dname}' but the module does not bind it in this variant", valuation=val)

    # private templates never reached from a public one are not analysed: say so
    for root in roots:
        ts = TemplateSet(root)
        for n in ts.names():
            b = n.split("/")[-1]
            if b.startswith("_") and b != "__init__.py.j2" and (root, n) not in visited:
                r1.note(f"private template not reached from any public template: {core.relpath(os.path.join(root, n))}")
    report.set("py_templates", py_templates)
    report.set("jobs", len(jobs))
    report.set("constraint_table", constraint_table())
    report.set("name_exceptions", {f"{k[0]}:{k[1]}": v for k, v in NAME_EXCEPTIONS.items()})
    report.assumptions += [
        "jinja2's lexer/parser (third party) gives the template AST with trim_blocks/lstrip_blocks applied",
        "all elements of one collection share one valuation per skeleton (per-element variation is covered across variants)",
        "atom constraints of vlib/constraints.py (each justified by a Python construct, re-checked by C01.K)",
    ]
    from . import c01_extra
    c01_extra.run(report, pm)
