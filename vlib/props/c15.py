"""C15 - gapic_metadata.json and the fix-up script describe the generated surface exactly.

  C15.1 API.gapic_metadata: transport table grpc -> (grpc, client_name), (grpc-async, async_client_name); rest -> (rest, client_name);
        every service (sorted) x transport x method (sorted) appended once; rpc key = raw rpc name; library method name derived from
        Method.client_method_name through to_snake_case (the renderer the client templates use); package names
  C15.2 renderer agreement: client templates name methods {client_method_name|snake_case} with filter snake_case = utils.to_snake_case,
        and classes by Service.client_name / async_client_name
  C15.3 fix-up script table: '<rpc|snake_case>': (<all request fields, required first, declaration order>) over every method of every service
  C15.4 legacy_flattened_fields = chain(required, optional) of partition(required?); partition returns (true list, false list) in order
"""
from __future__ import annotations

import ast
import re

from .. import core
from ..pymodel import pmatch, find_match, Alpha
from ..skq import D, Dn, Lib, M, SVC, pm, calls, classes, where
from ..tmodel import render
from .clientmodel import client_methods, CLIENT_T, ASYNC_T


def reaching_text(fn, expr, depth=0, seen=None) -> str:
    """source text of expr plus, transitively, of the definitions of the local names it mentions
    (assignments, loop iterables, comprehension generators) - a cheap def-use closure."""
    seen = seen if seen is not None else set()
    out = [ast.unparse(expr)]
    if depth > 6:
        return out[0]
    for n in ast.walk(expr):
        if isinstance(n, ast.Name) and n.id not in seen:
            seen.add(n.id)
            for st in ast.walk(fn):
                if isinstance(st, ast.Assign) and any(isinstance(t, ast.Name) and t.id == n.id for t in st.targets):
                    out.append(reaching_text(fn, st.value, depth + 1, seen))
                elif isinstance(st, (ast.For, ast.comprehension)) and any(isinstance(t, ast.Name) and t.id == n.id for t in ast.walk(st.target)):
                    out.append(reaching_text(fn, st.iter, depth + 1, seen))
    return " <- ".join(out)


def check_metadata(report):
    r = report.rule("C15.1", "gapic_metadata: transport/class table, sorted services and methods, raw rpc key, library method = "
                             "to_snake_case(client_method_name), package names", floor=7)
    m = pm()
    fi = m.func("gapic.schema.api.API.gapic_metadata")
    fn, p = fi.node, fi.module.path
    OPT = fn.args.args[1].arg
    consts = {k: m.const("gapic.schema.api", k) for k in ("TRANSPORT_GRPC", "TRANSPORT_GRPC_ASYNC", "TRANSPORT_REST")}
    r.instance(consts)
    r.check(consts == {"TRANSPORT_GRPC": "grpc", "TRANSPORT_GRPC_ASYNC": "grpc-async", "TRANSPORT_REST": "rest"}, p, 0, str(consts), "transport labels")
    # the transport/class table may be built in place or in a helper called from here: look one call level down as well
    from ..pynorm import normalizer
    N = normalizer(m)
    cands = [fi]
    for c in calls(fn):
        t = N._callee(fi, c, {})
        if t is not None and t[0].qual.startswith("gapic.schema.") and t[0] not in cands:
            cands.append(t[0])
    appends = []
    from .common_rules import guarded_list_items
    from ..pymodel import nfunc as _nf

    def table_items(cfi):
        raw = guarded_list_items(cfi.node)
        if any(g is not None for g, _ in raw):
            return raw, False
        return guarded_list_items(_nf(m, cfi, keep={"client_name", "async_client_name"})), True      # e.g. a comprehension over a table of kinds
    from .common_rules import local_env
    from ..pynorm import subst as _subst
    for cfi in cands:
        items_, normal_ = table_items(cfi)
        env_ = local_env(cfi.node)
        for guard, a0 in items_:
            if guard is None:
                continue
            # a condition hoisted into a local (`use_grpc = "grpc" in options.transport`) is read through its definition
            guard = ast.unparse(_subst(_subst(ast.parse(guard, mode="eval").body, env_), env_))
            kind = "grpc" if pmatch("'grpc' in _O_.transport", ast.parse(guard, mode="eval").body) is not None else \
                ("rest" if pmatch("'rest' in _O_.transport", ast.parse(guard, mode="eval").body) is not None else None)
            if kind is None:
                continue
            if isinstance(a0, ast.Tuple) and len(a0.elts) == 2 and isinstance(a0.elts[1], ast.Attribute) and isinstance(a0.elts[1].value, ast.Name):
                first = ast.unparse(a0.elts[0])
                if normal_:      # constants are inlined in the normal form: name them again
                    first = {repr(v): k for k, v in consts.items()}.get(first, first)
                appends.append((kind, f"({first}, <service>.{a0.elts[1].attr})"))
            else:
                appends.append((kind, ast.unparse(a0)))
    exp = [("grpc", "(TRANSPORT_GRPC, <service>.client_name)"), ("grpc", "(TRANSPORT_GRPC_ASYNC, <service>.async_client_name)"),
           ("rest", "(TRANSPORT_REST, <service>.client_name)")]
    r.instance("transport table")
    r.check(appends == exp, p, fn.lineno, str(appends), "grpc -> sync + asyncio client, rest -> sync client, each with its class name")
    # the loops, read off the normal form (sort keys given as lambdas or attrgetter, pairs precomputed in a list or not ...)
    from .common_rules import stmt_guards
    from ..pymodel import nfunc as _nfn
    nfm = _nfn(m, fi, keep={"to_snake_case", "client_method_name"})
    adds = [(g, st) for g, st in stmt_guards(nfm) if isinstance(st, ast.Expr) and isinstance(st.value, ast.Call)
            and ast.unparse(st.value.func).endswith(".methods.append") and ".rpcs.get_or_create(" in ast.unparse(st.value.func)]
    r.instance("library method name")
    r.check(len(adds) == 1, p, fn.lineno, f"{len(adds)} appends to rpcs[...].methods", "exactly one library method per rpc and client")
    if len(adds) == 1:
        g, st = adds[0]
        fors = [x for x in g if x[0] == "for"]
        conds = [x for x in g if x[0] != "for"]
        svc = [x for x in fors if x[2] == "sorted(self.services.values(), key=lambda _k: _k.name)" or
               (x[2].startswith("sorted(self.services.values(), key=lambda ") and x[2].endswith(".name)"))]
        r.instance("services sorted")
        r.check(len(svc) == 1, p, fn.lineno, str([x[2][:70] for x in fors]), "every service of the API, sorted by name")
        SV = svc[0][1] if svc else "service"
        mth = [x for x in fors if x[2].startswith(f"sorted({SV}.methods.values(), key=lambda ") and x[2].endswith(".name)")]
        r.instance("methods sorted")
        r.check(len(mth) == 1, p, fn.lineno, str([x[2][:70] for x in fors]), "every method of the service, sorted by name")
        MV = mth[0][1] if mth else "method"
        r.check(ast.unparse(st.value.args[0]) == f"to_snake_case({MV}.client_method_name)", p, fn.lineno, ast.unparse(st.value.args[0])[:120],
                "the library method name must be to_snake_case(Method.client_method_name): the same name the client templates define "
                "(keyword RPCs get '_', internal ones a leading '_')")
        r.check(not conds, p, fn.lineno, f"append guarded by {conds}", "no rpc may be left out of the metadata")
        r.instance("rpc key")
        key = st.value.func.value.value           # <transport>.rpcs.get_or_create(<key>)
        r.check(isinstance(key, ast.Call) and len(key.args) == 1 and ast.unparse(key.args[0]) == f"{MV}.name", p, fn.lineno,
                ast.unparse(key)[:120], "rpcs are keyed by the raw proto rpc name")
    ctor = [c for c in calls(fn) if ast.unparse(c.func) == "gapic_metadata_pb2.GapicMetadata"]
    r.need(len(ctor) == 1, "GapicMetadata(...)")
    from ..pymodel import nfunc
    nctor = [c for c in ast.walk(nfunc(m, fi)) if isinstance(c, ast.Call) and ast.unparse(c.func) == "gapic_metadata_pb2.GapicMetadata"]
    k = {x.arg: ast.unparse(x.value) for x in (nctor[0] if nctor else ctor[0]).keywords}
    r.instance("packages")
    r.check(k.get("proto_package") == "self.naming.proto_package" and
            k.get("library_package") == "'.'.join(self.naming.module_namespace + (self.naming.versioned_module_name,))", p, ctor[0].lineno,
            f"proto_package={k.get('proto_package')} library_package={k.get('library_package')}",
            "protoPackage is the API's proto package; libraryPackage is namespace + versioned module name (the import path of the library)")


def check_renderers(report, lib: Lib):
    r = report.rule("C15.2", "client templates define methods as {client_method_name|snake_case} (filter = utils.to_snake_case) on classes "
                             "named by Service.client_name / async_client_name", floor=6)
    m = pm()
    init = m.func("gapic.generator.generator.Generator.__init__").node
    reg = [n for n in ast.walk(init) if isinstance(n, ast.Assign) and ast.unparse(n.targets[0]).endswith("filters['snake_case']")]
    r.instance("snake_case filter")
    r.check(len(reg) == 1 and ast.unparse(reg[0].value) == "utils.to_snake_case", m.module("gapic.generator.generator").path, init.lineno,
            ast.unparse(reg[0].value) if reg else "<none>", "the snake_case filter must be the same function the metadata uses")
    n = 0
    for is_async in (False, True):
        for cm in client_methods(lib, is_async):
            n += 1
            cls = None
            for c in classes(cm.sk.tree()):
                if cm.fn in c.body:
                    cls = c
            r.instance({"class": Dn(cm.sk, cls.name) if cls else None, "method": cm.name})
            exp = ("Base" if cm.atom("service.is_internal") else "") + "{service.name}" + ("AsyncClient" if is_async else "Client")
            r.check(cls is not None and Dn(cm.sk, cls.name) == exp, *cm.where(), f"class {Dn(cm.sk, cls.name) if cls else None}",
                    f"methods must be defined on the class named by Service.{'async_' if is_async else ''}client_name ({exp})")
    r.need(n >= 4, "client methods")


def check_fixup(report, lib: Lib):
    r3 = report.rule("C15.3", "fix-up table: every rpc of every service once, key = rpc|snake_case, value = all legacy_flattened_fields names in order", floor=3)
    tname = "scripts/fixup_%name_%version_keywords.py.j2"
    r3.need(lib.ts.exists(tname), tname)
    seen = 0
    for sk in lib.variants(tname, transport=None, want2=True):
        for n in ast.walk(sk.tree()):
            if isinstance(n, (ast.Assign, ast.AnnAssign)) and D(sk, n.target if isinstance(n, ast.AnnAssign) else n.targets[0]) == "METHOD_TO_PARAMS":
                d = n.value
                r3.need(isinstance(d, ast.Dict), "METHOD_TO_PARAMS = {...}")
                for k, v in zip(d.keys, d.values):
                    ks = D(sk, k)
                    if not ks.startswith("'{"):
                        continue
                    seen += 1
                    r3.instance({"entry": ks})
                    X = "ELEM([ELEM(ELEM(api.services.values()).methods.values())])"
                    seg = sk.seg_of_node(k)
                    loops = [g for g in seg.guards if g[0] == "loop"]
                    r3.check(ks.endswith(".name|snake_case()}'"), *where(sk, k, lib.root), ks, "keys are the snake-cased raw rpc names")
                    extra = [g for g in seg.guards if g[0] not in ("loop",)]
                    r3.check(not extra, *where(sk, k, lib.root), f"entry guarded by {extra}", "no rpc may be filtered out of the table")
                    r3.check(isinstance(v, ast.Tuple), *where(sk, v, lib.root), f"value of {ks}: {D(sk, v)[:80]} is a {type(v).__name__}",
                             "every table value must be a tuple literal for every number of request fields; `('name')` (one field, no trailing comma) "
                             "is a plain string, and the script would then treat each CHARACTER of the name as a parameter")
                    if isinstance(v, ast.Tuple):
                        vals = [D(sk, e) for e in v.elts]
                        base = ks[2:-len(".name|snake_case()}'")]
                        exp = "'{ELEM(" + base + ".legacy_flattened_fields.values()).name}'"
                        # iterating the mapping itself yields its keys, which C15.4 shows to be the field names
                        exp_k = "'{ELEM(" + base + ".legacy_flattened_fields)}'"
                        r3.check(all(x in (exp, exp_k) for x in vals), *where(sk, v, lib.root), str(vals)[:160], f"values must be the field names of legacy_flattened_fields ({exp})")
                        for e in v.elts:
                            es = sk.seg_of_node(e)
                            ex = [g for g in es.guards[len(seg.guards):] if g[0] != "loop"]
                            r3.check(not ex, *where(sk, e, lib.root), f"field guarded by {ex}", "every request field must be listed")
                            lp = [g for g in es.guards if g[0] == "loop" and g[1].endswith(".legacy_flattened_fields")]
                            # (an order-preserving projection `|map(attribute='name')` of the values is the same sequence)
                            r3.check(len(lp) == 1 and re.sub(r"\|map\(attribute='name'\)(\|list\(\))?$", "", lp[0][3]).endswith(
                                (".legacy_flattened_fields.values()", ".legacy_flattened_fields", ".legacy_flattened_fields.keys()")), *where(sk, e, lib.root),
                                     f"iterated as {lp[0][3] if lp else None}", "fields must keep the order of legacy_flattened_fields")
    r3.need(seen >= 1, "METHOD_TO_PARAMS entries")
    # the collection of methods: all services x all methods
    src = lib.ts.source(tname)
    tree = lib.ts.parse(tname)
    from jinja2 import nodes
    fors = [f for f in tree.find_all(nodes.For)]
    outer = [f for f in fors if isinstance(f.iter, nodes.Call) and isinstance(f.iter.node, nodes.Getattr) and f.iter.node.attr == "values"
             and isinstance(f.iter.node.node, nodes.Getattr) and f.iter.node.node.attr in ("services", "methods") and f.test is None]
    if len(outer) == 1:
        # one loop over the services whose body extends the list with ALL methods of the service
        for f in outer:
            for c in f.find_all(nodes.Call):
                if isinstance(c.node, nodes.Getattr) and c.node.attr == "extend" and len(c.args) == 1 and isinstance(c.args[0], nodes.Call) \
                        and isinstance(c.args[0].node, nodes.Getattr) and c.args[0].node.attr == "values" \
                        and isinstance(c.args[0].node.node, nodes.Getattr) and c.args[0].node.node.attr == "methods":
                    outer = outer + [c]
    r3.instance("all services x all methods")
    r3.check(len(outer) >= 2, lib.path(tname), 0, "loops over api.services.values() and service.methods.values()", "the table must be collected from every method of every service, unfiltered")


def check_legacy(report):
    r4 = report.rule("C15.4", "legacy_flattened_fields: required fields first, otherwise declaration order; partition keeps order and returns (true, false)", floor=2)
    m = pm()
    lf = m.func("gapic.schema.wrappers.Method.legacy_flattened_fields")
    p = lf.module.path
    from ..pymodel import nmatch
    stable = nmatch(m, "collections.OrderedDict(((_F_.name, _F_) for _F_ in sorted(self.input.fields.values(), key=lambda _G_: not _G_.required)))", lf)
    a = [n for n in ast.walk(lf.node) if isinstance(n, ast.Assign) and isinstance(n.targets[0], ast.Tuple) and len(n.targets[0].elts) == 2
         and pmatch("utils.partition(lambda _F_: _F_.required, self.input.fields.values())", n.value) is not None]
    r4.instance("partition call")
    # either partition + chain, or a STABLE sort whose key is `not required` (False sorts first; ties keep declaration order)
    # or: the message's own required_fields (checked to be the declaration-ordered filter on `required`) followed by the rest
    split = nmatch(m, "collections.OrderedDict(((_F_.name, _F_) for _F_ in chain(self.input.required_fields, (_G_ for _G_ in self.input.fields.values() if not _G_.required))))", lf) \
        or nmatch(m, "collections.OrderedDict(((_F_.name, _F_) for _F_ in chain(self.input.required_fields, [_G_ for _G_ in self.input.fields.values() if not _G_.required])))", lf)
    if split is not None:
        rq = m.func("gapic.schema.wrappers.MessageType.required_fields")
        split = split if nmatch(m, "[_F_ for _F_ in self.fields.values() if _F_.required]", rq) is not None else None
    r4.check(len(a) == 1 or stable is not None or split is not None, p, lf.node.lineno, "required, optional = utils.partition(lambda f: f.required, self.input.fields.values())",
             "all request fields must be partitioned by `required`")
    if a:
        REQ, OPT = [e.id for e in a[0].targets[0].elts]
        rets = [n for n in ast.walk(lf.node) if isinstance(n, ast.Return)]
        ok = len(rets) == 1 and pmatch("collections.OrderedDict(((_F_.name, _F_) for _F_ in chain(_R_, _O_)))", rets[0].value, {"_R_": REQ, "_O_": OPT}) is not None
        r4.check(ok, p, lf.node.lineno, ast.unparse(rets[0].value) if rets else "", "required fields first, then the others, keyed by attribute name")
    pt = m.func("gapic.utils.code.partition")
    fn = pt.node
    PRED, IT = fn.args.args[0].arg, fn.args.args[1].arg
    r4.instance("partition")
    res = [n for n in ast.walk(fn) if isinstance(n, (ast.Assign, ast.AnnAssign)) and ast.unparse(n.value) == "([], [])"]
    ok = len(res) == 1
    if ok:
        R = (res[0].target if isinstance(res[0], ast.AnnAssign) else res[0].targets[0]).id
        loops = [n for n in fn.body if isinstance(n, ast.For)]
        ok = len(loops) == 1 and ast.unparse(loops[0].iter) == IT and isinstance(loops[0].target, ast.Name) and len(loops[0].body) == 1 \
            and pmatch("_R_[int(_P_(_I_))].append(_I_)", loops[0].body[0].value, {"_R_": R, "_P_": PRED, "_I_": loops[0].target.id}) is not None
        rets = [n for n in ast.walk(fn) if isinstance(n, ast.Return)]
        ok = ok and len(rets) == 1 and pmatch("(_R_[1], _R_[0])", rets[0].value, {"_R_": R}) is not None
    r4.check(ok, pt.module.path, fn.lineno, "utils.partition", "partition must append in iteration order and return (true list, false list)")


def run(report: core.Report):
    report.explanation = ("AST pattern / def-use rules on API.gapic_metadata and the legacy flattening helpers, renderer agreement with the "
                          "client templates' method and class names, and slot rules on the fix-up script skeleton.")
    lib = Lib()
    check_metadata(report)
    check_renderers(report, lib)
    check_fixup(report, lib)
    check_legacy(report)
