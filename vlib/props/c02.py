"""C02 - generated message and enum classes are wire-compatible with input descriptors
(slot agreement; the byte/JSON round trip is not claimed).

  C02.1 the field loop ranges over all of MessageType.fields.values(); nested messages/enums and
        top-level enums/messages are all emitted (unfiltered loops, map entries excepted)
  C02.2 non-map field declaration slots
  C02.3 map field declaration slots
  C02.4 enum body slots
  C02.5 module manifest / package / marshal slots
  C02.6 Python side: proto_type derivation, Field.name suffix, _get_fields / _load_message exhaustiveness,
        pass-through descriptor fields are not shadowed
"""
from __future__ import annotations

import ast
import re

from .. import core
from ..skq import Lib, D, Dn, where, val, TYPES, pm, classes, calls, kw
from ..pymodel import pmatch

PROTO_T = TYPES + "%proto.py.j2"
ADS_PROTO_T = "%namespace/%name/%version/%sub/types/%proto.py.j2"
P = "{proto.disambiguate('proto')}"


def field_decls(sk, cls: ast.ClassDef):
    for st in cls.body:
        if isinstance(st, ast.AnnAssign) and isinstance(st.value, ast.Call):
            f = D(sk, st.value.func)
            if f.endswith(("Field", "MapField", "RepeatedField")):
                yield st


def check_proto_template(report, lib: Lib, tname: str, tier: str):
    r1 = report.rule("C02.1", "field / nested / top-level loops are unfiltered (map entry messages excepted)", floor=5)
    r2 = report.rule("C02.2", "non-map field declaration: name, proto type, number, presence/oneof, cardinality, type ref", floor=6)
    r3 = report.rule("C02.3", "map field declaration: key/value proto types, number, value type ref", floor=2)
    r4 = report.rule("C02.4", "enum body: NAME = number over all values", floor=2)
    r5 = report.rule("C02.5", "module manifest: package, marshal, manifest entries = declared classes", floor=3)
    variants = lib.variants(tname, transport=None, want2=(tier == "thorough"))
    r1.need(variants, f"skeletons of {tname}")
    root = lib.root
    seen_nonmap = seen_map = 0
    for sk in variants:
        tree = sk.tree()
        # ---- C02.1: loop guards recorded on the class / field segments
        for cls in classes(tree):
            cname = Dn(sk, cls.name)
            base = D(sk, cls.bases[0]) if cls.bases else ""
            seg = sk.seg_of_node(cls)
            guards = seg.guards if seg else ()
            if base.endswith(".Message"):
                msg = cname[1:-1][: -len(".name")] if cname.endswith(".name}") else None
                r1.need(msg is not None, "class <message>.name(...Message)", cname)
                r1.instance()
                # every guard on a message class must be a loop marker or the `not submessage.map` test
                for g in guards:
                    ok = g[0] == "loop" or (g[0] == "n" and g[1][0] == "a" and g[1][1].endswith(".map"))
                    r1.check(ok, *where(sk, cls, root), f"class {cname} guarded by {g}",
                             f"message class {cname} is emitted only under an extra condition {g}: some messages would be dropped")
                for st in field_decls(sk, cls):
                    fseg = sk.seg_of_node(st)
                    fname = D(sk, st.target)
                    F = fname[1:-1][: -len(".name")] if fname.endswith(".name}") else None
                    r2.need(F is not None, "field declaration target", fname)
                    extra = [g for g in fseg.guards[len(guards):] if g[0] != "loop"]
                    # allowed: the map / not-map split on this very field
                    bad = [g for g in extra if not ((g[0] == "a" and g[1] == F + ".map") or (g[0] == "n" and g[1] == ("a", F + ".map")))]
                    r1.instance()
                    r1.check(not bad, *where(sk, st, root), f"field declaration {fname} guarded by {bad}",
                             f"field declaration is emitted only under {bad}: some fields would be dropped")
                    r1.check(F == f"ELEM({msg}.fields.values())", *where(sk, st, root), f"field loop binder {F}",
                             f"fields are declared from {F}, not from every element of {msg}.fields.values()")
                    check_field(sk, st, F, msg, r2, r3, root)
                    if D(sk, st.value.func).endswith("MapField"):
                        seen_map += 1
                    else:
                        seen_nonmap += 1
            elif base.endswith(".Enum"):
                en = cname[1:-1][: -len(".name")] if cname.endswith(".name}") else None
                r4.need(en is not None, "class <enum>.name(...Enum)", cname)
                for g in guards:
                    r1.instance()
                    r1.check(g[0] == "loop" or (g[0] == "n" and g[1][0] == "a" and g[1][1].endswith(".map")),
                             *where(sk, cls, root), f"class {cname} guarded by {g}",
                             f"enum class {cname} is emitted only under {g}")
                vals = [st for st in cls.body if isinstance(st, ast.Assign) and len(st.targets) == 1
                        and D(sk, st.targets[0]) != "_pb_options"]
                for st in vals:
                    r4.instance()
                    t, v = D(sk, st.targets[0]), D(sk, st.value)
                    ev = f"ELEM({en}.values)"
                    r4.check(t == "{" + ev + ".name}" and v == "{" + ev + ".number}", *where(sk, st, root), f"{t} = {v}",
                             f"enum member must be {{{ev}.name}} = {{{ev}.number}}")
                    vseg = sk.seg_of_node(st)
                    extra = [g for g in vseg.guards[len(guards):] if g[0] != "loop"]
                    r4.check(not extra, *where(sk, st, root), f"enum value {t} guarded by {extra}", "enum values are filtered")
        # ---- C02.5 manifest
        for st in tree.body:
            if isinstance(st, ast.Assign) and D(sk, st.targets[0]) == "__protobuf__":
                call = st.value
                r5.instance(D(sk, call)[:200])
                k = kw(sk, call)
                r5.check(D(sk, call.func) == P + ".module", *where(sk, st, root), D(sk, call.func), "__protobuf__ must be <proto>.module(...)")
                r5.check(k.get("package") == "'{'.'.join(proto.meta.address.package)}'", *where(sk, st, root),
                         f"package={k.get('package')}", "package= must be the proto file's own package, '.'.join(proto.meta.address.package)")
                differs = val(sk, "api.naming.proto_package == '.'.join(proto.meta.address.package)")
                if differs is False:
                    r5.check(k.get("marshal") == "'{api.naming.proto_package}'", *where(sk, st, root),
                             f"marshal={k.get('marshal')}", "marshal= must be the API's proto package when it differs from the file's package")
                elif differs is True:
                    r5.check("marshal" not in k, *where(sk, st, root), f"marshal={k.get('marshal')}", "marshal given although packages agree")
                man = None
                for kk in call.keywords:
                    if kk.arg == "manifest":
                        man = kk.value
                r5.need(man is not None, "manifest= keyword")
                entries = sorted(D(sk, e) for e in getattr(man, "elts", []))
                declared = sorted("'" + Dn(sk, c.name) + "'" for c in tree.body if isinstance(c, ast.ClassDef))
                r5.check(entries == declared, *where(sk, st, root), f"manifest {entries} vs classes {declared}",
                         "manifest entries differ from the top-level classes declared in the module")
    # presence: each kind of declaration is emitted in at least one variant
    kinds = {"top-level message": False, "top-level enum": False, "nested message": False, "nested enum": False}
    for sk in variants:
        for c in sk.tree().body:
            if isinstance(c, ast.ClassDef) and c.bases:
                b = D(sk, c.bases[0])
                if b.endswith(".Message"):
                    kinds["top-level message"] = True
                    for cc in c.body:
                        if isinstance(cc, ast.ClassDef) and cc.bases:
                            bb = D(sk, cc.bases[0])
                            if bb.endswith(".Message") and Dn(sk, cc.name).endswith(".nested_messages.values()).name}"):
                                kinds["nested message"] = True
                            if bb.endswith(".Enum") and Dn(sk, cc.name).endswith(".nested_enums.values()).name}"):
                                kinds["nested enum"] = True
                elif b.endswith(".Enum") and Dn(sk, c.name) == "{ELEM(proto.enums.values()).name}":
                    kinds["top-level enum"] = True
    for kname, present in kinds.items():
        r1.instance()
        r1.check(present, lib.path(tname), 0, f"{kname} class emission",
                 f"no covering variant emits a {kname} class: these declarations are dropped from the generated module")
    r2.need(seen_nonmap >= 1, "a non-map field declaration in some variant")
    r3.need(seen_map >= 1, "a map field declaration in some variant")


def check_field(sk, st: ast.AnnAssign, F: str, msg: str, r2, r3, root):
    call = st.value
    fn = D(sk, call.func)
    k = kw(sk, call)
    args = [D(sk, a) for a in call.args]
    w = where(sk, st, root)
    rel = lambda x: "{" + f"{x}.type.ident.rel({msg}.ident)" + "}"
    if fn.endswith("MapField"):
        r3.instance(D(sk, st)[:160])
        key, value = F + ".message.fields['key']", F + ".message.fields['value']"
        r3.check(fn == P + ".MapField", *w, fn, "map fields must be declared with <proto>.MapField")
        r3.check(args == [P + ".{" + key + ".proto_type}", P + ".{" + value + ".proto_type}"], *w, f"MapField({', '.join(args)})",
                 f"MapField positional arguments must be the key and value proto types of {F}.message")
        r3.check(k.get("number") == "{" + F + ".number}", *w, f"number={k.get('number')}", f"number= must be {F}.number")
        vm = val(sk, value + ".enum"), val(sk, value + ".message")
        typed = [x for x in k if x not in ("number",)]
        if vm[0] or vm[1]:
            exp = {"{" + value + ".proto_type.lower()}": rel(value)}
            got = {Dn(sk, kk.arg): D(sk, kk.value) for kk in call.keywords if kk.arg and Dn(sk, kk.arg).startswith("{")}
            r3.check(got == exp, *w, f"MapField type keyword {got}", f"expected {exp} (value type relative to the declaring message)")
        ann = D(sk, st.annotation)
        r3.check(ann == f"MutableMapping[{rel(key)}, {rel(value)}]", *w, f"annotation {ann}", "map annotation must use key/value types relative to the declaring message")
        return
    r2.instance(D(sk, st)[:160])
    rep = val(sk, F + ".repeated")
    # the template tests field.repeated only inside the non-primitive arm / on the Field kind
    is_rep = fn.endswith("RepeatedField")
    r2.check(fn in (P + ".Field", P + ".RepeatedField"), *w, fn, "fields are declared with <proto>.Field / <proto>.RepeatedField")
    if rep is not None:
        r2.check(is_rep == bool(rep), *w, f"{fn} with {F}.repeated={rep}", "RepeatedField must be used exactly for repeated fields")
    r2.check(args == [P + ".{" + F + ".proto_type}"], *w, f"Field({', '.join(args)})", f"first argument must be <proto>.{F}.proto_type")
    r2.check(k.get("number") == "{" + F + ".number}", *w, f"number={k.get('number')}", f"number= must be {F}.number")
    opt, oneof = val(sk, F + ".proto3_optional"), val(sk, F + ".oneof")
    if opt:
        r2.check(k.get("optional") == "True" and "oneof" not in k, *w, f"optional={k.get('optional')} oneof={k.get('oneof')}",
                 "proto3 optional fields declare optional=True and no (synthetic) oneof")
    else:
        r2.check("optional" not in k, *w, f"optional={k.get('optional')}", "optional=True on a field without explicit presence")
        if oneof:
            r2.check(k.get("oneof") == "'{" + F + ".oneof}'", *w, f"oneof={k.get('oneof')}", f"oneof= must name {F}.oneof")
        elif oneof is False:
            r2.check("oneof" not in k, *w, f"oneof={k.get('oneof')}", "oneof= on a field outside any oneof")
    em = val(sk, F + ".enum"), val(sk, F + ".message")
    got = {Dn(sk, kk.arg): D(sk, kk.value) for kk in call.keywords if kk.arg and Dn(sk, kk.arg).startswith("{")}
    if em[0] or em[1]:
        exp = {"{" + F + ".proto_type.lower()}": rel(F)}
        r2.check(got == exp, *w, f"type keyword {got}", f"enum/message fields need {exp}")
    elif em == (False, False):
        r2.check(not got, *w, f"type keyword {got}", "scalar field declared with a message=/enum= keyword")
    r2.check(D(sk, st.target) == "{" + F + ".name}", *w, D(sk, st.target), "attribute name must be Field.name")


def check_python(report):
    r6 = report.rule("C02.6", "schema side: proto_type from FieldDescriptorProto.Type.Name minus TYPE_; Field.name suffix rule; "
                              "_get_fields wraps every field_pb; _load_message loads field+extension; orphan pass raises; "
                              "number/proto3_optional/label are descriptor pass-throughs", floor=8)
    m = pm()
    wr = m.module("gapic.schema.wrappers").path
    fld = m.cls("gapic.schema.wrappers.Field")
    r6.need(fld is not None, "class Field")
    # proto_type
    pt = m.member(fld, "proto_type")
    r6.need(pt is not None, "Field.proto_type")
    from ..pymodel import nreturn as _nret
    e_pt = _nret(m, m.func("gapic.schema.wrappers.Field.proto_type"))
    src = ast.unparse(e_pt) if e_pt is not None else ast.unparse(pt.node)      # normal form: hoisted constants inlined, locals substituted
    r6.instance("Field.proto_type")
    flat = src.replace("\n", "").replace(" ", "").replace(",)", ")")
    r6.check("FieldDescriptorProto.Type.Name(self.field_pb.type)" in flat
             and ("[len('TYPE_'):]" in flat or "[5:]" in flat or ".removeprefix('TYPE_')" in flat), wr, pt.node.lineno, "Field.proto_type",
             "proto_type must be FieldDescriptorProto.Type.Name(self.field_pb.type) with the 'TYPE_' prefix stripped")
    # name
    nm = m.member(fld, "name")
    r6.instance("Field.name")
    from ..pymodel import nmatch
    bb = nmatch(m, "_ANYN_ + '_' if _ANYN_ in utils.RESERVED_NAMES and self.meta.address.is_proto_plus_type else _ANYN_", m.func("gapic.schema.wrappers.Field.name"))
    ok = bb is not None and bb["_ANYN_"] == "self.field_pb.name"
    r6.check(ok, wr, nm.node.lineno, "Field.name",
             "Field.name must be field_pb.name, plus exactly one '_' iff the name is reserved and the type is proto-plus")
    # pass-throughs not shadowed
    for attr in ("number", "proto3_optional", "label", "type_name", "json_name"):
        r6.instance(f"Field.{attr} pass-through")
        r6.check(m.member(fld, attr) is None, wr, 0, f"Field.{attr}",
                 f"Field defines its own '{attr}', shadowing the FieldDescriptorProto value the templates print")
    ga = m.member(fld, "__getattr__")
    r6.check(ga is not None and "getattr(self.field_pb, name)" in ast.unparse(ga.node), wr, 0, "Field.__getattr__",
             "Field.__getattr__ must delegate to self.field_pb")
    # repeated / required derive from label / field_behavior
    rp = m.member(fld, "repeated")
    r6.instance("Field.repeated")
    r6.check(rp is not None and "LABEL_REPEATED" in ast.unparse(rp.node) and "self.label" in ast.unparse(rp.node).replace("field_pb.", ""),
             wr, rp.node.lineno if rp else 0, "Field.repeated", "Field.repeated must compare the label with LABEL_REPEATED")
    # _get_fields
    gf = m.func("gapic.schema.api._ProtoBuilder._get_fields")
    ap = gf.module.path
    loops = [n for n in ast.walk(gf.node) if isinstance(n, ast.For)]
    r6.need(len(loops) == 1, "_get_fields: one loop")
    lp = loops[0]
    r6.instance("_get_fields loop")
    r6.check(ast.unparse(lp.iter) == "enumerate(field_pbs)", ap, lp.lineno, ast.unparse(lp.iter), "_get_fields must iterate enumerate(field_pbs)")
    r6.check(not any(isinstance(n, (ast.Continue, ast.Break)) for n in ast.walk(lp)), ap, lp.lineno, "_get_fields loop body",
             "_get_fields skips some fields (continue/break in the loop)")
    stores = [n for n in ast.walk(lp) if isinstance(n, ast.Assign) and ast.unparse(n.targets[0]) == "answer[field.name]"]
    r6.check(len(stores) == 1 and stores[0] in lp.body, ap, lp.lineno, "answer[field.name] = field", "every field must be stored unconditionally")
    fcall = [c for c in calls(lp) if ast.unparse(c.func) == "wrappers.Field"]
    r6.need(len(fcall) == 1, "wrappers.Field(...) in _get_fields")
    k = {kk.arg: ast.unparse(kk.value) for kk in fcall[0].keywords}
    r6.check(k.get("field_pb") == "field_pb" and k.get("oneof") == "oneof_name", ap, fcall[0].lineno, str(k)[:120],
             "wrappers.Field must wrap the loop's field_pb and the computed oneof name")
    src = ast.unparse(lp)
    r6.check("field_pb.HasField('oneof_index')" in src and "field_pb.oneof_index" in src, ap, lp.lineno, "oneof lookup",
             "oneof membership must come from oneof_index under HasField")
    # _load_message loads field and extension, nested types and enums
    lm = m.func("gapic.schema.api._ProtoBuilder._load_message")
    src = ast.unparse(lm.node)
    r6.instance("_load_message")
    for needle, what in (("message_pb.field", "fields"), ("message_pb.nested_type", "nested messages"),
                         ("message_pb.enum_type", "nested enums"), ("message_pb.oneof_decl", "oneofs")):
        r6.check(needle in src, lm.module.path, lm.node.lineno, f"_load_message uses {needle}", f"_load_message no longer loads {what}")
    # orphan pass raises on unresolved type
    pb = m.cls("gapic.schema.api._ProtoBuilder")
    init = m.member(pb, "__init__")
    r6.instance("orphan-field pass")
    from .common_rules import stmt_guards, local_env
    ifi = m.func("gapic.schema.api._ProtoBuilder.__init__")
    env = local_env(ifi.node)
    found = False
    for guards, st in stmt_guards(ifi.node, env):
        if not (isinstance(st, ast.Raise) and st.exc is not None and ast.unparse(st.exc).startswith("TypeError(")):
            continue
        fors = [g for g in guards if g[0] == "for"]
        fl = [g for g in fors if g[2].endswith(".fields.values()")]
        if not (any(g[2] == "self.proto_messages.values()" for g in fors) and fl):
            continue
        F = fl[0][1]
        KEY = f"{F}.type_name.lstrip('.')"
        facts = {g for g in guards if g[0] != "for"}
        want = {(f"{F}.type_name", True), (f"{F}.message", False), (f"{F}.enum", False),
                (f"self.proto_messages.get({KEY})", False), (f"self.proto_enums.get({KEY})", False)}
        alt = {(f"OR({F}.enum; {F}.message)", False)}      # `not (f.message or f.enum)` written as one test
        found = found or want <= facts or (want - {(f"{F}.message", False), (f"{F}.enum", False)}) | alt <= facts
    r6.check(found, ifi.module.path, init.node.lineno, "_ProtoBuilder.__init__ orphan pass",
             "the late-resolution pass must raise TypeError on a field of any message of the file whose type name is set, is not yet "
             "resolved, and is in neither the message nor the enum table")


def check_rel(report):
    """C02.7: Address.rel decides how a field's message/enum type is written inside the class body of the message being emitted. It only
    receives two Addresses, so it cannot know which names the class body has already bound (nested messages, enums); a bare name there is
    looked up in the class namespace first. Same-file references must therefore be quoted (resolved by proto-plus after the module is
    complete), except the one case that NEEDS the class namespace: a type nested in the message being written."""
    from ..skq import pm
    r = report.rule("C02.7", "Address.rel: same-file type references are quoted strings, except types nested in the message being written", floor=3)
    fi = pm().func("gapic.schema.metadata.Address.rel")
    fn = fi.node
    r.need(len(fn.args.args) == 2, "rel(self, address)", "signature changed: the argument about what rel can know no longer applies")
    A = fn.args.args[1].arg
    from ..pymodel import nreturn, decision_leaves
    e = nreturn(pm(), fi)
    r.need(e is not None, "Address.rel", "the function does not reduce to a decision table; the rule cannot judge it")
    SAME = {(f"self.package == {A}.package", True), (f"self.module == {A}.module", True)}
    n_same = 0
    for conds, v in decision_leaves(e):
        if SAME <= set(conds):
            n_same += 1
            r.instance(ast.unparse(v)[:80])
            quoted = isinstance(v, ast.JoinedStr) and isinstance(v.values[0], ast.Constant) and isinstance(v.values[-1], ast.Constant) \
                and str(v.values[0].value)[:1] in ("'", '"') and str(v.values[-1].value)[-1:] == str(v.values[0].value)[:1]
            contained = pmatch("'.'.join(self.parent[1:] + (self.name,))", v) is not None and ("self.parent", True) in conds \
                and (f"self.parent[0] == {A}.name", True) in conds
            r.check(quoted or contained, fi.module.path, fn.lineno, f"rel: same-file reference written as {ast.unparse(v)[:90]}",
                    "an unquoted same-file reference is evaluated in the class body being written, where a nested message or enum with the same "
                    "simple name shadows the module-level one (and a later declaration is not bound yet): the field silently points at the wrong type")
        else:
            r.instance("other files")
            r.check(ast.unparse(v) == "str(self)", fi.module.path, fn.lineno, f"rel: {ast.unparse(v)[:60]}", "references into other modules are written as module.Name")
    r.need(n_same >= 2, "same-file outcomes of Address.rel", str(n_same))


def check_alias_scope(report):
    """C02.8 (seed C02e): the alias `proto.disambiguate('proto')` protects the `proto` module name inside EVERY class body the module
    emits - nested messages bind their field names in their own class body, where `proto.Field(...)` of the following field is then
    looked up.  So the name set that Proto.disambiguate decides on must be computed from ALL declarations (all_messages / all_enums),
    directly or through the members it consults; a set built from the top-level `messages` / `enums` only misses nested fields."""
    r = report.rule("C02.8", "Proto.disambiguate decides on names of all (nested) declarations", floor=1)
    m = pm()
    ci = m.classes.get("gapic.schema.api.Proto")
    r.need(ci is not None and "disambiguate" in ci.members, "gapic.schema.api.Proto.disambiguate")
    if ci is None or "disambiguate" not in ci.members:
        return
    refs, todo, seen = set(), ["disambiguate"], set()
    while todo:
        name = todo.pop()
        if name in seen or name not in ci.members or getattr(ci.members[name], "node", None) is None:
            continue
        seen.add(name)
        node = ci.members[name].node
        if not isinstance(node, (ast.FunctionDef, ast.AsyncFunctionDef)):
            continue
        for n in ast.walk(node):
            if isinstance(n, ast.Attribute) and isinstance(n.value, ast.Name) and n.value.id == "self":
                refs.add(n.attr)
                if n.attr in ("names",) or (n.attr in ci.members and n.attr not in ("messages", "enums", "all_messages", "all_enums")):
                    todo.append(n.attr)
    fn = ci.members["disambiguate"].node
    r.instance({"members consulted by Proto.disambiguate": sorted(refs)})
    missing = sorted({"all_messages", "all_enums"} - refs)
    r.check(not missing, ci.module.path, fn.lineno, f"Proto.disambiguate consults {sorted(refs - {'disambiguate'})}, not {missing}",
            "a field (or nested type) named like the alias inside a NESTED message is not seen: the emitted nested class body rebinds "
            "`proto` and the next `proto.Field(...)` in it fails - the module cannot be imported, let alone round-trip the wire form")


def run(report: core.Report):
    report.explanation = (
        "Slot agreement between the input descriptor and the emitted proto-plus declarations, decided on skeletons of "
        "types/%proto.py.j2 for every covering valuation: which schema accessor fills each syntactic slot of each "
        "declaration, under which guard; plus AST checks of the Python that feeds those accessors.")
    report.assumptions.append("proto-plus / protobuf run-time behaviour (serialisation, JSON mapping) is outside the analysis")
    from .common_rules import loader_order
    loader_order(report, "C02.O", "field numbers, oneof membership and nesting are emitted in the order read")
    check_rel(report)
    lib = Lib()
    check_proto_template(report, lib, PROTO_T, report.tier)
    if report.tier == "thorough":
        check_proto_template(report, Lib(core.ADS_TEMPLATES), ADS_PROTO_T, report.tier)
    check_python(report)
    check_alias_scope(report)
