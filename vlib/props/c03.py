"""C03 - gRPC calls reach the right RPC with the caller's request and return the reply
(structural clauses; wire decoding is not claimed).

  C03.1 stub construction slots in transports/grpc.py.j2 and grpc_asyncio.py.j2 (+ sibling agreement)
  C03.2 Method.grpc_stub_type / void / _client_output (Python)
  C03.3 dispatch-key agreement: _prep_wrapped_messages key = transport property = client lookup, unfiltered
  C03.4 call path: exactly one rpc(...) call on every path, argument/keyword slots, response/return/await guards
  C03.5 request coercion arms use the method's input type in every position
  C03.6 the stub cache is created per transport instance in __init__
"""
from __future__ import annotations

import ast

from .. import core
from ..skq import Lib, D, Dn, where, val, SVC, M, pm, classes, calls, kw, own_body_walk
from .clientmodel import client_methods, CM

KEY = "{" + M + ".transport_safe_name|snake_case()}"
PATH = "'/{'.'.join(" + M + ".meta.address.package)}.{service.name}/{" + M + ".name}'"


def stub_properties(sk):
    for cls in classes(sk.tree()):
        for fn in cls.body:
            if isinstance(fn, ast.FunctionDef) and Dn(sk, fn.name) == KEY and any(D(sk, d) == "property" for d in fn.decorator_list):
                yield cls, fn


def check_stubs(report, lib: Lib, tname: str, label: str, channel: str = "self._logged_channel"):
    """`channel`: the attribute the transport makes its stubs on (the default set wraps it for logging; the ads set uses the raw channel)"""
    r = report.rule("C03.1", "per-method stub property: one channel call of the declared arity on the RPC's full path with the "
                             "input serializer and output deserializer; cached and returned under one key", floor=8)
    found = {}
    root = lib.root
    for sk in lib.variants(tname, transport=("grpc",)):
        for cls, fn in stub_properties(sk):
            # the loop over methods must be unfiltered
            seg = sk.seg_of_node(fn)
            cseg = sk.seg_of_node(cls)
            extra = [g for g in seg.guards[len(cseg.guards):] if g[0] != "loop"]
            r.instance({"template": label, "stub": D(sk, fn)[:80]})
            r.check(not extra, *where(sk, fn, root), f"stub property {KEY} guarded by {extra}",
                    f"the stub property is emitted only under {extra}: some RPCs would have no stub")
            chan = [c for c in calls(fn) if D(sk, c.func).startswith(channel + ".")]
            r.check(len(chan) == 1, *where(sk, fn, root), f"{len(chan)} channel calls in stub {KEY}", "exactly one channel call per stub property")
            if len(chan) != 1:
                continue
            c = chan[0]
            w = where(sk, c, root)
            r.check(D(sk, c.func) == channel + ".{" + M + ".grpc_stub_type}", *w, D(sk, c.func),
                    f"stub factory must be {channel}.<Method.grpc_stub_type>")
            r.check(len(c.args) == 1 and D(sk, c.args[0]) == PATH, *w, D(sk, c.args[0]) if c.args else "<no path>",
                    f"method path must be {PATH} (raw rpc name, service name, proto package)")
            k = kw(sk, c)
            in_pb2 = val(sk, M + ".input.ident.python_import.module.endswith('_pb2')")
            out_pb2 = val(sk, M + ".output.ident.python_import.module.endswith('_pb2')")
            exp_s = "{" + M + ".input.ident}." + ("SerializeToString" if in_pb2 else "serialize")
            exp_d = "{" + M + ".output.ident}." + ("FromString" if out_pb2 else "deserialize")
            r.check(k.get("request_serializer") == exp_s, *w, f"request_serializer={k.get('request_serializer')}",
                    f"expected {exp_s} (serializer of the declared input type; pb2 types use SerializeToString)")
            r.check(k.get("response_deserializer") == exp_d, *w, f"response_deserializer={k.get('response_deserializer')}",
                    f"expected {exp_d} (deserializer of the declared output type; pb2 types use FromString)")
            # caching under one key
            stores = [n for n in ast.walk(fn) if isinstance(n, ast.Assign) and n.value is c]
            r.check(len(stores) == 1 and D(sk, stores[0].targets[0]) == f"self._stubs['{KEY}']", *w,
                    D(sk, stores[0].targets[0]) if stores else "<no store>", f"stub must be cached as self._stubs['{KEY}']")
            rets = [n for n in ast.walk(fn) if isinstance(n, ast.Return)]
            r.check(len(rets) == 1 and D(sk, rets[0].value) == f"self._stubs['{KEY}']", *where(sk, fn, root),
                    D(sk, rets[0].value) if rets else "<no return>", f"stub property must return self._stubs['{KEY}']")
            ifs = [n for n in fn.body if isinstance(n, ast.If)]
            r.check(any(D(sk, i.test) == f"'{KEY}' not in self._stubs" for i in ifs), *where(sk, fn, root), "cache test",
                    f"stub creation must be guarded by '{KEY}' not in self._stubs")
            found.setdefault((bool(in_pb2), bool(out_pb2)), (D(sk, c)))
    r.need(found, f"stub properties in {label}")
    return found


def check_stub_cache_scope(report, lib: Lib):
    """C03.6: the dict the stub properties cache in is created per transport instance.  A cache that lives on the class (or is never
    created in __init__) is shared by every transport of the process: the second client's calls go out on the first client's channel."""
    r = report.rule("C03.6", "the stub cache (self.<X>[key] written by the stub properties) is bound to a fresh dict in the transport's "
                             "own __init__ on every path, in every variant", floor=2)
    root = lib.root
    for tname, label in ((SVC + "transports/grpc.py.j2", "grpc"), (SVC + "transports/grpc_asyncio.py.j2", "grpc_asyncio")):
        seen = False
        for sk in lib.variants(tname, transport=("grpc",)):
            for cls in classes(sk.tree()):
                caches = set()
                for fn in cls.body:
                    if isinstance(fn, ast.FunctionDef) and any(D(sk, d) == "property" for d in fn.decorator_list):
                        for n in ast.walk(fn):
                            if isinstance(n, ast.Assign) and len(n.targets) == 1 and isinstance(n.targets[0], ast.Subscript):
                                t = n.targets[0].value
                                if isinstance(t, ast.Attribute) and isinstance(t.value, ast.Name) and t.value.id == "self":
                                    caches.add(t.attr)
                if not caches:
                    continue
                seen = True
                init = next((f for f in cls.body if isinstance(f, ast.FunctionDef) and f.name == "__init__"), None)
                r.need(init is not None, f"{label}: __init__ of {D(sk, cls)[:60]}")
                for attr in sorted(caches):
                    r.instance({"template": label, "cache": "self." + attr})
                    fresh = []
                    for st in init.body:     # top level of __init__ only: a binding under a condition leaves some instances sharing
                        tg = st.targets[0] if isinstance(st, ast.Assign) and len(st.targets) == 1 else st.target if isinstance(st, ast.AnnAssign) and st.value is not None else None
                        if isinstance(tg, ast.Attribute) and isinstance(tg.value, ast.Name) and tg.value.id == "self" and tg.attr == attr:
                            v = st.value
                            if (isinstance(v, ast.Dict) and not v.keys) or (isinstance(v, ast.Call) and isinstance(v.func, ast.Name)
                                                                              and v.func.id in ("dict", "OrderedDict") and not v.args and not v.keywords):
                                seg = sk.seg_of_node(st)
                                cseg = sk.seg_of_node(init)
                                if not [g for g in seg.guards[len(cseg.guards):]]:
                                    fresh.append(st)
                    r.check(bool(fresh), *where(sk, init, root), f"{label}: __init__ does not bind self.{attr} to a fresh dict",
                            f"the stub properties cache channel-bound callables in self.{attr}; without an unconditional `self.{attr} = {{}}` in "
                            f"__init__ the cache is the class attribute shared by every instance (stubs of the first transport's channel are reused)")
        r.need(seen, f"{label}: a class whose properties write self.<cache>[key]")


def check_python(report):
    r = report.rule("C03.2", "Method.grpc_stub_type maps the streaming flags; void compares with Empty and is tested first in "
                             "_client_output", floor=3)
    m = pm()
    meth = m.cls("gapic.schema.wrappers.Method")
    wr = m.module("gapic.schema.wrappers").path
    gst = m.member(meth, "grpc_stub_type")
    r.need(gst is not None, "Method.grpc_stub_type")
    r.instance("grpc_stub_type")
    from ..pymodel import nmatch, nreturn, ladder
    from ..pyeval import Evaluator, UNKNOWN
    import itertools
    # decided as a truth table over the two flags (so .format, an f-string, nested conditionals or a lookup table all read the same)
    e = nreturn(m, m.func("gapic.schema.wrappers.Method.grpc_stub_type"))
    r.need(e is not None, "Method.grpc_stub_type", "does not reduce to one expression")
    bad = []
    for cs, ss in itertools.product((False, True), repeat=2):
        v = Evaluator({"self": {"client_streaming": cs, "server_streaming": ss}}).ev(e)
        r.need(v is not UNKNOWN, "Method.grpc_stub_type", f"cannot evaluate `{ast.unparse(e)[:100]}` for client_streaming={cs}, server_streaming={ss}")
        want = f"{'stream' if cs else 'unary'}_{'stream' if ss else 'unary'}"
        if v != want:
            bad.append(f"client_streaming={cs}, server_streaming={ss} -> {v!r} (expected {want!r})")
    r.check(not bad, wr, gst.node.lineno, f"Method.grpc_stub_type: {'; '.join(bad)}"[:200],
            "must be '{client}_{server}' with client<-client_streaming, server<-server_streaming, 'stream' on the true arm")
    vd = m.member(meth, "void")
    r.instance("void")
    r.check(vd is not None and nmatch(m, "self.output.ident.proto == 'google.protobuf.Empty'", "gapic.schema.wrappers.Method.void") is not None, wr,
            vd.node.lineno if vd else 0, "Method.void", "Method.void must compare the output type with google.protobuf.Empty")
    co = m.member(meth, "_client_output")
    r.need(co is not None, "Method._client_output")
    r.instance("_client_output")
    eco = nreturn(m, m.func("gapic.schema.wrappers.Method._client_output"))
    r.need(eco is not None, "Method._client_output", "does not reduce to one conditional expression")
    arms = ladder(eco)
    r.check(bool(arms) and arms[0][0] is not None and ast.unparse(arms[0][0]) == "self.void",
            wr, co.node.lineno, "_client_output first test", "_client_output must test self.void first (None for Empty)")
    r.check(bool(arms) and arms[-1][0] is None and ast.unparse(arms[-1][1]) == "self.output", wr, co.node.lineno, "_client_output fallthrough",
            "_client_output must fall through to self.output")


def table_keys(sk, fn):
    """keys of the dict assigned to self._wrapped_methods"""
    for n in ast.walk(fn):
        if isinstance(n, ast.Assign) and D(sk, n.targets[0]) == "self._wrapped_methods" and isinstance(n.value, ast.Dict):
            return n.value
    return None


def check_dispatch(report, lib: Lib):
    r = report.rule("C03.3", "wrapped-method table key = transport stub property = client lookup key, for every method", floor=6)
    root = lib.root
    n = 0
    for tname, label in ((SVC + "transports/base.py.j2", "base"), (SVC + "transports/grpc_asyncio.py.j2", "grpc_asyncio"),
                         (SVC + "transports/rest_asyncio.py.j2", "rest_asyncio")):
        for sk in lib.variants(tname, transport=("grpc", "rest"))[:12]:
            for fn in ast.walk(sk.tree()):
                if isinstance(fn, ast.FunctionDef) and fn.name == "_prep_wrapped_messages":
                    d = table_keys(sk, fn)
                    r.need(d is not None, f"self._wrapped_methods = {{...}} in {label}")
                    for k, v in zip(d.keys, d.values):
                        ks = D(sk, k)
                        if not ks.startswith("self.{" + M):
                            continue
                        n += 1
                        r.instance({"template": label, "key": ks})
                        r.check(ks == "self." + KEY, *where(sk, k, root), ks, f"table key must be self.{KEY}")
                        r.check(isinstance(v, ast.Call) and v.args and D(sk, v.args[0]) == ks, *where(sk, v, root),
                                D(sk, v)[:80], "the wrapped callable must be the same transport property as the key")
                        seg, fseg = sk.seg_of_node(k), sk.seg_of_node(fn)
                        extra = [g for g in seg.guards[len(fseg.guards):] if g[0] != "loop"]
                        r.check(not extra, *where(sk, k, root), f"table entry guarded by {extra}", "the table loop must be unfiltered")
    r.need(n >= 3, "method entries in _prep_wrapped_messages")
    for is_async in (False, True):
        for cm in client_methods(lib, is_async):
            lookups = [s for s in cm.fn.body if isinstance(s, ast.Assign) and D(cm.sk, s.targets[0]) == "rpc"]
            r.instance({"client": "async" if is_async else "sync", "lookup": D(cm.sk, lookups[0].value)[:100] if lookups else None})
            r.check(len(lookups) == 1, *cm.where(), f"{len(lookups)} rpc lookups in {cm.name}", "exactly one `rpc = ...` lookup per client method")
            if len(lookups) != 1:
                continue
            tr = "self._client._transport" if is_async else "self._transport"
            exp = f"{tr}._wrapped_methods[{tr}.{KEY}]"
            r.check(D(cm.sk, lookups[0].value) == exp, *cm.where(lookups[0]), D(cm.sk, lookups[0].value),
                    f"client must look the wrapped method up as {exp}")


def check_call_path(report, lib: Lib):
    r4 = report.rule("C03.4", "exactly one rpc(...) call on every path; request/requests first; retry/timeout/metadata passed "
                              "through; response bound and returned iff not void; awaited iff async and not server-streaming", floor=20)
    r5 = report.rule("C03.5", "request coercion uses the declared input type in every position (instance / dict / omitted)", floor=10)
    for is_async in (False, True):
        for cm in client_methods(lib, is_async):
            sk = cm.sk
            rc = cm.rpc_calls()
            r4.instance({"client": "async" if is_async else "sync", "method": cm.name})
            r4.check(len(rc) == 1, *cm.where(), f"{len(rc)} rpc(...) calls in {cm.name}", "exactly one call through the wrapped method")
            if len(rc) != 1:
                continue
            c = rc[0]
            st = cm.stmt_of(c)
            # on every path: the call statement is at function top level (not under an emitted if)
            r4.check(st in cm.fn.body, *cm.where(c), "rpc(...) nesting", "the rpc call must be on every path (top level of the method body)")
            cs = cm.v(".client_streaming")
            exp0 = "requests" if cs else "request"
            r4.check(len(c.args) == 1 and D(sk, c.args[0]) == exp0, *cm.where(c), f"rpc({', '.join(D(sk, a) for a in c.args)}, ...)",
                     f"first positional argument must be `{exp0}`")
            k = kw(sk, c)
            r4.check(k == {"retry": "retry", "timeout": "timeout", "metadata": "metadata"}, *cm.where(c), f"rpc keywords {k}",
                     "the caller's retry, timeout and metadata must be passed through unchanged")
            void = cm.v(".void")
            bound = isinstance(st, ast.Assign) and D(sk, st.targets[0]) == "response"
            if void is not None:
                r4.check(bound == (not void), *cm.where(c), f"response binding with void={void}", "response is bound exactly for non-void methods")
                rets = [n for n in own_body_walk(cm.fn) if isinstance(n, ast.Return)]
                if void:
                    r4.check(all(x.value is None for x in rets), *cm.where(), f"return in void method {cm.name}", "void methods return None")
                else:
                    r4.check(len(rets) == 1 and rets[0].value is not None and D(sk, rets[0].value) == "response" and rets[0] in cm.fn.body,
                             *cm.where(), f"return of {cm.name}", "non-void methods end with `return response`")
            if is_async:
                ss = cm.v(".server_streaming")
                awaited = any(isinstance(n, ast.Await) and n.value is c for n in ast.walk(st))
                if ss is not None:
                    r4.check(awaited == (not ss), *cm.where(c), f"await with server_streaming={ss}",
                             "the call is awaited exactly when the method is not server-streaming")
                    r4.check(isinstance(cm.fn, ast.AsyncFunctionDef) == (not ss), *cm.where(), f"async def with server_streaming={ss}",
                             "`async def` exactly when the method is not server-streaming")
            # ---- coercion
            if cs:
                continue
            T = "{" + M + ".input.ident}"
            same = cm.atom(f"{M}.input.ident.package == {M}.ident.package")
            ifs = [s for s in cm.fn.body if isinstance(s, ast.If)]
            r5.instance({"client": "async" if is_async else "sync", "same_package": same})
            if same:
                hit = [i for i in ifs if D(sk, i.test) == f"not isinstance(request, {T})"]
                r5.check(len(hit) == 1, *cm.where(), f"coercion arm for same-package request in {cm.name}",
                         f"expected `if not isinstance(request, {T}): request = {T}(request)`")
                if hit:
                    first = hit[0].body[0]
                    r5.check(isinstance(first, ast.Assign) and D(sk, first) == f"request = {T}(request)", *cm.where(hit[0]),
                             D(sk, first)[:80], f"coercion must construct {T}(request)")
                    r5.check(cm.cfg.dominates(hit[0], st), *cm.where(hit[0]), "coercion before call", "coercion must precede the rpc call")
            elif same is False:
                hit = [i for i in ifs if D(sk, i.test) == "isinstance(request, dict)"]
                r5.check(len(hit) == 1, *cm.where(), f"coercion arm for cross-package request in {cm.name}",
                         "expected `if isinstance(request, dict): ... elif not request: ...`")
                if hit:
                    i = hit[0]
                    r5.check(D(sk, i.body[-1]) == f"request = {T}(**request)", *cm.where(i), D(sk, i.body[-1])[:80], f"dict arm must build {T}(**request)")
                    el = i.orelse[0] if i.orelse and isinstance(i.orelse[0], ast.If) else None
                    r5.check(el is not None and D(sk, el.test) == "not request", *cm.where(i), "elif arm", "omitted request must be handled by `elif not request`")
                    if el is not None:
                        a = [s for s in el.body if isinstance(s, ast.Assign) and D(sk, s.targets[0]) == "request"]
                        r5.check(len(a) == 1 and isinstance(a[0].value, ast.Call) and D(sk, a[0].value.func) == T, *cm.where(el),
                                 D(sk, a[0])[:100] if a else "<none>", f"omitted request must be built with {T}(...)")
                    r5.check(cm.cfg.dominates(i, st), *cm.where(i), "coercion before call", "coercion must precede the rpc call")


def run(report: core.Report):
    report.explanation = (
        "Slot and path rules on skeletons of the gRPC transports, the transport base and both client templates, "
        "for every covering valuation (streaming arity, pb2 vs proto-plus types, void, same/cross-package requests).")
    report.assumptions.append("gRPC channel and (de)serialiser behaviour is library code outside the analysis")
    lib = Lib()
    a = check_stubs(report, lib, SVC + "transports/grpc.py.j2", "grpc")
    b = check_stubs(report, lib, SVC + "transports/grpc_asyncio.py.j2", "grpc_asyncio")
    r = report.rule("C03.1s", "grpc and grpc_asyncio stub constructions agree slot for slot", floor=2)
    for key in sorted(set(a) | set(b)):
        r.instance({"pb2(in,out)": key})
        r.check(a.get(key) == b.get(key) or key not in a or key not in b, lib.path(SVC + "transports/grpc_asyncio.py.j2"), 0,
                f"stub call for pb2={key}", f"sync: {a.get(key)} / asyncio: {b.get(key)}")
    check_stub_cache_scope(report, lib)
    check_python(report)
    check_dispatch(report, lib)
    check_call_path(report, lib)
    if report.tier == "thorough":
        ads = Lib(core.ADS_TEMPLATES)
        check_stubs(report, ads, "%namespace/%name/%version/%sub/services/%service/transports/grpc.py.j2", "ads grpc", channel="self.grpc_channel")
