"""C10 - generation is a pure, deterministic function of the request.

  C10.1p  Python: no order taken from a set is stored into an object, returned by a function outside
          the template-visible schema model, or created on the response path
  C10.1t  templates: every order-sensitive consumer (for / join / first / last / print / index) of a
          set-derived schema member is sorted or inside a sort_lines block
  C10.2   sorts that sanitise a set-derived collection use a total (injective) key
  C10.3   no ambient input (clock, RNG, environment, cwd, pid, id()/hash() as value, directory order)
          is reachable from the generator entry point or from template-visible members
  C10.4   carriers on the response path are insertion-ordered (dict/OrderedDict/list), never sets
  C10.5   JSON serialisers on the response path pass sort_keys=True; the snippet index is sorted
"""
from __future__ import annotations

import ast
import multiprocessing
import os

from .. import core
from ..constraints import CONSTRAINTS
from ..pymodel import PyModel, CallGraph, string_properties, parse_ann, is_set_type, dotted
from ..taint import TaintAnalysis, CLEAN, SET, U, NAMES
from ..tmodel import TemplateSet, cover, SymDict
from ..tyenv import TyEnv
from .c01 import template_roots, mentions, TRANSPORT_PROFILES, sample_profiles

MODEL_MODULES = ("gapic.schema.wrappers", "gapic.schema.api", "gapic.schema.metadata", "gapic.schema.naming", "gapic.schema.imp")
ORDER_PRESERVING_FILTERS = {"list", "selectattr", "rejectattr", "select", "reject", "map", "unique", "reverse", "batch",
                            "default", "d", "slice"}
SORT_FILTERS = {"sort", "dictsort"}

# (element class, sort attribute) -> reason the key is injective on any collection the templates sort with it
INJECTIVE_KEYS = {
    ("MessageType", "resource_type_full_path"):
        "the full resource type (`<service>/<Kind>`) identifies a resource; Service.resource_messages is keyed by it",
    ("Service", "name"): "service names are unique within a proto package (protoc enforces it)",
    ("Method", "name"): "rpc names are unique within a service (protoc enforces it)",
    ("CommonResource", "type_name"): "common resources are a dict keyed by type name",
    (None, "__name__"): "elements are google.api_core exception classes chosen by gRPC status code; distinct classes "
                        "have distinct __name__",
}

AMBIENT_EXTERNAL = {
    "time": "clock", "datetime": "clock", "random": "RNG", "secrets": "RNG", "uuid": "RNG/host id", "socket": "host",
    "tempfile": "filesystem state", "getpass": "user", "platform": "host",
}
AMBIENT_EXACT = {
    "os.environ": "environment", "os.getenv": "environment", "os.getcwd": "working directory", "os.getpid": "process id",
    "os.listdir": "directory order", "os.scandir": "directory order", "os.walk": "directory order", "glob.glob": "directory order",
    "os.urandom": "RNG", "os.path.abspath": "working directory", "os.path.realpath": "working directory",
    "os.path.expanduser": "environment", "os.times": "clock",
}
# ambient reads that are part of the request contract, with reasons
AMBIENT_ALLOWED = {
    ("gapic.utils.options.Options.build", "os.path.realpath"):
        "resolves the *bundled* template directory relative to the module file (__file__), not to the cwd",
    ("gapic.utils.options.Options.build", "os.path.abspath"):
        "see DESIGN C10.3: relative `python-gapic-templates` paths are option-file inputs named by the request",
    ("gapic.utils.options.Options.build", "os.path.expanduser"):
        "applied to paths already made absolute and normalised against the module directory, so no leading `~` can remain",
}


def _unfold(pm):
    return {k: v[0] for k, v in string_properties(pm).items()}


def member_of_term(ty: TyEnv, term):
    """(owner class name, member name, Member) of the outermost producing step of a collection term."""
    k = term[0]
    if k == "attr":
        bt = ty.unopt(ty.typeof(term[1]))
        if bt[0] == "cls":
            mem = ty.pm.member(bt[1], term[2])
            if mem is not None:
                return mem
    return None


class TemplateTaint:
    def __init__(self, pm, ta: TaintAnalysis):
        self.pm, self.ta = pm, ta
        self.ty = TyEnv(pm)

    def member_taint(self, mem) -> int:
        q = mem.owner + "." + mem.name
        if q in self.ta.funcs:
            return self.ta.funcs[q].ret
        if mem.kind == "field":
            ci = self.pm.classes[mem.owner]
            t = parse_ann(self.pm, ci.module, mem.ann)
            if is_set_type(t) or (t[0] == "opt" and is_set_type(t[1])):
                return SET
        return CLEAN

    def coll(self, term):
        """-> (taint, source description, [sort steps (attr, elem class, base taint, base source)])"""
        k = term[0]
        if k == "filter":
            name = term[2]
            t, src, sorts = self.coll(term[1])
            if name in SORT_FILTERS:
                attr = None
                kw = term[4] if len(term) > 4 else {}
                a = kw.get("attribute")
                if a is not None and a[0] == "const":
                    attr = a[1]
                et = self.ty.unopt(self.ty.elem(self.ty.typeof(term[1])))
                ecls = et[1].name if et[0] == "cls" else None
                return CLEAN, src, sorts + [(attr, ecls, t, src)]
            if name in ORDER_PRESERVING_FILTERS:
                return t, src, sorts
            return t, src, sorts   # consuming filters (join/first/...) are judged by the caller
        if k == "call":
            f = term[1]
            if f[0] == "attr" and f[2] in ("values", "items", "keys", "copy"):
                return self.coll(f[1])
            if f[0] == "attr":
                mem = member_of_term(self.ty, f)
                if mem is not None:
                    t = self.member_taint(mem)
                    return t, f"{mem.owner.split('.')[-1]}.{mem.name}()", []
            return CLEAN, "", []
        if k == "attr":
            mem = member_of_term(self.ty, term)
            if mem is not None:
                t = self.member_taint(mem)
                return t, f"{mem.owner.split('.')[-1]}.{mem.name}", []
            return CLEAN, "", []
        if k in ("item", "idx"):
            t, src, sorts = self.coll(term[1])
            return t, src, sorts
        return CLEAN, "", []


def analyse_template(args):
    root, name, tier, profile = args
    pm = _pm()
    ts = TemplateSet(root, unfold=_unfold(pm))
    roots = template_roots(name)
    kw = dict(constraints=CONSTRAINTS, known_roots=roots)
    if name.startswith("tests/") and tier == "quick":
        kw["max_runs"] = 60
    runs = []
    if profile:
        runs.append(cover(ts, name, const_roots=profile[1], **kw))
    elif mentions(ts, name, "opts.transport"):
        for tp in (TRANSPORT_PROFILES if tier == "thorough" else (["grpc", "rest"],)):
            runs.append(cover(ts, name, const_roots={"opts": SymDict("opts", transport=list(tp))}, **kw))
    else:
        runs.append(cover(ts, name, **kw))
    uses = {}
    for variants, _ in runs:
        for sk in variants:
            for key, val in sk.uses.items():
                uses.setdefault(key, val)
    return name, [(k, v[0], v[1], v[2], v[4]) for k, v in uses.items()]


_PM = None


def _pm():
    global _PM
    if _PM is None:
        _PM = PyModel()
    return _PM


def run(report: core.Report):
    pm = _pm()
    tier = report.tier
    report.explanation = (
        "Order-taint analysis (Engine F): sets and set-derived sequences in the repository's Python are sources; every "
        "consumer - in Python and in every template access path found by the covering search - must be order-insensitive, "
        "sorted with a total key, or inside a sort_lines block. Ambient inputs are excluded by call-graph reachability.")
    report.assumptions += [
        "iteration over dicts and protobuf containers is a function of insertion history; only hash-seed / id()-ordered "
        "containers (set, frozenset) are sources of non-determinism",
        "third-party libraries (jinja2 list_templates, protobuf MessageToJson with sort_keys) behave deterministically",
    ]
    ta = TaintAnalysis(pm).run()
    r1p = report.rule("C10.1p", "Python: no set-derived order is stored into an object, returned outside the schema model, "
                                "or produced on the response path", floor=100)
    r1t = report.rule("C10.1t", "templates: order-sensitive consumers of set-derived members sort or sit in sort_lines", floor=10)
    r2 = report.rule("C10.2", "a sort that sanitises a set-derived collection uses an injective key", floor=3)
    r3 = report.rule("C10.3", "no ambient input reachable from generate() or template-visible members", floor=150)
    r5 = report.rule("C10.5", "JSON serialisers on the response path pass sort_keys=True; snippet index sorted", floor=2)

    tainted = {}
    for q, ft in ta.funcs.items():
        r1p.instance()
        in_model = ft.fi.module.name in MODEL_MODULES and ft.fi.cls is not None
        if ft.ret != CLEAN:
            tainted[q] = NAMES[ft.ret]
        for node, what in {(l[0].lineno, l[1]): l for l in ft.stores}.values():
            r1p.violation(ft.fi.module.path, node.lineno, f"{q}: {ast.unparse(node)[:120]}", what)
        if not in_model:
            r1p.check(ft.ret != U, ft.fi.module.path, ft.fi.node.lineno, f"{q} returns {ft.why.text if ft.why else ''}",
                      f"{q} returns a sequence/string whose order was taken from a set "
                      f"({ft.why.text if ft.why else ''}); sort it before it leaves the function")
            for node, what in {(l[0].lineno, l[1]): l for l in ft.leaks}.values():
                r1p.violation(ft.fi.module.path, node.lineno, f"{q}: {ast.unparse(node)[:120]}",
                              f"{what} (outside the schema model, so nothing downstream sorts it)")
        else:
            r1p.ok()
    r2p = report.rule("C10.2p", "Python: a first-wins / last-wins keyed selection made while iterating in set order uses a key that is "
                                "injective on the elements (otherwise WHICH element is kept depends on the hash seed)", floor=1)
    for q, ft in ta.funcs.items():
        for node, key, kind in {(s_[0].lineno, ast.unparse(s_[1])): s_ for s_ in ft.selections}.values():
            r2p.instance(f"{q}: {ast.unparse(node)[:80]}")
            attr = key.attr if isinstance(key, ast.Attribute) else None
            r2p.check(any(a == attr for (_, a) in INJECTIVE_KEYS), ft.fi.module.path, node.lineno, f"{q}: {ast.unparse(node)[:120]}",
                      f"`{ast.unparse(key)}` is not a known injective key, and the iteration order comes from a set: {kind}, so the kept element "
                      f"varies with PYTHONHASHSEED / id(); select with an injective key or sort the candidates first")
    report.set("set_derived_members", tainted)
    r1p.need(len(tainted) >= 8, "set-derived members (sources)", f"only {len(tainted)} found")

    # ---- templates ------------------------------------------------------------
    roots_ = [core.TEMPLATES] + ([core.ADS_TEMPLATES] if tier == "thorough" else [])
    jobs = []
    for root in roots_:
        ts = TemplateSet(root)
        for name in ts.public_names():
            if name.startswith("examples/"):
                if root == core.TEMPLATES and name.endswith("sample.py.j2"):
                    profs = sample_profiles(pm)
                    for prof in (profs if tier == "thorough" else profs[:6]):
                        jobs.append((root, name, tier, prof))
                continue
            jobs.append((root, name, tier, None))
    with multiprocessing.Pool(min(16, os.cpu_count() or 4)) as pool:
        results = pool.map(analyse_template, jobs, chunksize=1)
    tt = TemplateTaint(pm, ta)
    seen = set()
    n_uses = 0
    for (root, name, _, _), (_, uses) in zip(jobs, results):
        for (canon, kind), term, tmpl, line, fctx in uses:
            key = (root, tmpl, canon, kind)
            if key in seen:
                continue
            seen.add(key)
            n_uses += 1
            path = os.path.join(root, tmpl)
            # what is consumed, and how
            target = term
            consuming = None
            if kind == "print":
                # print of join/first/string/list over a collection, or of the collection itself
                t = term
                while t[0] == "filter" and t[2] not in SORT_FILTERS:
                    if t[2] in ("join", "first", "last", "string", "list", "random", "tojson", "pprint"):
                        consuming = t[2]
                        target = t[1]
                        break
                    t = t[1]
                if consuming is None:
                    # printing a collection whole is order-sensitive too
                    taint, src, sorts = tt.coll(term)
                    if taint != CLEAN:
                        r1t.instance()
                        r1t.violation(path, line, f"{{{{ {canon} }}}}", f"prints {src}, whose order comes from a set")
                    continue
            elif kind in ("first", "last"):
                consuming = kind
            elif kind == "iter":
                consuming = "for"
            else:
                continue   # tests: truthiness / membership / comparisons do not observe order
            taint, src, sorts = tt.coll(target)
            for attr, ecls, btaint, bsrc in sorts:
                if btaint == CLEAN:
                    continue  # stable sort of a deterministic sequence is deterministic whatever the key
                r2.instance({"sort": canon, "key": attr, "elements": ecls, "source": bsrc})
                if attr is None:
                    # natural order: total iff elements are strings / tuples of strings
                    et = tt.ty.unopt(tt.ty.elem(tt.ty.typeof(target[1] if target[0] == "filter" else target)))
                    ok = et[0] in ("prim", "tuple") or ecls == "Import"
                    r2.check(ok or ecls is None, path, line, f"{canon}",
                             f"sort without attribute over {bsrc} (elements {ecls}): natural order of wrapper objects is not defined")
                else:
                    comps = [a.strip() for a in str(attr).split(",")]
                    r2.check(any((ecls, a) in INJECTIVE_KEYS for a in comps), path, line, f"{bsrc}|sort(attribute='{attr}')",
                             f"`sort(attribute='{attr}')` sanitises {bsrc} (order from a set), but '{attr}' is not a listed "
                             f"injective key of {ecls}: ties keep the set's order, so the emitted order depends on the hash seed")
            if taint == CLEAN:
                if sorts or src:
                    r1t.instance({"consumer": consuming, "of": canon, "sanitised_by": "sort" if sorts else "clean source"})
                    r1t.ok()
                continue
            r1t.instance({"consumer": consuming, "of": canon, "source": src, "filter_ctx": list(fctx)})
            r1t.check("sort_lines" in fctx, path, line, f"{consuming} over {canon}",
                      f"{consuming} over {src} (order from a set) without a sort and outside a sort_lines block")
    report.set("template_access_paths_examined", n_uses)

    # ---- C10.3 ambient inputs ------------------------------------------------------
    cg = CallGraph(pm)
    roots = ["gapic.cli.generate.generate"]
    for q, fi in pm.functions.items():
        if fi.module.name in MODEL_MODULES or fi.module.name.startswith(("gapic.utils", "gapic.generator", "gapic.samplegen_utils")) \
                or fi.module.name == "gapic.samplegen.samplegen":
            roots.append(q)
    pred = cg.reachable(roots)
    report.set("callgraph", {"call_sites": cg.sites, "resolved": cg.resolved, "by_name": cg.byname,
                             "library_or_builtin_methods": cg.unresolved, "reachable_functions": len(pred)})
    r3.need("gapic.cli.generate.generate" in pm.functions, "gapic.cli.generate.generate")
    r3.need("gapic.generator.generator.Generator.get_response" in pred, "get_response reachable from generate()")
    for q in sorted(pred):
        fi = pm.functions[q]
        r3.instance()
        for e in sorted(cg.external.get(q, ())):
            head = e.split(".")[0]
            why = None
            if head in AMBIENT_EXTERNAL and not (head == "uuid" and False):
                why = AMBIENT_EXTERNAL[head]
            for k, w in AMBIENT_EXACT.items():
                if e == k or e.startswith(k + "."):
                    why = w
            if e in ("id", "hash") and fi.node.name not in ("__hash__", "__eq__"):
                why = "object identity / seed-dependent hash used as a value"
            if why is None:
                continue
            if (q, e) in AMBIENT_ALLOWED:
                r3.note(f"allowed {q} -> {e}: {AMBIENT_ALLOWED[(q, e)]}")
                continue
            # the same read in a helper of the options module that is reached through Options.build (a nested closure moved to module level)
            OB = "gapic.utils.options.Options.build"
            if (OB, e) in AMBIENT_ALLOWED and q.startswith("gapic.utils.options.") and OB in cg.path(pred, q) \
                    and not any(q in cg.external.get(c_, ()) for c_ in ()):
                callers = [c_ for c_ in pm.functions if c_ != q and any(isinstance(n_, ast.Call) and dotted(n_.func) == q.rsplit(".", 1)[1]
                                                                         for n_ in ast.walk(pm.functions[c_].node))]
                if all(c_.startswith(OB) or c_ == OB for c_ in callers):
                    r3.note(f"allowed {q} (helper of {OB}) -> {e}: {AMBIENT_ALLOWED[(OB, e)]}")
                    continue
            r3.violation(fi.module.path, fi.node.lineno, f"{q} -> {e}",
                         f"ambient input ({why}) reachable on the generation path: " + " -> ".join(cg.path(pred, q)[-5:]))
        r3.ok()
    # the one clock user in the repository must stay unreachable
    clock_users = [q for q, ex in cg.external.items() if any(x.split(".")[0] == "time" for x in ex)]
    report.set("clock_users_unreachable", [q for q in clock_users if q not in pred])
    # positive fixture: the matcher must recognise an ambient read when there is one
    fx = ast.parse(open(os.path.join(core.VERIF, "fixtures", "ambient_fixture.py")).read())
    found = {dotted(n.func) for n in ast.walk(fx) if isinstance(n, ast.Call) and dotted(n.func)}
    r3.need({"time.time", "os.getcwd"} <= found, "fixtures/ambient_fixture.py", "positive fixture no longer matches")

    # ---- C10.5 serialisers ------------------------------------------------------------
    for qual in ("gapic.schema.api.API.gapic_metadata_json", "gapic.samplegen_utils.snippet_index.SnippetIndex.get_metadata_json"):
        fi = pm.func(qual)
        calls = [n for n in ast.walk(fi.node) if isinstance(n, ast.Call) and ast.unparse(n.func).endswith("MessageToJson")]
        r5.need(calls, f"MessageToJson call in {qual}")
        for c in calls:
            r5.instance(qual)
            kws = {k.arg: ast.unparse(k.value) for k in c.keywords}
            r5.check(kws.get("sort_keys") == "True", fi.module.path, c.lineno, f"{qual}: {ast.unparse(c)[:80]}",
                     "MessageToJson on the response path without sort_keys=True")
    fi = pm.func("gapic.samplegen_utils.snippet_index.SnippetIndex.get_metadata_json")
    src = ast.unparse(fi.node)
    r5.instance("snippet index sort")
    from ..pymodel import nfunc as _nfunc
    nsrc = ast.unparse(_nfunc(pm, fi))       # sort keys given as operator.attrgetter(...) constants are inlined in the normal form
    by_tag = (".sort(key=" in src or "sorted(" in src) and any(k in nsrc for k in ("attrgetter('region_tag')", ".region_tag"))
    r5.check(by_tag and ("sort(" in src or "sorted(" in src), fi.module.path, fi.node.lineno,
             "SnippetIndex.get_metadata_json sorts snippets by region_tag",
             "snippets are no longer sorted by region_tag before serialisation")
