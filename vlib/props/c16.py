"""C16 - selective generation keeps exactly the listed RPCs and a closed set of types
(traversal / prune exhaustiveness, visited-set discipline, validation must-pass-through; behaviour of the pruned
library on concrete APIs is not claimed).

  C16.1 add_to_address_allowlist of every addressable wrapper adds its own address and recurses into every wrapper-typed
        dataclass field that can itself be allow-listed; recursion is guarded only by the field's own presence, and a
        visited-set test may only be on the node's *own* identity
  C16.2 pruning filters exactly services / all_messages / all_enums (Proto) and methods (Service) by membership; only
        non-dependency protos are pruned; a fully pruned proto is dropped
  C16.3 a method is admitted iff its fully-qualified name is in the allow-list; extended-LRO methods pull in the polling service+method
  C16.4 internal mode flips is_internal for unlisted methods only; names get `_` / `Base` exactly under is_internal; nothing pruned
  C16.5 all_library_settings validates before returning; unknown or version-mismatched methods are recorded and raise;
        API.build reads all_library_settings before pruning
"""
from __future__ import annotations

import ast

from .. import core
from ..cfg import CFG
from ..pymodel import pmatch, find_match, parse_ann
from ..skq import pm, calls

TRAVERSAL_EXCEPTIONS = {
    ("Service", "visible_resources"):
        "a view of every resource in scope, not a dependency of the service: resources are pulled in through "
        "Field.resource_reference of the fields actually kept",
    ("Proto", "all_messages"): "Proto delegates to its services by design: types are reached through the methods that use them",
    ("Proto", "all_enums"): "as all_messages",
}


def elem_classes(t, out):
    if t[0] == "cls":
        out.add(t[1].qual)
    elif t[0] in ("opt", "seq"):
        elem_classes(t[1], out)
    elif t[0] == "map":
        elem_classes(t[2], out)
    elif t[0] in ("union", "tuple"):
        for x in t[1]:
            elem_classes(x, out)


def check_traversal(report):
    r1 = report.rule("C16.1", "allow-list traversal is exhaustive over wrapper-typed fields; visited-set tests only on the node's own identity", floor=8)
    m = pm()
    holders = {ci.qual: ci for ci in m.classes.values() if "add_to_address_allowlist" in ci.members
               and ci.module.name in ("gapic.schema.wrappers", "gapic.schema.api")}
    r1.need(len(holders) >= 8, "classes with add_to_address_allowlist", str(len(holders)))
    for q, ci in sorted(holders.items()):
        fn = ci.members["add_to_address_allowlist"].node
        p = ci.module.path
        from ..pymodel import nfunc
        # the normal form unrolls `for t in (self.a, self.b): t.add_to_address_allowlist(...)` and looks through local aliases
        nfn = nfunc(m, m.func(f"{q}.add_to_address_allowlist"), keep={"add_to_address_allowlist"})
        src = ast.unparse(fn) + "\n" + ast.unparse(nfn)

        def _iter_src(e):      # tuple(X) / list(X) / sorted(X) / iter(X) iterate X
            while isinstance(e, ast.Call) and isinstance(e.func, ast.Name) and e.func.id in ("tuple", "list", "sorted", "iter") and len(e.args) == 1:
                e = e.args[0]
            if isinstance(e, (ast.List, ast.Tuple)) and len(e.elts) == 1 and isinstance(e.elts[0], ast.Starred):
                return _iter_src(e.elts[0].value)
            # [x for x in X if c] iterates (a selection of) X
            if isinstance(e, (ast.ListComp, ast.GeneratorExp)) and len(e.generators) == 1 and ast.unparse(e.elt) == ast.unparse(e.generators[0].target):
                return _iter_src(e.generators[0].iter)
            return ast.unparse(e)
        # own address
        own = ("address_allowlist.add(self.ident)" in src or "address_allowlist.add(self.meta.address)" in src)
        if ci.name in ("MessageType", "EnumType", "Method", "Service"):
            r1.instance(f"{ci.name}: own address")
            r1.check(own, p, fn.lineno, f"{ci.name}.add_to_address_allowlist adds its own address", f"{ci.name} must add its own address to the allow-list")
        # wrapper-typed fields
        for fname, mem in ci.members.items():
            if mem.kind != "field":
                continue
            cls_set = set()
            elem_classes(parse_ann(m, ci.module, mem.ann), cls_set)
            if not (cls_set & set(holders)):
                continue
            if (ci.name, fname) in TRAVERSAL_EXCEPTIONS:
                r1.note(f"exception {ci.name}.{fname}: {TRAVERSAL_EXCEPTIONS[(ci.name, fname)]}")
                continue
            r1.instance(f"{ci.name}.{fname}")
            direct = f"self.{fname}.add_to_address_allowlist(" in src
            looped = any(isinstance(n, ast.For) and _iter_src(n.iter) in (f"self.{fname}.values()", f"self.{fname}")
                         and "add_to_address_allowlist(" in ast.unparse(n) for tree_ in (fn, nfn) for n in ast.walk(tree_))
            r1.check(direct or looped, p, fn.lineno, f"{ci.name}.add_to_address_allowlist does not descend into `{fname}`",
                     f"types reachable through {ci.name}.{fname} would be pruned although a kept RPC still references them")
        # guards: every allow-list membership fact under which something runs must be about the node's OWN identity
        from .common_rules import stmt_guards
        # C16.1g (seed C16e): the walk into field f may depend only on f itself (is it set?) or on the node's own identity - a fact
        # about a SIBLING field (an early `return` in an unrolled loop over (self.a, self.b)) prunes what is reachable through f
        # whenever the sibling has the tested shape.  Judged on the normal form, where such loops are unrolled.
        for guards, st in stmt_guards(nfn):
            s_ = ast.unparse(st)
            if not (isinstance(st, ast.Expr) and s_.startswith("self.") and ".add_to_address_allowlist(" in s_):
                continue
            tgt = s_.split(".add_to_address_allowlist(")[0]            # e.g. self.metadata_type
            fld = tgt.split(".")[1] if tgt.count(".") >= 1 else None
            sibs = [f2 for f2, mem2 in ci.members.items() if mem2.kind == "field" and f2 != fld]
            for g in guards:
                if g[0] == "for" or "address_allowlist" in g[0]:
                    continue
                bad = [f2 for f2 in sibs if __import__("re").search(r"\bself\." + f2 + r"\b", g[0])]
                r1.instance(f"{ci.name}.{fld}: walk guard `{g[0]}`")
                r1.check(not bad, p, getattr(st, "lineno", fn.lineno),
                         f"{ci.name}.add_to_address_allowlist walks `{fld}` only when {'' if g[1] else 'not '}{g[0]} - a fact about sibling field {bad}",
                         f"whether the types reachable through {ci.name}.{fld} are kept must not depend on another field; they are "
                         "pruned for inputs where the sibling has the tested shape although a kept RPC still references them")
        sg = stmt_guards(fn)
        facts = {g for guards, _ in sg for g in guards if g[0] != "for" and "address_allowlist" in g[0]}
        for g in sorted(facts):
            r1.instance(f"{ci.name}: visited-set guard")
            r1.check(g[0] == "self.ident in address_allowlist", p, fn.lineno, f"{ci.name}: guard {'' if g[1] else 'not '}{g[0]}",
                     "a visited-set test may only be on the node's own identity (added in the same block as its children are walked); testing "
                     "another object's address skips that object's children whenever the address was added through a different path")
        if ci.name == "MessageType":
            own_g = ("self.ident in address_allowlist", False)
            adds = [(i, guards) for i, (guards, st) in enumerate(sg) if ast.unparse(st) == "address_allowlist.add(self.ident)"]
            walks = [(i, guards) for i, (guards, st) in enumerate(sg) if "add_to_address_allowlist(" in ast.unparse(st)]
            r1.instance("MessageType termination guard")
            ok = len(adds) == 1 and own_g in adds[0][1] and bool(walks) and all(own_g in g_ and i > adds[0][0] for i, g_ in walks)
            r1.check(ok, p, fn.lineno, "MessageType guard", "recursive messages terminate because a message adds itself before walking its children, "
                     "and does either only when it was not in the allow-list yet")
    # Field: resource reference
    f = holders["gapic.schema.wrappers.Field"].members["add_to_address_allowlist"].node
    r1.instance("Field.resource_reference")
    node, _ = find_match("resource_messages[self.resource_reference].add_to_address_allowlist(address_allowlist=address_allowlist, resource_messages=resource_messages)", f)
    r1.check(node is not None, holders["gapic.schema.wrappers.Field"].module.path, f.lineno, "Field: referenced resource", "a resource referenced by a kept field must be kept")
    # Method: extended lro pulls polling service + method
    mt = holders["gapic.schema.wrappers.Method"].members["add_to_address_allowlist"].node
    ex = [n for n in mt.body if isinstance(n, ast.If) and ast.unparse(n.test) == "self.extended_lro and self.operation_service"]
    r1.instance("Method: extended-operation polling service")
    ok = len(ex) == 1
    if ok:
        body = ex[0].body
        top = [ast.unparse(s) for s in body]
        ok = any(t.startswith("address_allowlist.add(") and "meta.address" in t for t in top) and \
            any(".operation_polling_method.add_to_address_allowlist(" in t for t in top)
    r1.check(ok, holders["gapic.schema.wrappers.Method"].module.path, mt.lineno, "extended-LRO branch",
             "a kept extended-LRO method must unconditionally keep its operation service and that service's polling method")


def check_pruning(report):
    r2 = report.rule("C16.2", "pruning filters exactly services / all_messages / all_enums and methods by allow-list membership; dependencies untouched", floor=5)
    m = pm()
    pp = m.func("gapic.schema.api.Proto.prune_messages_for_selective_generation")
    p = pp.module.path
    pats = {
        "services": "{_K_: _V_.prune_messages_for_selective_generation(address_allowlist=address_allowlist) for _K_, _V_ in self.services.items() if _V_.meta.address in address_allowlist}",
        "all_messages": "{_K_: _V_ for _K_, _V_ in self.all_messages.items() if _V_.ident in address_allowlist}",
        "all_enums": "{_K_: _V_ for _K_, _V_ in self.all_enums.items() if _V_.ident in address_allowlist}",
    }
    for name, pat in pats.items():
        node, _ = find_match(pat, pp.node)
        r2.instance(f"Proto.{name}")
        r2.check(node is not None, p, pp.node.lineno, f"Proto prune: {name}", f"{name} must be filtered by allow-list membership and nothing else")
    rets = [n for n in ast.walk(pp.node) if isinstance(n, ast.Return) and n.value is not None and not (isinstance(n.value, ast.Constant))]
    r2.instance("Proto replace")
    r2.check(len(rets) == 1 and pmatch("dataclasses.replace(self, services=_S_, all_messages=_M_, all_enums=_E_)", rets[0].value) is not None, p, pp.node.lineno,
             ast.unparse(rets[0].value)[:120] if rets else "", "only services, all_messages and all_enums are replaced")
    sp = m.func("gapic.schema.wrappers.Service.prune_messages_for_selective_generation")
    node, _ = find_match("dataclasses.replace(self, methods={_K_: _V_ for _K_, _V_ in self.methods.items() if _V_.ident in address_allowlist})", sp.node)
    r2.instance("Service.methods")
    r2.check(node is not None, sp.module.path, sp.node.lineno, "Service prune", "a service keeps exactly the allow-listed methods")
    bd = m.func("gapic.schema.api.API.build")
    node, _ = find_match("{_K_: _V_ for _K_, _V_ in _A_.all_protos.items() if _K_ not in _A_.protos}", bd.node)
    r2.instance("dependencies copied")
    r2.check(node is not None, bd.module.path, bd.node.lineno, "dependency protos copied unchanged", "dependency packages must be untouched")
    loops = [n for n in ast.walk(bd.node) if isinstance(n, ast.For) and "prune_messages_for_selective_generation" in ast.unparse(n)]
    r2.check(len(loops) == 1 and ast.unparse(loops[0].iter).endswith(".protos.items()"), bd.module.path, bd.node.lineno, "prune loop over api.protos", "only target protos are pruned")
    walk = [n for n in ast.walk(bd.node) if isinstance(n, ast.For) and "add_to_address_allowlist" in ast.unparse(n)]
    r2.check(len(walk) == 1 and ast.unparse(walk[0].iter).endswith(".protos.values()") and loops and
             bd.node.body.index(_top(bd.node, walk[0])) <= bd.node.body.index(_top(bd.node, loops[0])), bd.module.path, bd.node.lineno,
             "allow-list built over all target protos before pruning", "the allow-list must be complete before any proto is pruned")


def _top(fn, node):
    for st in fn.body:
        if any(x is node for x in ast.walk(st)):
            return st
    return fn.body[0]


def check_selection_and_internal(report):
    r3 = report.rule("C16.3", "a method is kept iff its fully-qualified name is listed", floor=1)
    m = pm()
    sv = m.func("gapic.schema.wrappers.Service.add_to_address_allowlist")
    from .common_rules import stmt_guards
    from ..pymodel import nfunc as _nfunc
    walks = [(guards, st) for guards, st in stmt_guards(sv.node) if "add_to_address_allowlist(" in ast.unparse(st)
             and any(g[0] == "for" and g[2] == "self.methods.values()" for g in guards)]
    if len(walks) != 1:
        # select-then-traverse (`chosen = [m for m in self.methods.values() if ...]; for m in chosen: ...`): read on the normal form, where the
        # selection is substituted into the loop and stmt_guards expands it into its loop and condition
        nsv = _nfunc(m, sv, keep={"add_to_address_allowlist"})
        walks = [(guards, st) for guards, st in stmt_guards(nsv) if "add_to_address_allowlist(" in ast.unparse(st)
                 and any(g[0] == "for" and g[2] == "self.methods.values()" for g in guards)]
    r3.instance("Service method selection")
    ok = len(walks) == 1
    if ok:
        guards, st = walks[0]
        loop = [g for g in guards if g[0] == "for" and g[2] == "self.methods.values()"][0]
        conds = [g for g in guards if g[0] != "for"]
        recv = ast.unparse(st).split(".add_to_address_allowlist(")[0]
        # the receiver is the loop element itself, or the target of a `for <recv> in [<elem> for <elem> in ... if ...]` over it
        aliases = {loop[1]} | {ast.unparse(n.target) for tree_ in (sv.node, locals().get("nsv")) if tree_ is not None for n in ast.walk(tree_)
                              if isinstance(n, ast.For) and isinstance(n.iter, (ast.ListComp, ast.GeneratorExp)) and len(n.iter.generators) == 1
                              and ast.unparse(n.iter.elt) == loop[1] and ast.unparse(n.iter.generators[0].target) == loop[1]}
        ok = conds == [(f"{loop[1]}.ident.proto in method_allowlist", True)] and recv in aliases
    r3.check(ok, sv.module.path, sv.node.lineno, "if method.ident.proto in method_allowlist", "exactly the listed RPCs are walked")
    r4 = report.rule("C16.4", "internal mode: is_internal flipped for unlisted methods only; `_` / `Base` prefixes exactly under is_internal", floor=4)
    from ..pymodel import nmatch, nreturn, decision_leaves, string_properties
    wm = m.func("gapic.schema.wrappers.Method.with_internal_methods")
    r4.instance("Method.with_internal_methods")
    e = nreturn(m, wm, keep={"replace"})
    leaves = decision_leaves(e) if e is not None else []
    listed = [v for c, v in leaves if ("self.ident.proto in public_methods", True) in c]
    other = [v for c, v in leaves if ("self.ident.proto in public_methods", False) in c]
    ok = len(leaves) == 2 and len(listed) == 1 and ast.unparse(listed[0]) == "self" and len(other) == 1 and isinstance(other[0], ast.Call) \
        and any(k.arg == "is_internal" and ast.unparse(k.value) == "True" for k in other[0].keywords)
    r4.check(ok, wm.module.path, wm.node.lineno, "Method.with_internal_methods", "listed methods are returned unchanged; all others get is_internal=True")
    # the containers: Service / Proto.with_internal_methods map EVERY member through the level below; an unchanged `self` may be
    # returned only under a condition that implies nothing below changes (decided on finite models of the guard)
    from ..pymodel import pmatch
    from ..pyeval import Evaluator, UNKNOWN
    import itertools
    for qual, coll in (("gapic.schema.wrappers.Service.with_internal_methods", "methods"), ("gapic.schema.api.Proto.with_internal_methods", "services")):
        f = m.func(qual)
        r4.instance(qual.split("schema.")[1])
        e = nreturn(m, f, keep={"replace", "with_internal_methods"})
        r4.need(e is not None, qual, "does not reduce to one conditional expression")
        mapped_pat = f"dataclasses.replace(self, {coll}={{_K_: _V_.with_internal_methods(public_methods=public_methods) for _K_, _V_ in self.{coll}.items()}})"
        n_mapped = 0
        for conds, leaf in decision_leaves(e):
            txt = ast.unparse(leaf)
            if pmatch(mapped_pat, leaf) is not None:
                n_mapped += 1
                continue
            if isinstance(leaf, ast.Call) and ast.unparse(leaf.func).endswith("replace"):
                r4.violation(f.module.path, f.node.lineno, f"{qual.split('.')[-2]}.with_internal_methods: {txt[:120]}",
                             f"the copy must carry every entry of self.{coll}, each mapped through with_internal_methods(public_methods=public_methods)")
                continue
            r4.need(txt == "self", qual, f"unrecognised result `{txt[:80]}`")
            if coll == "services":
                # only the identity test on the mapped dict is accepted: all(<mapped>[k] is v for k, v in self.services.items())
                ok = len(conds) == 1 and list(conds)[0][1] is True and pmatch(
                    "all((_ANYM_[_K_] is _V_ for _K_, _V_ in self.services.items()))", ast.parse(list(conds)[0][0], mode="eval").body) is not None
                if ok:
                    b = pmatch("all((_ANYM_[_K_] is _V_ for _K_, _V_ in self.services.items()))", ast.parse(list(conds)[0][0], mode="eval").body)
                    ok = pmatch("{_K_: _V_.with_internal_methods(public_methods=public_methods) for _K_, _V_ in self.services.items()}",
                                ast.parse(b["_ANYM_"], mode="eval").body) is not None
                r4.need(ok, qual, f"`return self` under {sorted(conds)}: cannot decide that no service changes")
                continue
            # Service level: every model in which the guard holds must have all its method names listed
            names_all = ["p.S.A", "p.S.B"]
            for k in range(len(names_all) + 1):
                names = names_all[:k]
                for public in itertools.chain.from_iterable(itertools.combinations(names_all + ["p.T.C"], j) for j in range(4)):
                    env = {"self": {"methods": {n.split(".")[-1]: {"ident": {"proto": n}, "name": n.split(".")[-1]} for n in names}},
                           "public_methods": frozenset(public)}
                    ev = Evaluator(env)
                    vals = []
                    for ctext, pol in conds:
                        v = ev.ev(ast.parse(ctext, mode="eval").body)
                        r4.need(v is not UNKNOWN, qual, f"cannot evaluate the guard `{ctext[:100]}` of `return self` on a finite model")
                        vals.append(bool(v) == pol)
                    if all(vals) and not set(names) <= set(public):
                        r4.violation(f.module.path, f.node.lineno, f"Service.with_internal_methods: return self under {sorted(conds)}",
                                     f"the service is returned unmarked although it has unlisted methods (model: methods {names}, public_methods "
                                     f"{sorted(public)}): those methods stay public instead of becoming internal")
                        break
                else:
                    continue
                break
        r4.check(n_mapped >= 1, f.module.path, f.node.lineno, f"{qual.split('.')[-2]}.with_internal_methods", f"some path must map self.{coll} through with_internal_methods")
    cmn = m.func("gapic.schema.wrappers.Method.client_method_name")
    r4.instance("client_method_name")
    r4.check(nmatch(m, "make_private(_ANYN_) if self.is_internal else _ANYN_", cmn, keep={"make_private"}) is not None, cmn.module.path, cmn.node.lineno,
             "client_method_name", "leading underscore exactly for internal methods")
    sp = string_properties(m)
    for prop in ("client_name", "async_client_name"):
        f = m.func(f"gapic.schema.wrappers.Service.{prop}")
        r4.instance(prop)
        parts = sp.get(prop, (None,))[0]
        r4.check(bool(parts) and parts[0] == ("cond", "is_internal", "Base", "") and parts[1] == ("attr", "name"), f.module.path, f.node.lineno, prop,
                 "`Base` prefix exactly for internal services")
    si = m.func("gapic.schema.wrappers.Service.is_internal")
    r4.instance("Service.is_internal")
    r4.check(find_match("any((_M_.is_internal for _M_ in self.methods.values()))", si.node)[0] is not None, si.module.path, si.node.lineno, "Service.is_internal", "a service is internal iff one of its methods is")
    bd = m.func("gapic.schema.api.API.build")
    br = [n for n in ast.walk(bd.node) if isinstance(n, ast.If) and ast.unparse(n.test).endswith(".generate_omitted_as_internal")]
    r4.instance("internal branch prunes nothing")
    r4.check(len(br) == 1 and "prune_messages_for_selective_generation" not in "".join(ast.unparse(s) for s in br[0].body)
             and "with_internal_methods" in "".join(ast.unparse(s) for s in br[0].body), bd.module.path, bd.node.lineno, "generate_omitted_as_internal branch",
             "with generate_omitted_as_internal nothing is omitted")


def check_validation(report):
    r5 = report.rule("C16.5", "library settings are validated before use: unknown / wrong-version methods recorded, errors raise", floor=4)
    m = pm()
    al = m.func("gapic.schema.api.API.all_library_settings")
    body = [s for s in al.node.body if not (isinstance(s, ast.Expr) and isinstance(s.value, ast.Constant))]
    r5.instance("validate first")
    r5.check(body and isinstance(body[0], ast.Expr) and ast.unparse(body[0].value).replace("\n", "").replace(" ", "") ==
             "self.enforce_valid_library_settings(self.service_yaml_config.publishing.library_settings)", al.module.path, al.node.lineno,
             ast.unparse(body[0])[:120] if body else "", "all_library_settings must validate the raw YAML settings before returning")
    ev = m.func("gapic.schema.api.API.enforce_valid_library_settings")
    p = ev.module.path
    # the per-method tests may live in the function or in a helper it calls (`self._x(...)`): collect (test, produces-an-error) pairs from both
    fns = [ev.node]
    for c in ast.walk(ev.node):
        if isinstance(c, ast.Call) and isinstance(c.func, ast.Attribute) and isinstance(c.func.value, ast.Name) and c.func.value.id in ("self", "cls"):
            q = f"gapic.schema.api.API.{c.func.attr}"
            if q in m.functions and q != ev.qual and c.func.attr not in ("all_methods",):
                fns.append(m.functions[q].node)

    def errorish(body):
        txt = " ".join(ast.unparse(b) for b in body).lower()
        return "error" in txt or any(isinstance(b, ast.Return) and b.value is not None and not (isinstance(b.value, ast.Constant) and b.value.value is None) for b in body)
    ifs = [(n.test, errorish(n.body)) for f_ in fns for n in ast.walk(f_) if isinstance(n, ast.If)]
    ifs += [(n.test, not (isinstance(n.body, ast.Constant) and n.body.value is None)) for f_ in fns for n in ast.walk(f_) if isinstance(n, ast.IfExp)]
    r5.instance("unknown method")
    r5.check(any(pmatch("_M_ not in self.all_methods", t) is not None and e_ for t, e_ in ifs), p, ev.node.lineno,
             "method_name not in self.all_methods", "an unknown method must be recorded as an error")
    r5.instance("version mismatch")
    r5.check(any((pmatch("not _M_.startswith(_L_.version)", t) is not None or pmatch("not _M_.startswith(_V_)", t) is not None) and e_ for t, e_ in ifs), p, ev.node.lineno,
             "not method_name.startswith(version)", "a method of another version must be recorded as an error")
    r5.instance("raise")
    fin = [n for n in ev.node.body if isinstance(n, ast.If) and any(isinstance(x, ast.Raise) and "ClientLibrarySettingsError" in ast.unparse(x) for x in n.body)]
    r5.check(len(fin) == 1, p, ev.node.lineno, "if all_errors: raise ClientLibrarySettingsError", "recorded errors must raise")
    bd = m.func("gapic.schema.api.API.build")
    reads = [n for n in ast.walk(bd.node) if isinstance(n, ast.Attribute) and n.attr == "all_library_settings"]
    prune = [n for n in ast.walk(bd.node) if isinstance(n, ast.Attribute) and n.attr == "prune_messages_for_selective_generation"]
    r5.instance("read before pruning")
    r5.check(reads and prune and min(x.lineno for x in reads) < min(x.lineno for x in prune), bd.module.path, bd.node.lineno,
             "API.build reads all_library_settings before pruning", "settings must be validated before they drive pruning")


def run(report: core.Report):
    report.explanation = ("Exhaustiveness of the allow-list traversal computed from the dataclass field annotations of every addressable wrapper, "
                          "visited-set discipline, comprehension-shape rules for pruning, and validation must-pass-through.")
    check_traversal(report)
    check_pruning(report)
    check_selection_and_internal(report)
    check_validation(report)
