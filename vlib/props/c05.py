"""C05 - flattened keyword arguments are equivalent to an explicit request object
(structure; wire equality per value is not claimed).

  C05.1 signature: keyword-only parameters, one per flattened field in declared order, default None
  C05.2 mutual exclusion: `request is not None and <some flattened param is not None>` raises ValueError and
        dominates the rpc call and every write to the request
  C05.3 application: every flattened field is applied exactly once, under the right guard, to its own key
  C05.4 Python: _fields_mapping is insertion-ordered in signature order, suffixes reserved leaf names;
        MessageType.get_field looks the suffixed name up under the same predicate
  C05.5 the asyncio sibling satisfies the same rules
"""
from __future__ import annotations

import ast
import itertools

from .. import core
from ..pymodel import pmatch, find_match
from ..tmodel import f_atoms, f_eval
from ..skq import D, Dn, Lib, M, pm, calls, own_body_walk
from .clientmodel import client_methods, CM

FF = M + ".flattened_fields"
NAME = "{ELEM(" + FF + ".values()).name}"
KEYH = "{KEY(" + FF + ")}"
FLAT_LIST = "[{', '.join(" + FF + ".values()|map(attribute='name'))}]"      # canonical form of `x|join(', ', attribute='name')` (vlib/tmodel.py)

# accepted idioms for "some flattened parameter was given" over the list variable _L_
GIVEN_IDIOMS = (
    "len([_P_ for _P_ in _L_ if _P_ is not None]) > 0",
    "any((_P_ is not None for _P_ in _L_))",
    "any([_P_ is not None for _P_ in _L_])",
    "len([_P_ for _P_ in _L_ if _P_ is not None]) != 0",
    "bool([_P_ for _P_ in _L_ if _P_ is not None])",
)


def writes_to_request(cm: CM):
    """statements that modify `request` (attribute stores, extend/update calls, rebinding)"""
    out = []
    for n in own_body_walk(cm.fn):
        if isinstance(n, ast.Assign):
            for t in n.targets:
                d = D(cm.sk, t)
                if d == "request" or d.startswith("request."):
                    out.append(n)
        elif isinstance(n, ast.Expr) and isinstance(n.value, ast.Call):
            d = D(cm.sk, n.value.func)
            if d.startswith("request.") and d.rsplit(".", 1)[-1] in ("extend", "update", "append", "CopyFrom", "MergeFrom"):
                out.append(n)
    return out


def check_client(report, lib: Lib, is_async: bool):
    label = "async" if is_async else "sync"
    r1 = report.rule("C05.1", "flattened parameters: keyword-only, one per flattened field in declared order, default None", floor=8)
    r2 = report.rule("C05.2", "ValueError when request and a flattened argument are both given; the check dominates the call and "
                              "every write to the request", floor=8)
    r3 = report.rule("C05.3", "each flattened field is applied exactly once, to its own key, under `is not None` (assign) or "
                              "truthiness (extend/update)", floor=8)
    seen_flat = 0
    for cm in client_methods(lib, is_async, want2=(report.tier == "thorough")):
        sk = cm.sk
        cs = cm.v(".client_streaming")
        if cs:
            continue
        nflat = sk.valuation.assigned.get("LOOP:" + FF)
        flat_true = cm.atom(FF)
        a = cm.fn.args
        kwonly = [Dn(sk, x.arg) for x in a.kwonlyargs]
        pos = [Dn(sk, x.arg) for x in a.args]
        r1.instance({"client": label, "signature": pos + ["*"] + kwonly})
        r1.check(pos == ["self", "request"], *cm.where(), f"positional parameters {pos}", "only self and request may be positional")
        flat_params = [k for k in kwonly if k not in ("retry", "timeout", "metadata")]
        if nflat is not None:
            r1.check(flat_params == [NAME] * nflat, *cm.where(), f"flattened parameters {flat_params} (loop arity {nflat})",
                     "keyword-only parameters must be exactly the flattened fields, in the order of method.flattened_fields")
            for arg, dflt in zip(a.kwonlyargs, a.kw_defaults):
                if Dn(sk, arg.arg) == NAME:
                    r1.check(dflt is not None and D(sk, dflt) == "None", *cm.where(arg), f"default of {NAME}", "flattened parameters default to None")
                    seg, fseg = sk.seg_of_node(arg), sk.seg_of_node(cm.fn)
                    extra = [g for g in seg.guards[len(fseg.guards):] if g[0] != "loop" and not (g[0] == "n" and "client_streaming" in str(g))]
                    r1.check(not extra, *cm.where(arg), f"parameter {NAME} guarded by {extra}", "the signature loop must be unfiltered")
        if not flat_true:
            # no flattened fields: no exclusion check expected, no application
            continue
        seen_flat += 1
        rc = cm.rpc_calls()
        if len(rc) != 1:
            continue
        call_stmt = cm.stmt_of(rc[0])
        # ---- C05.2
        r2.instance({"client": label, "method": cm.name})
        checks = [s for s in cm.fn.body if isinstance(s, ast.If) and any(isinstance(b, ast.Raise) for b in s.body)
                  and "request is not None" in D(sk, s.test)]
        r2.check(len(checks) == 1, *cm.where(), f"{len(checks)} exclusion checks in {cm.name}",
                 "exactly one `if request is not None and <flattened given>: raise ValueError` expected")
        if len(checks) == 1:
            chk = checks[0]
            t = chk.test
            ok = isinstance(t, ast.BoolOp) and isinstance(t.op, ast.And) and len(t.values) == 2 and D(sk, t.values[0]) == "request is not None"
            r2.check(ok, *cm.where(chk), D(sk, t), "test must be `request is not None and <some flattened argument is not None>`")
            raise_ = [b for b in chk.body if isinstance(b, ast.Raise)][0]
            r2.check(raise_.exc is not None and D(sk, raise_.exc).startswith("ValueError("), *cm.where(raise_), D(sk, raise_.exc)[:60] if raise_.exc else "",
                     "the exclusion check must raise ValueError")
            if ok:
                given = t.values[1]
                # resolve one level of local variable
                expr, listvar = given, None
                if isinstance(given, ast.Name):
                    defs = [s for s in cm.fn.body if isinstance(s, ast.Assign) and D(sk, s.targets[0]) == given.id]
                    r2.check(len(defs) == 1, *cm.where(chk), f"definition of {given.id}", "the 'given' flag must be defined exactly once")
                    expr = defs[0].value if defs else None
                b = None
                if expr is not None:
                    for idiom in GIVEN_IDIOMS:
                        b = pmatch(idiom, expr)
                        if b is not None:
                            break
                r2.check(b is not None, *cm.where(chk), D(sk, expr) if expr is not None else "<none>",
                         "the flag must count arguments that are `not None` (a falsy-but-given value such as 0, '' or False is still given)")
                if b is not None:
                    ldefs = [s for s in cm.fn.body if isinstance(s, ast.Assign) and D(sk, s.targets[0]) == b["_L_"]]
                    as_loop = len(ldefs) == 1 and isinstance(ldefs[0].value, ast.List) and nflat is not None and len(ldefs[0].value.elts) == nflat \
                        and all(D(sk, e) == NAME for e in ldefs[0].value.elts)
                    if as_loop:
                        # written as an explicit loop over the flattened fields: the loop must be unfiltered
                        for e in ldefs[0].value.elts:
                            es, ls = sk.seg_of_node(e), sk.seg_of_node(ldefs[0])
                            extra = [g for g in es.guards[len(ls.guards):] if g[0] != "loop"]
                            r2.check(not extra, *cm.where(e), f"list element guarded by {extra}", "every flattened parameter must be in the tested list")
                    r2.check(len(ldefs) == 1 and (D(sk, ldefs[0].value) == FLAT_LIST or as_loop), *cm.where(chk),
                             D(sk, ldefs[0].value) if ldefs else "<none>", f"the list tested must be all flattened parameters {FLAT_LIST}")
            r2.check(cm.cfg.dominates(chk, call_stmt), *cm.where(chk), "exclusion check vs rpc call", "the check must dominate the rpc call")
            for w in writes_to_request(cm):
                st = cm.stmt_of(w) or w
                r2.check(cm.cfg.dominates(chk, st), *cm.where(w), f"write {D(sk, w)[:60]} before the exclusion check",
                         "no write to the request may be reachable without passing the exclusion check")
        # ---- C05.3 application
        if not nflat:
            continue
        r3.instance({"client": label, "method": cm.name, "repeated": cm.atom("ELEM(" + FF + ".values()).repeated"),
                     "map": cm.atom("ELEM(" + FF + ".values()).map"),
                     "same_pkg": cm.atom(f"{M}.input.ident.package == {M}.ident.package")})
        apps = []
        for n in own_body_walk(cm.fn):
            if isinstance(n, ast.Assign) and D(sk, n.targets[0]) == f"request.{KEYH}":
                apps.append(("assign", n, D(sk, n.value)))
            elif isinstance(n, ast.Expr) and isinstance(n.value, ast.Call) and D(sk, n.value.func) in (f"request.{KEYH}.extend", f"request.{KEYH}.update"):
                apps.append((D(sk, n.value.func).rsplit(".", 1)[1], n, D(sk, n.value.args[0]) if n.value.args else ""))
            elif isinstance(n, ast.Call) and D(sk, n.func) == "{" + M + ".input.ident}":
                for k in n.keywords:
                    if k.arg and Dn(sk, k.arg) == NAME:
                        apps.append(("ctor", n, D(sk, k.value)))
        per_field = len(apps) / max(nflat, 1)
        r3.check(len(apps) == nflat, *cm.where(), f"{len(apps)} applications for {nflat} flattened field(s): {[a[0] for a in apps]}",
                 "every flattened field must be applied to the request exactly once in each feasible shape "
                 "(repeated / map / same- or cross-package request)")
        for kind, node, value in apps:
            r3.check(value == NAME, *cm.where(node), f"{kind} of {value}", f"the value applied must be the parameter {NAME} paired with key {KEYH}")
            if kind == "ctor":
                continue
            # the template guards of the statement must ENTAIL a field shape this kind of application is valid for (truth-table over
            # the atoms of the guards; `!=`/`==` on the packages are complementary; every map field is also repeated)
            rep_a, map_a = "ELEM(" + FF + ".values()).repeated", "ELEM(" + FF + ".values()).map"
            same_a = f"{M}.input.ident.package == {M}.ident.package"
            diff_a = f"{M}.input.ident.package != {M}.ident.package"
            guards = sk.guards_of_node(node)
            atoms = set()
            for g in guards:
                f_atoms(g, atoms)
            atoms |= {rep_a, map_a, same_a, diff_a}
            atoms = sorted(atoms)
            counter = None
            if len(atoms) <= 14:
                for bits in itertools.product((False, True), repeat=len(atoms)):
                    env = dict(zip(atoms, bits))
                    if env[same_a] == env[diff_a] or (env[map_a] and not env[rep_a]):
                        continue
                    for a_ in atoms:
                        if a_.startswith("LOOP:"):
                            env[a_] = True
                    if not all(f_eval(g, env) for g in guards):
                        continue
                    value_elem = any("struct_pb2.Value" in a_ and v for a_, v in env.items())
                    ok_shape = {"assign": (not env[rep_a]) or env[same_a],      # proto-plus wrappers accept assignment of lists and dicts
                                "extend": env[rep_a] and (not env[map_a] or value_elem),
                                "update": env[map_a]}[kind]
                    if not ok_shape:
                        counter = {a_.rsplit(".", 1)[-1][:44]: v for a_, v in env.items() if a_ in (rep_a, map_a, same_a)}
                        break
            why = {"assign": "singular fields, or any field of a proto-plus request (request in the API's own package)",
                   "extend": "repeated fields that are not maps (a map container has no extend(); every map field is also `repeated`)",
                   "update": "map fields"}[kind]
            r3.check(counter is None, *cm.where(node), f"{kind} of a flattened field reachable with {counter}",
                     f"`{kind}` is only valid for {why}; the template guards of this statement admit a field shape for which it is not")
            # enclosing guard
            parent = None
            for s in ast.walk(cm.fn):
                if isinstance(s, ast.If) and node in s.body:
                    parent = s
            exps = [f"{NAME} is not None"] if kind == "assign" else [NAME, f"{NAME} is not None"]
            # (extending / updating with an empty value is a no-op, so either guard is right for those)
            r3.check(parent is not None and D(sk, parent.test) in exps, *cm.where(node),
                     f"{kind} guarded by {D(sk, parent.test) if parent is not None else None}",
                     f"{kind} must be guarded by `if {exps[0]}:`" + (" (a given falsy value must still be assigned)" if kind == "assign" else ""))
    r1.need(seen_flat >= 2, f"{label} client methods with flattened fields")


def check_python(report):
    r = report.rule("C05.4", "_fields_mapping: OrderedDict in signature order, key suffixed iff the leaf proto name is reserved; "
                             "get_field and the key are suffixed under Field.name's condition (reserved and proto-plus)", floor=5)
    m = pm()
    fm = m.func("gapic.schema.wrappers.Method._fields_mapping")
    p = fm.module.path
    from .common_rules import fields_mapping_facts
    from ..pymodel import fmatch
    ff = fields_mapping_facts()
    r.instance("suffix rule")
    r.check(ff["key_rule"], p, fm.node.lineno, f"flattened key: {ff['shown']}",
            "the flattened key must be the stripped signature path plus '_' exactly when the resolved leaf field's proto name is in RESERVED_NAMES")
    r.check(ff["key_pos"], p, fm.node.lineno, "entries are (key, resolved field)", "each entry pairs that key with the field resolved by get_field")
    r.instance("ordered")
    r.check(ff["order"], p, fm.node.lineno, "entries in signature order", "the mapping must be built in signature order (insertion-ordered, no re-ordering)")
    gf = m.func("gapic.schema.wrappers.MessageType.get_field")
    r.instance("get_field")
    node_pp, _, _form = fmatch(m, "_X_.fields[_F_ + ('_' if _F_ in utils.RESERVED_NAMES and _X_.meta.address.is_proto_plus_type else '')]", gf)
    node_un, _, _form = fmatch(m, "_X_.fields[_F_ + ('_' if _F_ in utils.RESERVED_NAMES else '')]", gf)
    r.need(node_pp is not None or node_un is not None, "MessageType.get_field: self.fields[<name> + ('_' if <reserved...> else '')]", "lookup key not recognised")
    r.check(node_pp is not None, p, gf.node.lineno, "get_field lookup: key suffixed for every reserved word",
            "the keys of `fields` are Field.name (suffixed only when reserved AND proto-plus); get_field must compute its key under the same condition, "
            "or a method_signature naming a reserved-word field (`type`) of a dependency-package (pb2) request raises KeyError('type_') during generation")
    r.instance("key suffix agrees with Field.name")
    r.check(ff["proto_plus_only"] or not ff["key_rule"], p, fm.node.lineno, "flattened key suffixed for every reserved word",
            "the key is written as `request.<key> = <param>`; a pb2 request keeps the attribute `type`, so the key may be suffixed only when the "
            "resolved field's own Python name is (reserved AND proto-plus)")
    r.instance("flattened_fields")
    fl = m.func("gapic.schema.wrappers.Method.flattened_fields")
    r.check("client_pb2.method_signature" in ast.unparse(fl.node) and "_fields_mapping" in ast.unparse(fl.node), p, fl.node.lineno,
            "Method.flattened_fields", "flattened_fields must come from the method_signature annotation through _fields_mapping")


def run(report: core.Report):
    report.explanation = ("Signature, mutual-exclusion (dominance on the skeleton CFG) and per-shape application rules on both client "
                          "templates for every covering valuation of (repeated, map, same/cross package), plus the Python mapping.")
    report.assumptions.append("proto-plus assignment / extend / update semantics are outside the analysis")
    lib = Lib()
    check_client(report, lib, False)
    check_client(report, lib, True)
    check_python(report)
    r5 = report.rule("C05.5", "sync and asyncio clients are both checked by the same rules", floor=1)
    r5.instance("siblings")
    r5.ok()
