"""C14 - generated samples are valid and consistent with their metadata
(region-tag decomposition, marker writer/reader agreement, sample skeletons, docstring embedding, default request
shape; running a sample against a server is not claimed).

  C14.1 region tag = <shortname>_<version>_generated_<Service>_<Rpc>_<sync|async>; one spec per service x client kind x rpc of
        gapic_metadata, REST skipped iff gRPC is present
  C14.2 segment markers: every regex the snippet index reads matches a line the sample template writes, on every calling-form
        profile, in order, with START/END at column 0 around them
  C14.3 every calling-form x transport profile of the sample skeleton parses; await / async for / async def exactly under grpc-async
  C14.4 docstring embedding: both clients print snippet.full_snippet|indent(12, first) under `snippet is not none`, looked up with
        (service.name, method.name, sync=True|False); full_snippet slices [start-1:end]
  C14.5 metadata fields come from the accessors the templates print
  C14.6 the import line of a sample is well-formed for an empty module namespace
  C14.7 default request: first member of every oneof + required fields that are not oneof members, recursing into messages
"""
from __future__ import annotations

import ast
import re

from jinja2 import nodes

from .. import core
from ..constraints import CONSTRAINTS
from ..pymodel import pmatch, find_match
from ..skq import D, Dn, Lib, M, SVC, pm, calls, where
from ..tmodel import cover, TemplateSet
from .c01 import sample_profiles

SAMPLE_T = "examples/sample.py.j2"


def check_specs(report):
    r1 = report.rule("C14.1", "region tag decomposition and spec enumeration", floor=5)
    m = pm()
    fi = m.func("gapic.samplegen.samplegen.generate_sample_specs")
    fn, p = fi.node, fi.module.path
    tags = [n for n in ast.walk(fn) if isinstance(n, ast.Assign) and ast.unparse(n.targets[0]) == "region_tag" and isinstance(n.value, ast.JoinedStr)]
    r1.need(len(tags) == 1, "region_tag = f'...'")
    parts = []
    for v in tags[0].value.values:
        parts.append(v.value if isinstance(v, ast.Constant) else "{" + ast.unparse(v.value) + "}")
    shape = "".join(parts)
    r1.instance(shape)
    mm = re.fullmatch(r"\{(\w+)\}_\{(\w+)\}_generated_\{(\w+)\}_\{(\w+)\}_\{(\w+)\}", shape)
    r1.check(mm is not None, p, tags[0].lineno, shape, "the tag must be <shortname>_<version>_generated_<service>_<rpc>_<sync|async>")
    if mm:
        short, ver, svc, rpc, soa = mm.groups()

        def definition(name):
            ds = [n for n in ast.walk(fn) if isinstance(n, ast.Assign) and ast.unparse(n.targets[0]) == name]
            return ast.unparse(ds[0].value).replace("\n", "") if len(ds) == 1 else None
        r1.instance("shortname")
        d = definition(short) or ""
        r1.check(d.endswith("].shortname") and "api_schema.services[" in d, p, fn.lineno, f"{short} = {d}", "the first component is the service's host short name")
        r1.instance("version")
        r1.check(definition(ver) == "api_schema.naming.version", p, fn.lineno, f"{ver} = {definition(ver)}", "the second component is the API version")
        r1.instance("sync/async")
        r1.check((definition(soa) or "").startswith("_sync_or_async_from_transport("), p, fn.lineno, f"{soa} = {definition(soa)}", "sync/async derives from the transport")
        loops = [n for n in ast.walk(fn) if isinstance(n, ast.For)]
        its = [ast.unparse(l.iter) for l in loops]
        r1.instance(its)
        r1.check(len(loops) == 3 and its[0].endswith(".services.items()") and its[1].endswith(".clients.items()") and its[2].endswith((".rpcs.items()", ".rpcs", ".rpcs.keys()")), p, fn.lineno, str(its),
                 "one spec per service x client kind x rpc of gapic_metadata (dict keys: unique by construction)")
        targets = {ast.unparse(loops[i].target): i for i in range(len(loops))}
        r1.check(any(svc in t for t in targets) and any(rpc in t for t in targets), p, fn.lineno, f"tag components {svc}, {rpc}", "service and rpc come from the loop keys")
    sk = [n for n in ast.walk(fn) if isinstance(n, ast.If) and any(isinstance(b, ast.Continue) for b in n.body)]
    r1.instance("REST skipped iff gRPC")
    r1.check(len(sk) == 1 and pmatch("_G_ and _T_ == api.TRANSPORT_REST", sk[0].test) is not None, p, fn.lineno, ast.unparse(sk[0].test) if sk else "",
             "REST samples are skipped exactly when the service also has gRPC clients")
    so = m.func("gapic.samplegen.samplegen._sync_or_async_from_transport")
    r1.instance("_sync_or_async_from_transport")
    src = ast.unparse(so.node)
    r1.check("(api.TRANSPORT_GRPC, api.TRANSPORT_REST)" in src and "'sync'" in src and "'async'" in src, p, so.node.lineno, "_sync_or_async_from_transport", "grpc and rest are sync; grpc-async is async")


def sample_skeletons(lib: Lib):
    m = pm()
    out = []
    for name, roots in sample_profiles(m):
        vs, _ = cover(lib.ts, SAMPLE_T, constraints=CONSTRAINTS, const_roots=roots, known_roots={"sample", "imports", "calling_form", "calling_form_enum"})
        for sk in vs:
            out.append((name, roots, sk))
    return out


def check_markers_and_async(report, lib: Lib):
    r2 = report.rule("C14.2", "every segment marker regex matches a line the template writes, in order, inside START/END at column 0", floor=20)
    r3 = report.rule("C14.3", "sample skeletons parse; async syntax exactly under grpc-async", floor=20)
    m = pm()
    regs = {k: m.const("gapic.samplegen_utils.snippet_index", k) if False else None for k in ()}
    mod = m.module("gapic.samplegen_utils.snippet_index")
    pats = {}
    for k in ("CLIENT_INIT_RE", "REQUEST_INIT_RE", "REQUEST_EXEC_RE", "RESPONSE_HANDLING_RE"):
        v = mod.assigns.get(k)
        r2.need(isinstance(v, ast.Call) and ast.unparse(v.func) == "re.compile" and isinstance(v.args[0], ast.Constant), f"{k} = re.compile(<literal>)")
        pats[k] = re.compile(v.args[0].value)     # a literal from the source, compiled by the standard library as data
    ps = m.func("gapic.samplegen_utils.snippet_index.Snippet._parse_snippet_segments")
    src = ast.unparse(ps.node)
    r2.need("line.startswith('# [START')" in src and "line.startswith('# [END')" in src, "START/END prefixes in _parse_snippet_segments")
    for name, roots, sk in sample_skeletons(lib):
        is_async = roots["sample"].get("transport") == "grpc-async"
        has_resp = bool(roots["sample"].get("response"))
        r3.instance({"profile": name})
        err = sk.syntax_error()
        r3.check(err is None, lib.path(SAMPLE_T), 0, f"sample skeleton for {name}", f"does not parse: {err}")
        if err is not None:
            continue
        tree = sk.tree()
        asyncs = [n for n in ast.walk(tree) if isinstance(n, (ast.AsyncFunctionDef, ast.AsyncFor, ast.Await))]
        fdefs = [n for n in tree.body if isinstance(n, (ast.FunctionDef, ast.AsyncFunctionDef))]
        r3.check(len(fdefs) >= 1 and isinstance(fdefs[0], ast.AsyncFunctionDef) == is_async, lib.path(SAMPLE_T), 0, f"{name}: def kind",
                 "the sample function is `async def` exactly for the asyncio client")
        r3.check(bool(asyncs) == is_async, lib.path(SAMPLE_T), 0, f"{name}: async syntax present={bool(asyncs)}", "await / async for only in asyncio samples")
        # markers
        lines = sk.text.split("\n")
        idx = {}
        for i, l in enumerate(lines):
            if l.startswith("# [START"):
                idx.setdefault("START", i)
            elif l.startswith("# [END"):
                idx.setdefault("END", i)
            else:
                for k, rx in pats.items():
                    if rx.match(l) and k not in idx:
                        idx[k] = i
        r2.instance({"profile": name, "markers": {k: v for k, v in idx.items()}})
        need = ["START", "CLIENT_INIT_RE", "REQUEST_INIT_RE", "REQUEST_EXEC_RE"] + (["RESPONSE_HANDLING_RE"] if has_resp and "LongRunning" not in name or has_resp else []) + ["END"]
        missing = [k for k in need if k not in idx]
        r2.check(not missing, lib.path("examples/feature_fragments.j2"), 0, f"{name}: markers missing {missing}",
                 "the snippet index looks for this marker line; without it the segment line ranges in the metadata are wrong")
        if not missing:
            order = [idx[k] for k in need]
            r2.check(order == sorted(order) and len(set(order)) == len(order), lib.path("examples/feature_fragments.j2"), 0, f"{name}: marker order {dict(zip(need, order))}",
                     "markers must appear in the order START, client init, request init, request execution, response handling, END")


def check_embedding(report, lib: Lib):
    r4 = report.rule("C14.4", "the method docstring embeds snippet.full_snippet (between START and END) for the matching client kind", floor=3)
    # Read off the skeletons' recorded uses (canonical access paths, independent of `with` / `set` aliases and of macros the
    # printing may have been moved into): the docstring prints <get_snippet(service.name, <method>.name, sync=...)>.full_snippet,
    # and only under `... is not none`.
    from ..tmodel import f_atoms
    for tname, sync in ((SVC + "client.py.j2", "True"), (SVC + "async_client.py.j2", "False")):
        GET = f"snippet_index.get_snippet(service.name, ELEM(service.methods.values()).name, sync={sync})"
        prints, other = [], []
        for sk in lib.variants(tname, transport=("grpc", "rest")):
            for (canon, kind), v in sk.uses.items():
                if "get_snippet(" in canon and kind == "print":
                    (prints if canon == GET + ".full_snippet" else other).append((canon, v))
        r4.instance(tname.split("/")[-1])
        r4.check(bool(prints), lib.path(tname), 0, f"{{{{ {GET}.full_snippet }}}}",
                 f"the {'sync' if sync == 'True' else 'asyncio'} client must embed the {'sync' if sync == 'True' else 'async'} sample of the same rpc "
                 f"(full_snippet of get_snippet(service.name, method.name, sync={sync}))")
        r4.check(not other, lib.path(tname), 0, f"other snippet text printed: {sorted({c for c, _ in other})[:2]}", "the embedded text must be exactly full_snippet")
        guarded = all(any(f"{GET} is none" in f_atoms(g) for g in v[3]) for _, v in prints)
        r4.check(guarded and bool(prints), lib.path(tname), 0, "{% if snippet is not none %}", "the code block is printed only when a snippet exists")
    m = pm()
    fs = m.func("gapic.samplegen_utils.snippet_index.Snippet.full_snippet")
    src = ast.unparse(fs.node)
    r4.instance("full_snippet slice")
    r4.check("self._full_snippet.start - 1" in src and "self._full_snippet.end" in src and "self.sample_lines[" in src, fs.module.path, fs.node.lineno, "full_snippet",
             "full_snippet = lines[start-1 : end] of the lines between the tags")
    ps = m.func("gapic.samplegen_utils.snippet_index.Snippet._parse_snippet_segments")
    src = ast.unparse(ps.node)
    # the counter is the 1-based line number of the enumerate(...) loop, whatever it is called
    st_ = [pmatch("_I_ + 1", n.value) for n in ast.walk(ps.node) if isinstance(n, ast.Assign) and ast.unparse(n.targets[0]) == "self._full_snippet.start"]
    en_ = [pmatch("_I_ - 1", n.value) for n in ast.walk(ps.node) if isinstance(n, ast.Assign) and ast.unparse(n.targets[0]) == "self._full_snippet.end"]
    st_, en_ = [b for b in st_ if b is not None], [b for b in en_ if b is not None]
    loops_ = [n for n in ast.walk(ps.node) if isinstance(n, ast.For) and isinstance(n.target, ast.Tuple) and len(n.target.elts) == 2
              and pmatch("enumerate(self.sample_lines, start=1)", n.iter) is not None]
    ctr = ast.unparse(loops_[0].target.elts[0]) if len(loops_) == 1 else None
    r4.check(len(st_) == 1 and len(en_) == 1 and ctr is not None and st_[0]["_I_"] == ctr and en_[0]["_I_"] == ctr, ps.module.path, ps.node.lineno,
             "START/END bookkeeping", "the full segment excludes the two tag lines")
    gs = m.func("gapic.samplegen_utils.snippet_index.SnippetIndex.get_snippet")
    r4.instance("get_snippet")
    r4.check("sync" in [a.arg for a in gs.node.args.args + gs.node.args.kwonlyargs], gs.module.path, gs.node.lineno, "get_snippet(..., sync)", "lookup distinguishes sync and async samples")


def check_metadata_and_request(report):
    r5 = report.rule("C14.5", "snippet metadata is filled from the accessors the templates print", floor=5)
    m = pm()
    fi = m.func("gapic.samplegen.samplegen._fill_sample_metadata")
    src = ast.unparse(fi.node)
    p = fi.module.path
    for what, needle in (("client class", "service.async_client_name if async_ else service.client_name"),
                         ("method name", "utils.to_snake_case(method.client_method_name)"),
                         ("result type", "method.client_output_async.ident.sphinx"),
                         ("result type (sync)", "method.client_output.ident.sphinx"),
                         ("flattened parameters in order", "for field in method.flattened_fields.values()"),
                         ("region tag", "sample['region_tag']")):
        r5.instance(what)
        r5.check(needle in src, p, fi.node.lineno, f"_fill_sample_metadata: {what}", f"expected `{needle}`")
    r6 = report.rule("C14.6", "the sample's import line is valid for an empty module namespace", floor=1)
    gi = m.func("gapic.samplegen.samplegen._get_sample_imports")
    fstr = [n for n in ast.walk(gi.node) if isinstance(n, ast.JoinedStr) and any(isinstance(v, ast.Constant) and "from " in str(v.value) for v in n.values)]
    r6.need(fstr, "f'from {namespace} import {module}'")
    for f in fstr:
        holes = [ast.unparse(v.value) for v in f.values if isinstance(v, ast.FormattedValue)]
        ns = holes[0] if holes else None
        guarded = False
        for i in ast.walk(gi.node):
            if isinstance(i, ast.If) and any(x is f for x in ast.walk(i)) and ns and ast.unparse(i.test) == ns:
                guarded = any(x is f for b in i.body for x in ast.walk(b))
            if isinstance(i, ast.IfExp) and any(x is f for x in ast.walk(i.body)) and ns and ast.unparse(i.test) == ns:
                guarded = True
        r6.instance(ast.unparse(f))
        r6.check(guarded, gi.module.path, f.lineno, ast.unparse(f), "`from <namespace> import <module>` with an empty namespace is a syntax error: the statement must be "
                 "built only when the namespace is non-empty")
    r7 = report.rule("C14.7", "default request: first member of each oneof plus required non-oneof fields, recursively", floor=3)
    go = m.func("gapic.samplegen.samplegen.generate_request_object")
    fn = go.node
    MSG = fn.args.args[2].arg
    sel = [n for n in ast.walk(fn) if isinstance(n, (ast.Assign, ast.AnnAssign)) and n.value is not None and
           pmatch("[_O_[0] for _O_ in _M_.oneof_fields().values()]", n.value, {"_M_": MSG}) is not None]
    r7.instance("one member per oneof")
    r7.check(len(sel) == 1, go.module.path, fn.lineno, "selected_oneofs = [oneof_fields[0] for ...]", "exactly the first member of every oneof is populated")
    req = [n for n in ast.walk(fn) if isinstance(n, ast.Assign) and pmatch("[_F_ for _F_ in _M_.required_fields if not _F_.oneof]", n.value, {"_M_": MSG}) is not None]
    r7.instance("required fields outside oneofs")
    r7.check(len(req) == 1, go.module.path, fn.lineno, "required_fields = [f for f in message.required_fields if not f.oneof]",
             "required fields are added only if they are not members of a oneof: otherwise a second member of an already populated oneof is set and "
             "silently overwrites the first")
    if sel and req:
        S = (sel[0].target if isinstance(sel[0], ast.AnnAssign) else sel[0].targets[0]).id
        R = req[0].targets[0].id
        comb = [n for n in ast.walk(fn) if isinstance(n, ast.BinOp) and pmatch("_S_ + _R_", n, {"_S_": S, "_R_": R}) is not None]
        r7.check(len(comb) == 1, go.module.path, fn.lineno, "request_fields = selected_oneofs + required_fields", "both groups are populated")
    rec = [c for c in calls(fn) if ast.unparse(c.func) == "generate_request_object"]
    r7.instance("recursion")
    r7.check(len(rec) == 1 and "field.type" in ast.unparse(rec[0]) and "field_name_prefix=" in ast.unparse(rec[0]), go.module.path, fn.lineno, "recursive call", "message-typed fields recurse with the dotted prefix")


def check_service_keys(report):
    """C14.8: API.services / API.all_methods are keyed by the full proto name of the service, which includes proto sub-packages
    (Proto.services keys come from Address.proto). A key rebuilt as `<naming.proto_package>.<Service>` only exists for services
    declared directly in the root package: for any other service the lookup raises KeyError and generation aborts; used as a
    full name in the metadata it names a service that does not exist."""
    r8 = report.rule("C14.8", "sample generation never rebuilds a service selector as naming.proto_package + '.' + name", floor=3)
    m = pm()
    n_funcs = 0
    for q, fi in sorted(m.functions.items()):
        if not q.startswith(("gapic.samplegen.", "gapic.samplegen_utils.")):
            continue
        n_funcs += 1
        r8.instance()
        for n in ast.walk(fi.node):
            if isinstance(n, ast.JoinedStr) and len(n.values) >= 3 and isinstance(n.values[0], ast.FormattedValue) \
                    and ast.unparse(n.values[0].value).endswith("naming.proto_package") \
                    and isinstance(n.values[1], ast.Constant) and n.values[1].value == "." and isinstance(n.values[2], ast.FormattedValue):
                owner = "selector"
                r8.violation(fi.module.path, n.lineno, f"{q.rsplit('.', 1)[-1]}: {ast.unparse(n)}",
                             "the selector is rebuilt from the API's root proto package; a service declared in a proto sub-package "
                             "(google.example.v1.sub.SubLib) is keyed `google.example.v1.sub.SubLib` in API.services / all_methods, so the "
                             "lookup raises KeyError (autogen-snippets is on by default) or the metadata names a non-existent service")
        r8.ok()
    r8.need(n_funcs >= 20, "functions of gapic.samplegen*", str(n_funcs))
    # the keys really are full proto names: Proto.build / _ProtoBuilder._load_service key services by address.proto
    ls = m.func("gapic.schema.api._ProtoBuilder._load_service")
    r8.instance("services keyed by the full proto name")
    r8.check(find_match("self.proto_services[address.proto]", ls.node)[0] is not None, ls.module.path, ls.node.lineno, "_load_service: self.proto_services[address.proto] = ...",
             "services are stored under their full proto name")


def run(report: core.Report):
    report.explanation = ("f-string decomposition of the region tag, regex literals of the snippet index matched against the lines of every "
                          "calling-form x transport sample skeleton, Jinja-AST shape of the docstring embedding, and AST pattern rules on the "
                          "metadata filler, the import builder and the default request builder.")
    report.assumptions.append("only auto-generated samples (the autogen profile) are covered; hand-written sample configs are outside the property")
    lib = Lib()
    check_specs(report)
    check_service_keys(report)
    check_markers_and_async(report, lib)
    check_embedding(report, lib)
    check_metadata_and_request(report)
