"""Rules shared by several properties (each is reported under the property whose check calls it)."""
from __future__ import annotations

import ast
import re

from .. import core
from ..pymodel import find_match, pmatch
from ..skq import pm as _pm

LOADERS = ("_load_message", "_get_fields", "_get_oneofs", "_load_enum", "_get_methods", "_load_service", "_load_children")
REORDER_CALLS = {"sorted", "reversed", "sort", "reverse", "set", "frozenset", "shuffle"}


def loader_order(report, rule_id: str, why: str):
    """The descriptor loaders hand on fields / values / methods in declaration order: no re-ordering or set conversion inside them."""
    m = _pm()
    r = report.rule(rule_id, f"descriptor loaders keep declaration order ({why})", floor=6)
    for name in LOADERS:
        fi = m.func_opt("gapic.schema.api._ProtoBuilder." + name)
        r.need(fi is not None, "_ProtoBuilder." + name, "loader not found")
        r.instance(name)
        bad = [n for n in ast.walk(fi.node) if isinstance(n, ast.Call) and ast.unparse(n.func).split(".")[-1] in REORDER_CALLS]
        r.check(not bad, fi.module.path, bad[0].lineno if bad else fi.node.lineno, f"_ProtoBuilder.{name}: {ast.unparse(bad[0])[:100] if bad else ''}",
                f"`{ast.unparse(bad[0].func) if bad else ''}(...)` re-orders (or un-orders) what the loader read from the descriptor; the wrappers' "
                f"dicts must keep the descriptor's declaration order ({why})")
    # _load_message: own fields first, then extensions, merged without re-ordering
    lm = m.func("gapic.schema.api._ProtoBuilder._load_message")
    r.instance("_load_message fields=")
    kws = [k for n in ast.walk(lm.node) if isinstance(n, ast.Call) and ast.unparse(n.func).endswith("MessageType") for k in n.keywords if k.arg == "fields"]
    r.need(len(kws) == 1, "_load_message: MessageType(fields=...)", f"{len(kws)} found")
    ok = isinstance(kws[0].value, ast.Name)
    if ok:
        var = kws[0].value.id
        assigns = [n for n in ast.walk(lm.node) if isinstance(n, (ast.Assign, ast.AnnAssign)) and
                   any(isinstance(t, ast.Name) and t.id == var for t in (n.targets if isinstance(n, ast.Assign) else [n.target]))]
        ok = len(assigns) == 1 and find_match("self._get_fields(message_pb.field, address=_ANYA_, path=_ANYP_, oneofs=_ANYO_)", assigns[0].value)[0] is not None \
            and isinstance(assigns[0].value, ast.Call) and ast.unparse(assigns[0].value.func) == "self._get_fields"
    r.check(ok, lm.module.path, kws[0].value.lineno, "_load_message: MessageType(fields=...)",
            "the message's `fields` mapping is the direct result of _get_fields(message_pb.field, ...) (extensions appended with .update), "
            "so its iteration order is the declaration order")
    return r


def proto_names_module_collisions(r, report=None):
    """Proto.names: module-name collisions are detected across ALL messages of the proto: one module->packages map, created outside
    every loop, filled from every message's recursive field types, consumed after the loops.  The map may live in Proto.names itself
    or in a helper it calls with the types (then the call must receive the types of every message at once, outside any loop)."""
    from ..pymodel import nfunc
    m = _pm()
    fi = m.func("gapic.schema.api.Proto.names")
    NF = {}

    def N(f):          # the function in normal form (aliases such as `ident = t.ident` substituted, constants inlined)
        if f.qual not in NF:
            NF[f.qual] = nfunc(m, f, keep={"recursive_field_types", "all_messages"})
        return NF[f.qual]
    r.instance("Proto.names module collisions")
    FILLS = ("_M_[_T_.ident.module].add(_T_.ident.package)", "_M_.setdefault(_T_.ident.module, set()).add(_T_.ident.package)")
    LOOPS = (ast.For, ast.comprehension, ast.ListComp, ast.GeneratorExp, ast.SetComp, ast.DictComp)

    def parents_of(root):
        par = {}
        for n in ast.walk(root):
            for c in ast.iter_child_nodes(n):
                par[c] = n
        return par

    def loops_of(par, n):
        out = []
        while n in par:
            n = par[n]
            if isinstance(n, LOOPS):
                out.append(n)
        return out

    def fills(root):
        out = []
        for n in ast.walk(root):
            if isinstance(n, ast.Call):
                for pat in FILLS:
                    b = pmatch(pat, n)
                    if b is not None:
                        out.append((n, b))
                        break
        return out

    def all_messages_iter(e):
        return ast.unparse(e) in ("self.all_messages.values()", "self.all_messages.values", "list(self.all_messages.values())", "tuple(self.all_messages.values())")

    def all_types_expr(e):
        """e ranges over the recursive field types of every message of the proto"""
        if isinstance(e, (ast.GeneratorExp, ast.ListComp, ast.SetComp)) and len(e.generators) == 2 and not any(g.ifs for g in e.generators):
            g0, g1 = e.generators
            return (all_messages_iter(g0.iter) and pmatch("_X_.recursive_field_types", g1.iter) is not None
                    and pmatch("_X_.recursive_field_types", g1.iter)["_X_"] == ast.unparse(g0.target) and ast.unparse(e.elt) == ast.unparse(g1.target))
        b = pmatch("_ANYC_.from_iterable(_ANYG_)", e)
        if b is not None and isinstance(e, ast.Call) and e.args and isinstance(e.args[0], (ast.GeneratorExp, ast.ListComp)):
            g = e.args[0]
            return (len(g.generators) == 1 and not g.generators[0].ifs and all_messages_iter(g.generators[0].iter)
                    and pmatch("_X_.recursive_field_types", g.elt) is not None
                    and pmatch("_X_.recursive_field_types", g.elt)["_X_"] == ast.unparse(g.generators[0].target))
        if isinstance(e, ast.Call) and isinstance(e.func, ast.Name) and e.func.id in ("list", "tuple", "set", "frozenset", "iter") and len(e.args) == 1:
            return all_types_expr(e.args[0])
        return False

    def local_value(root, name):
        vals = [n.value for n in ast.walk(root) if isinstance(n, (ast.Assign, ast.AnnAssign)) and n.value is not None and
                ast.unparse(n.targets[0] if isinstance(n, ast.Assign) else n.target) == name]
        return vals[0] if len(vals) == 1 else None

    WHY = ("the map from imported module name to the packages it comes from must be created once, filled from the recursive field types of "
           "EVERY message of the proto, and only then searched for names used by more than one package (or reserved names): a per-message map "
           "misses two messages that import same-named modules from different packages, so both imports bind the same name")

    # where does the map live: Proto.names itself, or a helper (module function / method of Proto) it calls
    host, call_in_names = fi, None
    adds = fills(N(fi))
    if not adds:
        for n in ast.walk(N(fi)):
            if isinstance(n, ast.Call):
                q = None
                if isinstance(n.func, ast.Name):
                    q = f"{fi.module.name}.{n.func.id}"
                elif isinstance(n.func, ast.Attribute) and isinstance(n.func.value, ast.Name) and n.func.value.id in ("self", "cls"):
                    mem = m.member(fi.cls, n.func.attr)
                    q = f"{mem.owner}.{n.func.attr}" if mem is not None else None
                if q in m.functions and fills(N(m.functions[q])):
                    host, call_in_names, adds = m.functions[q], n, fills(N(m.functions[q]))
                    break
    r.need(len(adds) == 1, "Proto.names: <map>[t.ident.module].add(t.ident.package)", f"{len(adds)} found (in Proto.names or a helper it calls)")
    node, b = adds[0]
    hostn = N(host)
    par = parents_of(hostn)
    fors = [l for l in loops_of(par, node) if isinstance(l, ast.For)]
    r.need(len(fors) == len(loops_of(par, node)) and fors, "Proto.names: the map is filled in for-loops", "filled inside a comprehension")
    r.need(ast.unparse(fors[0].target) == b["_T_"], "Proto.names: innermost fill loop binds the type", ast.unparse(fors[0].target))
    src = fors[0].iter
    if isinstance(src, ast.Name) and local_value(hostn, src.id) is not None:
        src = local_value(hostn, src.id)
    ok_fill = False
    if len(fors) == 2:
        bb = pmatch("_X_.recursive_field_types", src)
        ok_fill = bb is not None and all_messages_iter(fors[1].iter) and ast.unparse(fors[1].target) == bb["_X_"] and host is fi
    elif len(fors) == 1:
        if host is fi:
            ok_fill = all_types_expr(src)
        else:
            params = [a.arg for a in hostn.args.args if a.arg not in ("self", "cls")]
            r.need(isinstance(src, ast.Name) and src.id in params, "Proto.names helper: the fill loop iterates a parameter", ast.unparse(src))
            par_n = parents_of(N(fi))
            in_loop = loops_of(par_n, call_in_names)
            idx = params.index(src.id)
            arg = call_in_names.args[idx] if idx < len(call_in_names.args) else next((k.value for k in call_in_names.keywords if k.arg == src.id), None)
            r.need(arg is not None, "Proto.names helper call: the types argument", ast.unparse(call_in_names))
            if isinstance(arg, ast.Name) and local_value(N(fi), arg.id) is not None:
                arg = local_value(N(fi), arg.id)
            if in_loop:
                # called once per iteration: each call sees only that iteration's types, unless every call receives all types
                ok_fill = all_types_expr(arg)
            else:
                ok_fill = all_types_expr(arg)
                r.need(ok_fill or pmatch("_X_.recursive_field_types", arg) is not None, "Proto.names helper call: argument shape",
                       f"cannot decide whether `{ast.unparse(arg)[:80]}` ranges over the types of every message")
    def top_index(n):
        for i_, st_ in enumerate(hostn.body):
            if any(x is n for x in ast.walk(st_)):
                return i_
        return -1
    created = [n for n in ast.walk(hostn) if isinstance(n, (ast.Assign, ast.AnnAssign)) and
               ast.unparse(n.targets[0] if isinstance(n, ast.Assign) else n.target) == b["_M_"]]
    ok_create = len(created) == 1 and not loops_of(par, created[0])
    consumers = [n for n in ast.walk(hostn) if isinstance(n, ast.Call) and ast.unparse(n.func) == f"{b['_M_']}.items"]
    ok_consume = len(consumers) >= 1 and all(not any(isinstance(l, ast.For) for l in loops_of(par, c)) for c in consumers) and \
        all(top_index(c) > top_index(fors[-1]) for c in consumers)
    cond = any(isinstance(n, ast.BoolOp) and isinstance(n.op, ast.Or) and any(pmatch("len(_P_) > 1", v) is not None for v in n.values)
               and any(isinstance(v, ast.Compare) and isinstance(v.ops[0], ast.In) for v in n.values) for n in ast.walk(hostn))
    r.check(ok_fill and ok_create and ok_consume and cond, host.module.path, (call_in_names or node).lineno, "Proto.names: module -> packages map", WHY)


def camel_case_drops_trailing_separator(r):
    """The REST required-field defaults and their tests key JSON by `Field.name | camel_case`, i.e. by the PYTHON spelling (trailing '_' on
    reserved words). The key is the wire's lowerCamel name only if to_camel_case discards a trailing separator."""
    m = _pm()
    fi = m.func("gapic.utils.case.to_camel_case")
    r.instance("to_camel_case drops the disambiguation underscore")
    body = [s for s in fi.node.body if not (isinstance(s, ast.Expr) and isinstance(s.value, ast.Constant))]
    # shape A: items = re.split(SEP, to_snake_case(s)); return items[0].lower() + ''.join(x.capitalize() for x in items[1:])
    if len(body) == 2 and isinstance(body[0], ast.Assign):
        b = pmatch("re.split(_ANYSEP_, to_snake_case(_S_))", body[0].value)
        tgt = ast.unparse(body[0].targets[0])
        if b is not None and isinstance(body[1], ast.Return):
            ok = pmatch(f"{tgt}[0].lower() + ''.join((_X_.capitalize() for _X_ in {tgt}[1:]))", body[1].value) is not None
            sep = ast.literal_eval(b["_ANYSEP_"]) if ok else None
            if ok and isinstance(sep, str):
                r.check(re.fullmatch(sep, "_") is not None, fi.module.path, body[0].lineno, "to_camel_case: separator pattern",
                        f"the separator pattern {sep!r} does not match '_': `from_` would stay `from_` in the JSON key")
                return
    # shape B: return re.sub(PATTERN, repl, to_snake_case(s)) - a trailing '_' can only disappear if PATTERN can match it at the end
    if len(body) == 1 and isinstance(body[0], ast.Return):
        b = pmatch("re.sub(_ANYPAT_, _ANYREPL_, to_snake_case(_S_))", body[0].value)
        if b is not None:
            try:
                pat = ast.literal_eval(b["_ANYPAT_"])
            except Exception:
                pat = None
            if isinstance(pat, str):
                mm = [x for x in re.finditer(pat, "from_") if x.end() == 5 and x.start() <= 4]
                if not mm:
                    r.violation(fi.module.path, body[0].lineno, "to_camel_case: re.sub pattern",
                                f"the substitution pattern {pat!r} cannot match a trailing '_', so the Python spelling `from_` of a reserved-word field "
                                f"keeps its underscore and the REST required-field default is keyed `from_` instead of the wire's `from`")
                    return
    r.need(False, "gapic.utils.case.to_camel_case", "unrecognised implementation shape: cannot decide whether a trailing '_' is dropped")


PER_SEGMENT = "'.'.join((_S_ + '_' if _S_ in utils.RESERVED_NAMES else _S_ for _S_ in self.{attr}.split('.')))"


def per_segment_disambiguation(qual: str, attr: str):
    """(ok, shown, fi): the property `qual` returns its dotted `self.<attr>` with every reserved SEGMENT suffixed by one underscore.
    Decided on the normal form (vlib/pynorm.py), so helpers, delegation to a sibling property, hoisted constants, loops written as
    comprehensions etc. are looked through."""
    from ..pymodel import nmatch, nreturn
    m = _pm()
    fi = m.func(qual)
    b = nmatch(m, PER_SEGMENT.format(attr=attr), fi)
    if b is None and qual != "gapic.schema.wrappers.FieldHeader.disambiguated":
        # delegation to the sibling property of another class: FieldHeader(self.<attr>).disambiguated
        e = nreturn(m, fi, keep={"FieldHeader", "disambiguated"})
        if e is not None and pmatch(f"FieldHeader(self.{attr}).disambiguated", e) is not None:
            ok, shown, _ = per_segment_disambiguation("gapic.schema.wrappers.FieldHeader.disambiguated", "raw")
            return ok, ast.unparse(e) + " -> " + shown, fi
    e = nreturn(m, fi)
    return b is not None, (ast.unparse(e)[:160] if e is not None else "<not a single expression>"), fi


def fields_mapping_facts():
    """Facts about Method._fields_mapping read off its normal form (so a generator helper + OrderedDict(genexp), nested loops with
    `answer[key] = field`, += or conditional expressions all look the same):
      key_rule   the key of each entry is `<path>.strip()` plus '_' exactly when the RESOLVED leaf field's proto name is reserved
      key_pos    that expression is used as the entry's key, paired with the resolved field itself
      order      entries are produced by iterating `signatures`, then `<sig>.split(',')`, in that nesting, with no re-ordering call
    """
    from ..pymodel import nfunc, find_match_ast, FuncInfo
    from ..pynorm import norm_expr, canon_globals
    m = _pm()
    fi = m.func("gapic.schema.wrappers.Method._fields_mapping")
    nf = nfunc(m, fi, keep={"RESERVED_NAMES", "get_field", "OrderedDict"})
    facts = {"fi": fi, "key_rule": False, "key_pos": False, "order": False, "shown": "", "proto_plus_only": False}
    # the (key, field) generator may live in a sibling helper method: look at the function and at the helpers it calls
    views = helper_views(m, fi, keep={"RESERVED_NAMES", "get_field", "OrderedDict"})
    node = b = None
    # get_field(*path.split('.')) and get_field(path) resolve the same field (get_field itself splits a single dotted argument)
    FIELD_FORMS = ("self.input.get_field(*_ANYK_.split('.'))", "self.input.get_field(_ANYK_)")
    FIELD_SRC = None
    for FIELD in FIELD_FORMS:
        pat_pp = canon_globals(m, norm_expr(ast.parse(
            f"f'{{_ANYK_}}_' if {FIELD}.field_pb.name in utils.RESERVED_NAMES and {FIELD}.meta.address.is_proto_plus_type else _ANYK_", mode="eval").body))
        pat = canon_globals(m, norm_expr(ast.parse(
            f"f'{{_ANYK_}}_' if {FIELD}.field_pb.name in utils.RESERVED_NAMES else _ANYK_", mode="eval").body))
        for v_ in views:
            node, b = find_match_ast(pat_pp, v_)
            if node is not None:
                facts["proto_plus_only"] = True
                nf = v_
                break
        if node is None:
            for v_ in views:
                node, b = find_match_ast(pat, v_)
                if node is not None:
                    nf = v_
                    break
        if node is not None:
            FIELD_SRC = FIELD
            break
    if node is None:
        return facts
    K = b["_ANYK_"]
    facts["key_rule"] = K.endswith(".strip()")
    facts["shown"] = ast.unparse(node)[:160]
    field_src = FIELD_SRC.replace("_ANYK_", K)
    for n in ast.walk(nf):
        if isinstance(n, ast.Yield) and isinstance(n.value, ast.Tuple) and len(n.value.elts) == 2 and n.value.elts[0] is node \
                and ast.unparse(n.value.elts[1]) == field_src:
            facts["key_pos"] = True
        if isinstance(n, ast.Assign) and len(n.targets) == 1 and isinstance(n.targets[0], ast.Subscript) and n.targets[0].slice is node \
                and ast.unparse(n.value) == field_src:
            facts["key_pos"] = True
    iters = []
    for v_ in views:
        for n in ast.walk(v_):
            if isinstance(n, ast.For):
                iters.append(ast.unparse(n.iter))
            elif isinstance(n, ast.comprehension):
                iters.append(ast.unparse(n.iter))
    V = K[: -len(".strip()")] if facts["key_rule"] else None
    reorder = [c for v_ in views for c in ast.walk(v_) if isinstance(c, ast.Call)
               and ast.unparse(c.func).split(".")[-1] in ("sorted", "set", "frozenset", "reversed", "sort", "reverse")]
    facts["order"] = "signatures" in iters and any(it.endswith(".split(',')") for it in iters) and not reorder
    return facts


def guarded_list_items(fn_node):
    """[(guard source or None, item expr)] for every element a function puts into a local list by `x.append(e)`, `x.extend([..])`,
    `x += [..]` at the top level of its body or directly under an `if` (one level) - the usual ways of building a small table"""
    out = []

    def items_of(st):
        if isinstance(st, ast.Expr) and isinstance(st.value, ast.Call) and isinstance(st.value.func, ast.Attribute) and st.value.args:
            if st.value.func.attr == "append":
                return [st.value.args[0]]
            if st.value.func.attr == "extend" and isinstance(st.value.args[0], (ast.List, ast.Tuple)):
                return list(st.value.args[0].elts)
        if isinstance(st, ast.AugAssign) and isinstance(st.op, ast.Add) and isinstance(st.value, (ast.List, ast.Tuple)):
            return list(st.value.elts)
        return []

    def display_items(e, guard):
        """[a, *([b] if c else []), ...] -> items with their conditions"""
        for x in e.elts:
            if isinstance(x, ast.Starred) and isinstance(x.value, ast.IfExp) and isinstance(x.value.body, ast.List) and isinstance(x.value.orelse, ast.List) \
                    and not x.value.orelse.elts and guard is None:
                for y in x.value.body.elts:
                    out.append((ast.unparse(x.value.test), y))
            elif not isinstance(x, ast.Starred):
                out.append((guard, x))

    def walk(body, guard):
        for st in body:
            for it in items_of(st):
                out.append((guard, it))
            if isinstance(st, (ast.Assign, ast.AnnAssign)) and isinstance(getattr(st, "value", None), ast.List) and st.value.elts \
                    and any(isinstance(x, ast.Starred) for x in st.value.elts):
                display_items(st.value, guard)
            if isinstance(st, ast.If) and guard is None:
                walk(st.body, ast.unparse(st.test))
                walk(st.orelse, "not (" + ast.unparse(st.test) + ")")
            elif isinstance(st, (ast.For, ast.With)):
                if isinstance(st, ast.For) and isinstance(st.iter, ast.List) and any(isinstance(x, ast.Starred) for x in st.iter.elts):
                    display_items(st.iter, guard)        # the table was substituted into the loop that consumes it
                walk(st.body, guard)
    walk(fn_node.body, None)
    return out


def local_env(fn_node):
    """name -> value for locals bound exactly once by a plain assignment and never mutated in place (used to express conditions over
    locals in terms of what they stand for)"""
    from ..pynorm import function_scope_stores, subst
    counts = {}
    for name, _ in function_scope_stores(fn_node):
        counts[name] = counts.get(name, 0) + 1
    params = {a.arg for a in fn_node.args.posonlyargs + fn_node.args.args + fn_node.args.kwonlyargs}
    mutated = set()
    for n in ast.walk(fn_node):
        if isinstance(n, ast.Call) and isinstance(n.func, ast.Attribute) and isinstance(n.func.value, ast.Name) \
                and n.func.attr in ("append", "extend", "add", "update", "setdefault", "insert", "pop", "remove", "clear", "sort"):
            mutated.add(n.func.value.id)
        if isinstance(n, (ast.Subscript, ast.Attribute)) and isinstance(n.ctx, (ast.Store, ast.Del)) and isinstance(n.value, ast.Name):
            mutated.add(n.value.id)
    env = {}
    for n in ast.walk(fn_node):
        if isinstance(n, ast.Assign) and len(n.targets) == 1 and isinstance(n.targets[0], ast.Name):
            name, val = n.targets[0].id, n.value
        elif isinstance(n, ast.AnnAssign) and isinstance(n.target, ast.Name) and n.value is not None:
            name, val = n.target.id, n.value
        else:
            continue
        if counts.get(name) == 1 and name not in params and name not in mutated:
            env[name] = val
    for _ in range(4):      # close under itself
        env = {k: subst(v, {x: y for x, y in env.items() if x != k}) for k, v in env.items()}
    return env


def stmt_guards(fn_node, env=None):
    """[(guards, stmt)] for every simple statement of a function, in source order. `guards` is the list of facts that hold whenever the
    statement runs: (condition source, polarity) pairs in the canonical form of pymodel._nnf, and ("for", target, iterable) entries for
    enclosing loops. An `if c: return / continue / raise` (an early exit) contributes `not c` to everything after it in the block -
    so a guard clause and the equivalent nested `if` give the same guards."""
    from ..pymodel import _nnf as _raw_nnf
    from ..pynorm import subst
    out = []

    def _nnf(test, pol, acc):
        if env:
            for _ in range(3):          # loop variables bound to components of a generator element are substituted in a second pass
                test = subst(test, env)
        return _raw_nnf(test, pol, acc)

    def exits(body):
        return bool(body) and isinstance(body[-1], (ast.Return, ast.Continue, ast.Raise, ast.Break))

    def walk(body, guards):
        guards = list(guards)
        for st in body:
            if isinstance(st, ast.If):
                walk(st.body, guards + _nnf(st.test, True, []))
                walk(st.orelse, guards + _nnf(st.test, False, []))
                if exits(st.body) and not st.orelse:
                    guards = guards + _nnf(st.test, False, [])
                elif st.orelse and exits(st.orelse) and not exits(st.body):
                    guards = guards + _nnf(st.test, True, [])
            elif isinstance(st, (ast.For, ast.AsyncFor)):
                it = subst(st.iter, env) if env else st.iter
                # for (a, b) in ((x, y) for m in M for f in F(m) if c):  ==  for m in M: for f in F(m): if c: a, b = x, y; ...
                tnames = [t.id for t in st.target.elts] if isinstance(st.target, ast.Tuple) and all(isinstance(t, ast.Name) for t in st.target.elts) \
                    else ([st.target.id] if isinstance(st.target, ast.Name) else None)
                if isinstance(it, (ast.GeneratorExp, ast.ListComp)) and tnames is not None and \
                        ((isinstance(it.elt, ast.Tuple) and len(it.elt.elts) == len(tnames)) or len(tnames) == 1):
                    g2 = list(guards)
                    for gen in it.generators:
                        g2.append(("for", ast.unparse(gen.target), ast.unparse(gen.iter)))
                        for c in gen.ifs:
                            g2 += _nnf(c, True, [])
                    comps = list(it.elt.elts) if isinstance(it.elt, ast.Tuple) and len(tnames) > 1 else [it.elt]
                    saved = dict(env) if env is not None else None
                    if env is not None:
                        for n_, c_ in zip(tnames, comps):
                            env[n_] = c_
                    walk(st.body, g2)
                    if env is not None:
                        env.clear()
                        env.update(saved)
                else:
                    walk(st.body, guards + [("for", ast.unparse(st.target), ast.unparse(it))])
                walk(st.orelse, guards)
            elif isinstance(st, (ast.With, ast.AsyncWith)):
                walk(st.body, guards)
            elif isinstance(st, ast.Try):
                walk(st.body, guards)
                for h in st.handlers:
                    walk(h.body, guards)
                walk(st.orelse, guards)
                walk(st.finalbody, guards)
            elif isinstance(st, (ast.FunctionDef, ast.AsyncFunctionDef, ast.ClassDef)):
                continue
            else:
                out.append((guards, st))
    walk([s for s in fn_node.body if not (isinstance(s, ast.Expr) and isinstance(s.value, ast.Constant))], [])
    return out


def ref_types_inclusions(r, want):
    """Method._ref_types (the list behind ref_types / flat_ref_types, i.e. the import block of the client modules) appends each
    expression of `want` under exactly the stated condition, on the path that flat_ref_types takes too (no early return before it)."""
    from ..pymodel import _nnf
    from ..pynorm import subst as _subst
    m = _pm()
    rt = m.func("gapic.schema.wrappers.Method._ref_types")
    found = {}
    env_rt = local_env(rt.node)
    for guards, st in stmt_guards(rt.node, env_rt):
        if isinstance(st, ast.Expr) and isinstance(st.value, ast.Call) and isinstance(st.value.func, ast.Attribute) \
                and st.value.func.attr in ("append", "extend") and st.value.args:
            a0 = _subst(_subst(st.value.args[0], env_rt), env_rt)
            items = list(a0.elts) if st.value.func.attr == "extend" and isinstance(a0, (ast.List, ast.Tuple)) else [a0]
            for it in items:
                found[ast.unparse(it)] = frozenset(g for g in guards if g[0] != "for")
    for expr, cond in want.items():
        r.instance(f"_ref_types includes {expr}")
        wantc = frozenset(_nnf(ast.parse(cond, mode="eval").body, True, []))
        r.check(expr in found and found[expr] == wantc, rt.module.path, rt.node.lineno, f"_ref_types: {expr} under {sorted(found.get(expr, ['<absent>']))}",
                f"_ref_types must include {expr} whenever `{cond}`; otherwise the client modules reference a type they do not import")


def try_parse_http_rule_table():
    """HttpRule.try_parse_http_rule decided on its normal form, evaluated (vlib/pyeval.py, convert_uri_fieldnames and cls kept abstract)
    over the finite models verb in {None, 'custom', 'get', 'put', 'post', 'delete', 'patch'} x uri in {'', '/v1/x'} x body in {'', reserved, reserved_, ordinary, keyword}:
    None for an absent / custom pattern or an empty uri; otherwise cls(verb, convert_uri_fieldnames(uri), body') where body' is the body
    with ONE trailing underscore iff it is reserved and not yet suffixed (None for no body).
    Returns (mismatches, shown) or (None, reason) when the function cannot be evaluated."""
    from ..pymodel import nreturn
    from ..pyeval import Evaluator, UNKNOWN
    import itertools
    m = _pm()
    tp = m.func("gapic.schema.wrappers.HttpRule.try_parse_http_rule")
    e = nreturn(m, tp, keep={"RESERVED_NAMES", "convert_uri_fieldnames"})
    if e is None:
        return None, "does not reduce to one conditional expression", tp
    reserved = m.const("gapic.utils.reserved_names", "RESERVED_NAMES")
    param = [a.arg for a in tp.node.args.args if a.arg not in ("cls", "self")][0]
    bad = []
    for verb, uri, body in itertools.product((None, "custom", "get", "put", "post", "delete", "patch"), ("", "/v1/x"), ("", "type", "type_", "name", "class")):
        # every verb of the google.api.HttpRule pattern oneof is a model point: the body is a function of the `body` option alone,
        # whatever the verb (seed C04e dropped it for `delete`)
        rule = {"body": body, "custom": {"kind": "x"} if verb == "custom" else None}
        if verb not in (None, "custom"):
            rule[verb] = uri
        funcs = {f"{param}.WhichOneof": lambda _a, _v=verb: _v,
                 "getattr": lambda o, a, *d: (o.get(a) if isinstance(o, dict) and a is not None and a in o else (d[0] if d else UNKNOWN)),
                 "cls": lambda *a, **k: ("HttpRule",) + tuple(a) + tuple(sorted(k.items())),
                 "HttpRule": lambda *a, **k: ("HttpRule",) + tuple(a) + tuple(sorted(k.items())),
                 "convert_uri_fieldnames": lambda u: ("conv", u), "utils.convert_uri_fieldnames": lambda u: ("conv", u)}
        ev = Evaluator({param: rule, "RESERVED_NAMES": reserved, "utils": {"RESERVED_NAMES": reserved}}, funcs=funcs)
        v = ev.ev(e)
        if v is UNKNOWN:
            return None, f"cannot evaluate for verb={verb!r}, uri={uri!r}, body={body!r}", tp
        if verb in (None, "custom") or not uri:
            want = None
        else:
            b2 = (body + "_" if body in reserved and not body.endswith("_") else body) or None
            want = ("HttpRule", verb, ("conv", uri), b2)
        if isinstance(v, tuple) and v and v[0] == "HttpRule":
            v = tuple(x[1] if isinstance(x, tuple) and len(x) == 2 and x[0] in ("method", "uri", "body") else x for x in v)
        if v != want:
            bad.append(f"verb={verb!r} uri={uri!r} body={body!r}: {v!r}, expected {want!r}")
    return bad, ast.unparse(e)[:160], tp


def helper_views(m, fi, keep=()):
    """[normal form of `fi`] followed by the normal form of every repository helper it calls directly (method of the same class or module
    function that is NOT reducible to one expression - those are inlined by Engine N anyway), with the helper's parameters replaced by
    the caller's argument expressions (caller locals resolved).  Lets a rule written for "the function" also see a loop or generator that
    a refactoring moved into a sibling helper."""
    from ..pymodel import nfunc
    from ..pynorm import normalizer, subst
    N = normalizer(m)
    nf = nfunc(m, fi, keep=set(keep))
    views = [nf]
    env = dict(local_env(nf))
    raw_env = dict(local_env(fi.node))
    seen = {fi.qual}
    for tree, e_ in ((nf, env), (fi.node, raw_env)):
        for c in ast.walk(tree):
            if not isinstance(c, ast.Call):
                continue
            try:
                t = N._callee(fi, c, {})
            except Exception:
                t = None
            if t is None or t[2] or not t[0].qual.startswith("gapic.") or t[0].qual in seen:
                continue
            seen.add(t[0].qual)
            a_ = t[0].node.args
            formal = [x.arg for x in a_.posonlyargs + a_.args]
            decs = [ast.unparse(d) for d in t[0].node.decorator_list]
            if t[0].cls is not None and "staticmethod" not in decs and formal and formal[0] in ("self", "cls"):
                formal = formal[1:]
            mp = {name: subst(subst(arg, e_), e_) for name, arg in zip(formal, c.args)}
            mp.update({k.arg: subst(subst(k.value, e_), e_) for k in c.keywords if k.arg})
            hv = nfunc(m, t[0], keep=set(keep))
            import copy
            hv = copy.deepcopy(hv)
            hv.body = [subst(st, mp) for st in hv.body]
            views.append(hv)
    return views
