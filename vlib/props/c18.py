"""C18 - auto-populated request ids obey AIP-4235 at generation time and at call time
(validation branches, macro shape, dominance; RFC-4122 conformance of uuid.uuid4 is the standard library's).

  C18.1 enforce_valid_method_settings records an error for: duplicate selector, unknown method, streaming method, field missing
        from the *top-level* request, non-string, required, not UUID4-annotated; a non-empty error map raises MethodSettingsError;
        all_method_settings validates before returning; templates reach settings only through api.all_method_settings
  C18.2 the population block: per configured field, `'<f>' not in request` for explicit-presence fields / `not request.<f>` otherwise,
        body `request.<f> = str(uuid.uuid4())`, same field in test and store, nothing else writes it
  C18.3 the block dominates the rpc call in both client siblings (REST shares the sync client)
"""
from __future__ import annotations

import ast

from .. import core
from ..pymodel import pmatch, find_match
from ..skq import D, Dn, Lib, M, SVC, pm, calls, own_body_walk
from ..tmodel import TemplateSet
from .clientmodel import client_methods

SET = "api.all_method_settings.get(" + M + ".meta.address.proto)"
APF = "ELEM(" + SET + ".auto_populated_fields)"
OPT_ATOM = M + ".input.fields[" + APF + "].proto3_optional"


def records_error(body) -> bool:
    """the branch stores into an error map / appends to an error list"""
    for st in body:
        for n in ast.walk(st):
            if isinstance(n, ast.Assign) and isinstance(n.targets[0], ast.Subscript) and "error" in ast.unparse(n.targets[0].value).lower():
                return True
            if isinstance(n, ast.Call) and isinstance(n.func, ast.Attribute) and n.func.attr == "append" and "error" in ast.unparse(n.func.value).lower():
                return True
    return False


def check_validation(report):
    r = report.rule("C18.1", "every AIP-4235 violation has its own error-recording branch; errors raise MethodSettingsError; "
                             "validation precedes use", floor=10)
    m = pm()
    fi = m.func("gapic.schema.api.API.enforce_valid_method_settings")
    fn, p = fi.node, fi.module.path
    # Every error-recording statement of the function - and of the helpers it calls, with their parameters mapped to the call's arguments -
    # is collected with the CANONICAL conditions under which it runs (guard clauses / nested ifs / continue, locals replaced by what
    # they stand for). The rule then asks for one such statement per AIP-4235 violation.
    from .common_rules import stmt_guards, local_env
    from ..pynorm import normalizer, subst
    N = normalizer(m)

    from ..pymodel import nfunc

    def collect(cfi, mapping, prefix, depth):
        # the normal form of the function: tables of (condition, message) applied with extend(...) are unrolled into ifs, single-expression
        # helpers inlined, locals substituted
        node = nfunc(m, cfi, keep={"PrimitiveType", "build", "get"})
        env = dict(local_env(node))
        env = {k: subst(v, mapping) for k, v in env.items()}     # helper locals are expressed in the caller's terms
        env.update(mapping)
        recs = []
        for guards, st in stmt_guards(node, env):
            g = prefix + guards
            if records_error([st]):
                recs.append((g, st, cfi))
            if depth < 1:
                for c in ast.walk(st):
                    if isinstance(c, ast.Call):
                        t = N._callee(cfi, c, {})
                        if t is not None and t[0].qual.startswith("gapic.schema.") and t[0].qual != cfi.qual and not t[2]:
                            a_ = t[0].node.args
                            formal = [x.arg for x in a_.posonlyargs + a_.args]
                            decs = [ast.unparse(d) for d in t[0].node.decorator_list]
                            if t[0].cls is not None and "staticmethod" not in decs and formal and formal[0] in ("self", "cls"):
                                formal = formal[1:]
                            mp = {name: subst(arg, env) for name, arg in zip(formal, c.args)}
                            mp.update({k.arg: subst(k.value, env) for k in c.keywords if k.arg})
                            # (a guard that merely tests the helper's own result is not a gate on what the helper records)
                            csrc = ast.unparse(subst(c, env))
                            g2 = [f for f in g if f[0] == "for" or f[0] not in (csrc, ast.unparse(c))]
                            recs += collect(t[0], mp, g2, depth + 1)
        return recs
    records = collect(fi, {}, [], 0)
    r.need(len(records) >= 5, "error-recording statements in enforce_valid_method_settings (and helpers)", str(len(records)))
    SETTINGS = fn.args.args[1].arg
    loopsg = {g for guards, _, _ in records for g in guards if g[0] == "for" and g[2] == SETTINGS}
    r.instance("loop over all settings")
    r.check(len(loopsg) == 1 and all(any(g[0] == "for" and g[2] == SETTINGS for g in guards) for guards, _, _ in records), p, fn.lineno,
            f"loops over the settings: {sorted(loopsg)}", "every settings entry must be validated")
    MS = sorted(loopsg)[0][1] if loopsg else "method_settings"
    SEL = f"{MS}.selector"
    MD = f"self.all_methods.get({SEL}, None)"
    RQ = f"self.messages[{MD}.input_type.lstrip('.')]"

    class _GetToItem(ast.NodeTransformer):
        """<m>.fields.get(k) -> <m>.fields[k]  (one spelling for the looked-up field)"""
        def visit_Call(self, n):
            self.generic_visit(n)
            if isinstance(n.func, ast.Attribute) and n.func.attr == "get" and len(n.args) in (1, 2) and not n.keywords \
                    and isinstance(n.func.value, ast.Attribute) and n.func.value.attr == "fields" \
                    and (len(n.args) == 1 or (isinstance(n.args[1], ast.Constant) and n.args[1].value is None)):
                return ast.Subscript(value=n.func.value, slice=n.args[0], ctx=ast.Load())
            return n

    def canon(f):
        if f[0] == "for":
            return f
        src, pol = f[0].replace("wrappers.", ""), f[1]
        if ".fields.get(" in src and not src.startswith(("OR(", "AND(")):
            try:
                e = _GetToItem().visit(ast.parse(src, mode="eval").body)
                # `<m>.fields[k] is None` (the .get came back empty)  ==  `k not in <m>.fields`;  bare truthiness of the looked-up field likewise
                if isinstance(e, ast.Compare) and len(e.ops) == 1 and isinstance(e.ops[0], ast.Is) and isinstance(e.comparators[0], ast.Constant) \
                        and e.comparators[0].value is None and isinstance(e.left, ast.Subscript):
                    return (f"{ast.unparse(e.left.slice)} in {ast.unparse(e.left.value)}", not pol)
                if isinstance(e, ast.Subscript) and isinstance(e.value, ast.Attribute) and e.value.attr == "fields":
                    return (f"{ast.unparse(e.slice)} in {ast.unparse(e.value)}", pol)
                src = ast.unparse(e)
            except SyntaxError:
                pass
        return (src, pol)

    facts = [({canon(g) for g in guards}, st) for guards, st, _ in records]

    def gating_ok(fs, target):
        """besides the condition that defines the error, a branch may only be gated by the OTHER checks having passed (or by there being
        fields to check): any other conjunct (a constant, an unrelated test) could switch the check off"""
        for f in fs:
            if f[0] == "for" or f == target:
                continue
            src, pol = f
            okg = (src.startswith(f"{SEL} in ") and pol is False) or (src == MD and pol is True) or (src == f"{MS}.auto_populated_fields" and pol is True) \
                or (src.startswith("OR(") and "_streaming" in src and pol is False) or (src.endswith("_streaming") and pol is False) \
                or (src.endswith(".fields") and " in " in src and pol is True)
            if not okg:
                return False
        return True

    def has(pred, what):
        r.instance(what)
        ok = any(any(pred(f) and gating_ok(fs, f) for f in fs) for fs, _ in facts)
        r.check(ok, p, fn.lineno, f"error branch: {what}", f"enforce_valid_method_settings must record an error when {what}")
        return ok
    dup = [f for fs, _ in facts for f in fs if f[0] != "for" and f[1] is True and f[0].startswith(f"{SEL} in ")]
    has(lambda f: f in dup, "the selector was already seen (duplicate)")
    if dup:
        SEEN = dup[0][0][len(f"{SEL} in "):]
        adds = [n for n in ast.walk(fn) if isinstance(n, ast.Call) and isinstance(n.func, ast.Attribute) and n.func.attr == "add"
                and ast.unparse(n.func.value) == SEEN and n.args and ast.unparse(subst(n.args[0], local_env(fn))) == SEL]
        r.check(len(adds) == 1, p, fn.lineno, "selectors_seen.add(selector)", "every selector must be remembered for the duplicate check")
    has(lambda f: f == (MD, False), "the selector names no method of the API")
    has(lambda f: f[1] is True and f[0] in (f"OR({MD}.client_streaming; {MD}.server_streaming)",), "the method is client- or server-streaming")
    fields_loops = {g for fs, _ in facts for g in fs if g[0] == "for" and g[2] == f"{MS}.auto_populated_fields"}
    r.instance("top-level request message")
    r.check(len(fields_loops) == 1, p, fn.lineno, f"loop over {MS}.auto_populated_fields: {sorted(fields_loops)}", "every configured field must be validated")
    FS = sorted(fields_loops)[0][1] if fields_loops else "field_str"
    F = f"{RQ}.fields[{FS}]"
    r.check(has(lambda f: f == (f"{FS} in {RQ}.fields", False), "the field is not a top-level field of the request"), p, fn.lineno,
            "top_level_request_message = self.messages[input_type]", "fields must be looked up in the method's own (top-level) request message")
    has(lambda f: f == (f"{F}.type == PrimitiveType.build(str)", False), "the field is not a string")
    has(lambda f: f == (f"{F}.required", True), "the field is REQUIRED")
    has(lambda f: f == (f"{F}.uuid4", False), "the field is not annotated format=UUID4")
    loops = [n for n in fn.body if isinstance(n, ast.For)]
    r.need(len(loops) == 1, "one loop over the settings at the top level of enforce_valid_method_settings")
    fin = [n for n in fn.body if isinstance(n, ast.If) and any(isinstance(x, ast.Raise) and x.exc is not None and "MethodSettingsError" in ast.unparse(x.exc) for x in n.body)]
    r.instance("raise")
    r.check(len(fin) == 1 and isinstance(fin[0].test, ast.Name) and fn.body.index(fin[0]) > fn.body.index(loops[0]), p, fn.lineno,
            "if all_errors: raise MethodSettingsError", "a non-empty error map must raise MethodSettingsError after all entries were examined")
    # Field.uuid4 / required derivations
    fld = m.cls("gapic.schema.wrappers.Field")
    u = m.member(fld, "uuid4")
    r.instance("Field.uuid4")
    r.check(u is not None and "field_info_pb2.field_info" in ast.unparse(u.node) and "Value('UUID4')" in ast.unparse(u.node), fld.module.path,
            u.node.lineno if u else 0, "Field.uuid4", "uuid4 must compare google.api.field_info.format with UUID4")
    # all_method_settings validates first
    am = m.func("gapic.schema.api.API.all_method_settings")
    body = [s for s in am.node.body if not (isinstance(s, ast.Expr) and isinstance(s.value, ast.Constant))]
    r.instance("validate before return")
    aenv = local_env(am.node)
    val_idx = [i for i, s_ in enumerate(body) if isinstance(s_, ast.Expr) and isinstance(s_.value, ast.Call)
               and ast.unparse(s_.value.func) == "self.enforce_valid_method_settings" and len(s_.value.args) == 1
               and ast.unparse(subst(s_.value.args[0], aenv)) == "self.service_yaml_config.publishing.method_settings"]
    ret_idx = [i for i, s_ in enumerate(body) if isinstance(s_, ast.Return)]
    r.check(len(val_idx) == 1 and ret_idx and val_idx[0] < min(ret_idx) and not any(isinstance(s_, (ast.If, ast.For, ast.Try)) for s_ in body[:val_idx[0]]),
            p, am.node.lineno, ast.unparse(body[0])[:100] if body else "", "all_method_settings must validate the YAML's method_settings before returning anything")
    rets = [n for n in ast.walk(am.node) if isinstance(n, ast.Return)]
    r.check(len(rets) == 1 and isinstance(rets[0].value, ast.DictComp) and
            "auto_populated_fields=" in ast.unparse(rets[0].value) and not rets[0].value.generators[0].ifs, p, am.node.lineno, "returned mapping",
            "the returned mapping must carry auto_populated_fields for every entry")
    # templates reach the raw YAML settings only through all_method_settings
    ts = TemplateSet(core.TEMPLATES)
    bad = [n for n in ts.names() if "publishing.method_settings" in ts.source(n)]
    r.instance("templates use all_method_settings")
    r.check(not bad, ts.path(bad[0]) if bad else core.TEMPLATES, 0, f"templates reading service_yaml_config...method_settings: {bad}",
            "templates must read method settings through the validated api.all_method_settings")


def request_writers(sk, fn):
    """statements of the client method that (re)bind `request` or write one of its fields"""
    out = []
    for n in own_body_walk(fn):
        if isinstance(n, (ast.Assign, ast.AugAssign, ast.AnnAssign)):
            tgts = n.targets if isinstance(n, ast.Assign) else [n.target]
            for t in tgts:
                base = t
                while isinstance(base, (ast.Attribute, ast.Subscript)):
                    base = base.value
                if isinstance(base, ast.Name) and base.id == "request":
                    out.append(n)
                    break
        elif isinstance(n, ast.Expr) and isinstance(n.value, ast.Call) and isinstance(n.value.func, ast.Attribute) \
                and n.value.func.attr in ("extend", "update", "append", "CopyFrom", "MergeFrom", "add", "insert"):
            base = n.value.func.value
            while isinstance(base, (ast.Attribute, ast.Subscript)):
                base = base.value
            if isinstance(base, ast.Name) and base.id == "request":
                out.append(n)
        elif isinstance(n, ast.Expr) and isinstance(n.value, ast.Call) and isinstance(n.value.func, ast.Name) and n.value.func.id == "setattr" \
                and n.value.args and isinstance(n.value.args[0], ast.Name) and n.value.args[0].id == "request":
            out.append(n)
    return out


def check_population(report, lib: Lib):
    r2 = report.rule("C18.2", "population block: presence-aware test, `request.<f> = str(uuid.uuid4())`, same field, no other writer", floor=6)
    r3 = report.rule("C18.3", "the population block dominates the rpc call (sync and asyncio clients)", floor=6)
    # the macro may look the settings up as `settings.get(key)` + `is not none`, or as `key in settings` + `settings[key]`
    KEY = M + ".meta.address.proto"
    spellings = (
        ("api.all_method_settings.get(" + KEY + ")", lambda present: {"api.all_method_settings.get(" + KEY + ") is none": not present}),
        ("api.all_method_settings[" + KEY + "]", lambda present: {KEY + " in api.all_method_settings": present}),
    )
    total = 0
    for SET_, presence in spellings:
        total += _check_population_spelling(r2, r3, lib, SET_, presence)
    r2.need(total >= 4, "population blocks in forced variants (sync/async x presence)")


def _check_population_spelling(r2, r3, lib, SET, presence):
    APF = "ELEM(" + SET + ".auto_populated_fields)"
    OPT_ATOM = M + ".input.fields[" + APF + "].proto3_optional"
    shape = dict(presence(True), **{"LOOP:" + SET + ".auto_populated_fields": 1, M + ".client_streaming": False, M + ".server_streaming": False})
    # a spelling that no client template uses is not judged (forcing its atoms would be vacuous)
    in_use = any(SET in canon for is_async in (False, True) for cm in client_methods(lib, is_async) for (canon, _k) in cm.sk.uses)
    if not in_use:
        return 0
    import itertools
    n_blocks = 0
    for is_async in (False, True):
        for forced in (dict(shape, **{OPT_ATOM: True}), dict(shape, **{OPT_ATOM: False})):
            for cm in client_methods(lib, is_async, forced=forced):
                sk = cm.sk
                # the shape is forced: a client method that never consults the settings does not populate at all
                n = forced["LOOP:" + SET + ".auto_populated_fields"]
                opt = forced[OPT_ATOM]
                stores = [s for s in own_body_walk(cm.fn) if isinstance(s, ast.Assign) and D(sk, s.targets[0]) == "request.{" + APF + "}"]
                r2.instance({"client": "async" if is_async else "sync", "explicit_presence": opt})
                r2.check(len(stores) == n, *cm.where(), f"{len(stores)} uuid stores for {n} configured field(s)", "each configured field is populated by exactly one store")
                rc = cm.rpc_calls()
                for s in stores:
                    n_blocks += 1
                    r2.check(D(sk, s.value) == "str(uuid.uuid4())", *cm.where(s), D(sk, s.value), "the value must be a fresh str(uuid.uuid4())")
                    g = [i for i in cm.fn.body if isinstance(i, ast.If) and s in i.body]
                    r2.check(len(g) == 1 and len(g[0].body) == 1 and not g[0].orelse, *cm.where(s), "store nesting", "the store sits alone under its presence test")
                    if not g:
                        continue
                    exp = ("'{" + APF + "}' not in request") if opt else ("not request.{" + APF + "}")
                    r2.check(D(sk, g[0].test) == exp, *cm.where(g[0]), D(sk, g[0].test),
                             f"with{'' if opt else 'out'} explicit presence the test must be `{exp}` (a caller-provided value is never altered)")
                    if len(rc) == 1:
                        r3.instance()
                        r3.check(cm.cfg.dominates(g[0], cm.stmt_of(rc[0])), *cm.where(g[0]), "population vs rpc call",
                                 "the request id must be populated before the request is sent")
                    # ... and after everything else that writes the request: a flattened keyword argument (`request.<f> = <f>`, even
                    # an empty string, which `is not None`) or a coercion applied after the block would overwrite / discard the fresh id
                    for w in request_writers(sk, cm.fn):
                        if w is s or cm.stmt_of(w) is g[0]:
                            continue
                        r3.instance()
                        r3.check(not cm.cfg.reachable(g[0], cm.stmt_of(w)), *cm.where(w), f"`{D(sk, w)[:70]}` after the population block",
                                 "the request is (re)written after the id was populated: the generated UUID can be overwritten by a flattened "
                                 "argument (e.g. request_id='') or lost with the rebuilt request; populate after the last write to `request`")
    # without settings nothing is populated
    for is_async in (False, True):
        for cm in client_methods(lib, is_async, forced=presence(False)):
            stores = [s for s in own_body_walk(cm.fn) if isinstance(s, ast.Assign) and "uuid" in D(cm.sk, s.value)]
            r2.instance()
            r2.check(not stores, *cm.where(), "uuid store without settings", "no field may be populated for methods without settings")
    return n_blocks


def check_uuid_import(report, lib: Lib):
    """C18.4 (seed C18e): the module-level `import uuid` that the population block relies on is emitted whenever SOME method is
    auto-populated - its guards may be aggregate facts (API- or service-wide) or a per-method fact, but never a loop POSITION
    (loop.first / loop.last / loop.index): then it would depend on where the auto-populated method is declared."""
    import os
    r = report.rule("C18.4", "`import uuid` is not conditioned on the position of a method in a loop", floor=2)
    from ..skq import where
    seen = 0
    for tname in (SVC + "client.py.j2", SVC + "async_client.py.j2"):
        for sk in lib.variants(tname, transport=("grpc", "rest")):
            for n in ast.walk(sk.tree()):
                if isinstance(n, ast.Import) and any(a.name == "uuid" for a in n.names):
                    seen += 1
                    gs = [g for g in sk.seg_of_node(n).guards]
                    if os.environ.get("VERIF_DEBUG_C18"):
                        print("C18.4", tname[-20:], gs)
                    pos = [g for g in gs if any(k in str(g) for k in ("loop.first", "loop.last", "loop.index", "loop.revindex", "loop.length"))]
                    r.instance({"template": tname.rsplit("/", 1)[-1], "guards": [str(g)[:90] for g in gs]})
                    r.check(not pos, *where(sk, n, lib.root), f"import uuid guarded by {pos}",
                            "a method whose auto-populated field is declared elsewhere in the loop gets `uuid.uuid4()` without the import: "
                            "NameError at call time instead of a fresh UUID4")
    r.need(seen >= 2, "`import uuid` in client.py.j2 and async_client.py.j2 skeletons", str(seen))
    # the abstract renderer folds loop.first to a constant for a one-element loop, so the position test is read off the Jinja AST:
    # every `if` enclosing the `import uuid` text must be free of loop-position attributes
    import jinja2
    from jinja2 import nodes as jn
    env = jinja2.Environment(extensions=["jinja2.ext.do"], trim_blocks=True, lstrip_blocks=True)
    found = 0
    for tname in (SVC + "client.py.j2", SVC + "async_client.py.j2"):
        path = os.path.join(lib.root, tname)
        tree = env.parse(open(path).read())

        def walk(node, tests):
            nonlocal found
            if isinstance(node, jn.TemplateData) and "import uuid" in node.data:
                found += 1
                pos = [t for t in tests for g in t.find_all(jn.Getattr)
                       if isinstance(g.node, jn.Name) and g.node.name == "loop"
                       and g.attr in ("first", "last", "index", "index0", "revindex", "revindex0", "length")]
                r.instance({"template": tname.rsplit("/", 1)[-1], "enclosing_ifs": len(tests)})
                r.check(not pos, path, node.lineno, f"`import uuid` under a test of loop.{'/'.join(sorted({g.attr for t in pos for g in t.find_all(jn.Getattr) if isinstance(g.node, jn.Name) and g.node.name == 'loop'}))}",
                        "the import depends on WHERE the auto-populated method is declared: a later method gets `uuid.uuid4()` without "
                        "the import - NameError at call time instead of a fresh UUID4")
                return
            if isinstance(node, jn.If):
                for c in node.body:
                    walk(c, tests + [node.test])
                for e in node.elif_:
                    walk(e, tests)
                for c in node.else_:
                    walk(c, tests)
                return
            for c in node.iter_child_nodes():
                walk(c, tests)
        walk(tree, [])
    r.need(found >= 2, "`import uuid` text in client.py.j2 and async_client.py.j2", str(found))


def run(report: core.Report):
    report.explanation = ("Branch-by-branch pattern rules on the validation function, shape and dominance rules on the population block that "
                          "auto_populate_uuid4_fields inlines into every client method (forced variants for both presence kinds).")
    report.assumptions.append("uuid.uuid4() yields RFC-4122 version-4 UUIDs; proto-plus `in` reports explicit presence")
    check_validation(report)
    lib = Lib()
    check_population(report, lib)
    check_uuid_import(report, lib)
