"""C18 - auto-populated request ids obey AIP-4235 at generation time and at call time
(validation branches, macro shape, dominance; RFC-4122 conformance of uuid.uuid4 is the standard library's).

  C18.1 enforce_valid_method_settings records an error for: duplicate selector, unknown method, streaming method, field missing
        from the *top-level* request, non-string, required, not UUID4-annotated; a non-empty error map raises MethodSettingsError;
        all_method_settings validates before returning; templates reach settings only through api.all_method_settings
  C18.2 the population block: per configured field, `'<f>' not in request` for explicit-presence fields / `not request.<f>` otherwise,
        body `request.<f> = str(uuid.uuid4())`, same field in test and store, nothing else writes it
  C18.3 the block dominates the rpc call in both client siblings (REST shares the sync client)
"""
from __future__ import annotations

import ast

from .. import core
from ..pymodel import pmatch, find_match
from ..skq import D, Dn, Lib, M, SVC, pm, calls, own_body_walk
from ..tmodel import TemplateSet
from .clientmodel import client_methods

SET = "api.all_method_settings.get(" + M + ".meta.address.proto)"
APF = "ELEM(" + SET + ".auto_populated_fields)"
OPT_ATOM = M + ".input.fields[" + APF + "].proto3_optional"


def records_error(body) -> bool:
    """the branch stores into an error map / appends to an error list"""
    for st in body:
        for n in ast.walk(st):
            if isinstance(n, ast.Assign) and isinstance(n.targets[0], ast.Subscript) and "error" in ast.unparse(n.targets[0].value).lower():
                return True
            if isinstance(n, ast.Call) and isinstance(n.func, ast.Attribute) and n.func.attr == "append" and "error" in ast.unparse(n.func.value).lower():
                return True
    return False


def check_validation(report):
    r = report.rule("C18.1", "every AIP-4235 violation has its own error-recording branch; errors raise MethodSettingsError; "
                             "validation precedes use", floor=10)
    m = pm()
    fi = m.func("gapic.schema.api.API.enforce_valid_method_settings")
    fn, p = fi.node, fi.module.path
    loops = [n for n in fn.body if isinstance(n, ast.For)]
    r.need(len(loops) == 1 and isinstance(loops[0].target, ast.Name), "for method_settings in service_method_settings")
    MS = loops[0].target.id
    r.instance("loop over all settings")
    r.check(ast.unparse(loops[0].iter) == fn.args.args[1].arg, p, loops[0].lineno, ast.unparse(loops[0].iter), "every settings entry must be validated")
    ifs = [n for n in ast.walk(fn) if isinstance(n, ast.If)]

    def branch(pattern, binds, what, extra=None):
        hits = []
        for i in ifs:
            b = pmatch(pattern, i.test, dict(binds))
            if b is not None and records_error(i.body):
                hits.append((i, b))
        r.instance(what)
        r.check(len(hits) >= 1, p, fn.lineno, f"error branch: {what}", f"enforce_valid_method_settings must record an error when {what}")
        return hits[0] if hits else (None, {})

    i, b = branch("_MS_.selector in _SEEN_", {"_MS_": MS}, "the selector was already seen (duplicate)")
    if i is not None:
        SEEN = b["_SEEN_"]
        adds = [n for n in ast.walk(loops[0]) if isinstance(n, ast.Call) and pmatch("_SEEN_.add(_MS_.selector)", n, {"_SEEN_": SEEN, "_MS_": MS}) is not None]
        r.check(len(adds) == 1, p, i.lineno, "selectors_seen.add(selector)", "every selector must be remembered for the duplicate check")
    md = [n for n in ast.walk(loops[0]) if isinstance(n, ast.Assign) and pmatch("self.all_methods.get(_MS_.selector)", n.value, {"_MS_": MS}) is not None]
    r.need(len(md) == 1 and isinstance(md[0].targets[0], ast.Name), "method_descriptor = self.all_methods.get(selector)")
    MD = md[0].targets[0].id
    branch("not _MD_", {"_MD_": MD}, "the selector names no method of the API")
    i, b = branch("_MD_.client_streaming or _MD_.server_streaming", {"_MD_": MD}, "the method is client- or server-streaming")
    if i is None:
        branch("_MD_.server_streaming or _MD_.client_streaming", {"_MD_": MD}, "the method is streaming (either direction)")
    req = [n for n in ast.walk(loops[0]) if isinstance(n, ast.Assign) and pmatch("self.messages[_MD_.input_type.lstrip('.')]", n.value, {"_MD_": MD}) is not None]
    r.instance("top-level request message")
    r.check(len(req) == 1 and isinstance(req[0].targets[0], ast.Name), p, fn.lineno, "top_level_request_message = self.messages[input_type]",
            "fields must be looked up in the method's own (top-level) request message")
    if len(req) == 1:
        RQ = req[0].targets[0].id
        inner = [n for n in ast.walk(loops[0]) if isinstance(n, ast.For) and n is not loops[0]
                 and pmatch("_MS_.auto_populated_fields", n.iter, {"_MS_": MS}) is not None]
        r.check(len(inner) == 1 and isinstance(inner[0].target, ast.Name), p, fn.lineno, "for field_str in auto_populated_fields",
                "every configured field must be validated")
        if inner:
            FS = inner[0].target.id
            i, b = branch("_FS_ not in _RQ_.fields", {"_FS_": FS, "_RQ_": RQ}, "the field is not a top-level field of the request")
            fl = [n for n in ast.walk(inner[0]) if isinstance(n, ast.Assign) and pmatch("_RQ_.fields[_FS_]", n.value, {"_RQ_": RQ, "_FS_": FS}) is not None]
            r.need(len(fl) == 1, "field = request.fields[field_str]")
            F = fl[0].targets[0].id
            branch("_F_.type != wrappers.PrimitiveType.build(str)", {"_F_": F}, "the field is not a string")
            branch("_F_.required", {"_F_": F}, "the field is REQUIRED")
            branch("not _F_.uuid4", {"_F_": F}, "the field is not annotated format=UUID4")
    fin = [n for n in fn.body if isinstance(n, ast.If) and any(isinstance(x, ast.Raise) and x.exc is not None and "MethodSettingsError" in ast.unparse(x.exc) for x in n.body)]
    r.instance("raise")
    r.check(len(fin) == 1 and isinstance(fin[0].test, ast.Name) and fn.body.index(fin[0]) > fn.body.index(loops[0]), p, fn.lineno,
            "if all_errors: raise MethodSettingsError", "a non-empty error map must raise MethodSettingsError after all entries were examined")
    # Field.uuid4 / required derivations
    fld = m.cls("gapic.schema.wrappers.Field")
    u = m.member(fld, "uuid4")
    r.instance("Field.uuid4")
    r.check(u is not None and "field_info_pb2.field_info" in ast.unparse(u.node) and "Value('UUID4')" in ast.unparse(u.node), fld.module.path,
            u.node.lineno if u else 0, "Field.uuid4", "uuid4 must compare google.api.field_info.format with UUID4")
    # all_method_settings validates first
    am = m.func("gapic.schema.api.API.all_method_settings")
    body = [s for s in am.node.body if not (isinstance(s, ast.Expr) and isinstance(s.value, ast.Constant))]
    r.instance("validate before return")
    r.check(body and isinstance(body[0], ast.Expr) and ast.unparse(body[0].value).replace("\n", "").replace(" ", "") ==
            "self.enforce_valid_method_settings(self.service_yaml_config.publishing.method_settings)", p, am.node.lineno,
            ast.unparse(body[0])[:100] if body else "", "all_method_settings must validate the YAML's method_settings before returning anything")
    rets = [n for n in ast.walk(am.node) if isinstance(n, ast.Return)]
    r.check(len(rets) == 1 and isinstance(rets[0].value, ast.DictComp) and
            "auto_populated_fields=" in ast.unparse(rets[0].value) and not rets[0].value.generators[0].ifs, p, am.node.lineno, "returned mapping",
            "the returned mapping must carry auto_populated_fields for every entry")
    # templates reach the raw YAML settings only through all_method_settings
    ts = TemplateSet(core.TEMPLATES)
    bad = [n for n in ts.names() if "publishing.method_settings" in ts.source(n)]
    r.instance("templates use all_method_settings")
    r.check(not bad, ts.path(bad[0]) if bad else core.TEMPLATES, 0, f"templates reading service_yaml_config...method_settings: {bad}",
            "templates must read method settings through the validated api.all_method_settings")


def check_population(report, lib: Lib):
    r2 = report.rule("C18.2", "population block: presence-aware test, `request.<f> = str(uuid.uuid4())`, same field, no other writer", floor=6)
    r3 = report.rule("C18.3", "the population block dominates the rpc call (sync and asyncio clients)", floor=6)
    shape = {SET + " is none": False, "LOOP:" + SET + ".auto_populated_fields": 1, M + ".client_streaming": False, M + ".server_streaming": False}
    import itertools
    n_blocks = 0
    for is_async in (False, True):
        for forced in (dict(shape, **{OPT_ATOM: True}), dict(shape, **{OPT_ATOM: False})):
            for cm in client_methods(lib, is_async, forced=forced):
                sk = cm.sk
                # the shape is forced: a client method that never consults the settings does not populate at all
                n = forced["LOOP:" + SET + ".auto_populated_fields"]
                opt = forced[OPT_ATOM]
                stores = [s for s in own_body_walk(cm.fn) if isinstance(s, ast.Assign) and D(sk, s.targets[0]) == "request.{" + APF + "}"]
                r2.instance({"client": "async" if is_async else "sync", "explicit_presence": opt})
                r2.check(len(stores) == n, *cm.where(), f"{len(stores)} uuid stores for {n} configured field(s)", "each configured field is populated by exactly one store")
                rc = cm.rpc_calls()
                for s in stores:
                    n_blocks += 1
                    r2.check(D(sk, s.value) == "str(uuid.uuid4())", *cm.where(s), D(sk, s.value), "the value must be a fresh str(uuid.uuid4())")
                    g = [i for i in cm.fn.body if isinstance(i, ast.If) and s in i.body]
                    r2.check(len(g) == 1 and len(g[0].body) == 1 and not g[0].orelse, *cm.where(s), "store nesting", "the store sits alone under its presence test")
                    if not g:
                        continue
                    exp = ("'{" + APF + "}' not in request") if opt else ("not request.{" + APF + "}")
                    r2.check(D(sk, g[0].test) == exp, *cm.where(g[0]), D(sk, g[0].test),
                             f"with{'' if opt else 'out'} explicit presence the test must be `{exp}` (a caller-provided value is never altered)")
                    if len(rc) == 1:
                        r3.instance()
                        r3.check(cm.cfg.dominates(g[0], cm.stmt_of(rc[0])), *cm.where(g[0]), "population vs rpc call",
                                 "the request id must be populated before the request is sent")
    r2.need(n_blocks >= 4, "population blocks in forced variants (sync/async x presence)")
    # without settings nothing is populated
    for is_async in (False, True):
        for cm in client_methods(lib, is_async, forced={SET + " is none": True}):
            stores = [s for s in own_body_walk(cm.fn) if isinstance(s, ast.Assign) and "uuid" in D(cm.sk, s.value)]
            r2.instance()
            r2.check(not stores, *cm.where(), "uuid store without settings", "no field may be populated for methods without settings")


def run(report: core.Report):
    report.explanation = ("Branch-by-branch pattern rules on the validation function, shape and dominance rules on the population block that "
                          "auto_populate_uuid4_fields inlines into every client method (forced variants for both presence kinds).")
    report.assumptions.append("uuid.uuid4() yields RFC-4122 version-4 UUIDs; proto-plus `in` reports explicit presence")
    check_validation(report)
    check_population(report, Lib())
