"""C08 - long-running methods return futures typed by google.longrunning.operation_info
(raise dominance + reachability, two-pass order, from_gapic slots; polling histories are api_core's).

  C08.1 _maybe_get_lro: None unless output ends with google.longrunning.Operation and the extension is present; TypeError
        when either type name is missing, before OperationInfo is built; names resolved through service_address.resolve and
        looked up in api_messages; response/metadata not swapped; reachable from API.build
  C08.2 two-pass loading: every proto is first built with load_services=False; the second pass rebuilds each with
        prior_protos = all first-pass protos; api_messages chains own messages with every prior proto's all_messages
  C08.3 client wiring (both siblings): from_gapic(response, <transport>.operations_client, <response type>, metadata_type=<metadata type>)
  C08.4 operations_client exists iff service.has_lro and is built on the transport's own channel / host+credentials
"""
from __future__ import annotations

import ast

from .. import core
from ..cfg import CFG
from ..pymodel import pmatch, find_match, CallGraph
from ..skq import D, Dn, Lib, M, SVC, pm, calls, classes, where, kw
from .clientmodel import client_methods


def check_python(report):
    r1 = report.rule("C08.1", "_maybe_get_lro: extension-gated, TypeError on a missing type name dominates OperationInfo(...), types "
                              "resolved relative to the service and taken from api_messages", floor=5)
    m = pm()
    fi = m.func("gapic.schema.api._ProtoBuilder._maybe_get_lro")
    fn, p = fi.node, fi.module.path
    MP = fn.args.args[2].arg if len(fn.args.args) >= 3 else "meth_pb"
    SA = fn.args.args[1].arg if len(fn.args.args) >= 3 else "service_address"
    gate = [n for n in ast.walk(fn) if isinstance(n, ast.If) and pmatch("_MP_.output_type.endswith('google.longrunning.Operation')", n.test, {"_MP_": MP}) is not None]
    r1.instance("output type gate")
    r1.check(len(gate) == 1, p, fn.lineno, "if meth_pb.output_type.endswith('google.longrunning.Operation')",
             "only methods returning google.longrunning.Operation are LROs")
    ext = [n for n in ast.walk(fn) if isinstance(n, ast.If) and pmatch("not _MP_.options.HasExtension(operations_pb2.operation_info)", n.test, {"_MP_": MP}) is not None
           and any(isinstance(x, ast.Return) and (x.value is None or ast.unparse(x.value) == "None") for x in n.body)]
    r1.instance("annotation gate")
    r1.check(len(ext) == 1, p, fn.lineno, "if not HasExtension(operation_info): return None",
             "an Operation-returning method without operation_info is not an LRO (raw Operation is returned)")
    ops = [n for n in ast.walk(fn) if isinstance(n, ast.Assign) and pmatch("_MP_.options.Extensions[operations_pb2.operation_info]", n.value, {"_MP_": MP}) is not None]
    r1.need(len(ops) == 1 and isinstance(ops[0].targets[0], ast.Name), "op = meth_pb.options.Extensions[operation_info]")
    OP = ops[0].targets[0].id
    cfg = CFG(fn.body)
    chk = [n for n in ast.walk(fn) if isinstance(n, ast.If) and any(isinstance(x, ast.Raise) for x in n.body)]
    r1.instance("missing type names rejected")
    okc = [c for c in chk if pmatch("not _OP_.response_type or not _OP_.metadata_type", c.test, {"_OP_": OP}) is not None
           or pmatch("not _OP_.metadata_type or not _OP_.response_type", c.test, {"_OP_": OP}) is not None]
    r1.check(len(okc) == 1, p, fn.lineno, "if not op.response_type or not op.metadata_type: raise TypeError",
             "an LRO lacking either type name must be rejected at generation time")
    ctor = [c for c in calls(fn) if ast.unparse(c.func) == "wrappers.OperationInfo"]
    r1.need(len(ctor) == 1, "wrappers.OperationInfo(...)")
    if okc:
        rz = [x for x in okc[0].body if isinstance(x, ast.Raise)][0]
        r1.check(rz.exc is not None and ast.unparse(rz.exc).startswith("TypeError("), p, rz.lineno, ast.unparse(rz.exc)[:50] if rz.exc else "", "must raise TypeError")
        r1.check(cfg.dominates(okc[0], cfg.node_of(ctor[0])), p, okc[0].lineno, "check dominates OperationInfo construction",
                 "the rejection must come before the OperationInfo is built")
    k = {x.arg: x.value for x in ctor[0].keywords}
    r1.instance("type resolution")
    for field, src in (("response_type", "response_type"), ("metadata_type", "metadata_type")):
        v = k.get(field)
        ok = False
        if v is not None:
            b = pmatch("self.api_messages[_K_]", v)
            if b is not None:
                defs = [n for n in ast.walk(fn) if isinstance(n, ast.Assign) and isinstance(n.targets[0], ast.Name) and n.targets[0].id == b["_K_"]]
                ok = len(defs) == 1 and pmatch(f"_SA_.resolve(_OP_.{src})", defs[0].value, {"_SA_": SA, "_OP_": OP}) is not None
            else:
                ok = pmatch(f"self.api_messages[_SA_.resolve(_OP_.{src})]", v, {"_SA_": SA, "_OP_": OP}) is not None
        r1.check(ok, p, ctor[0].lineno, f"{field}={ast.unparse(v) if v is not None else None}",
                 f"OperationInfo.{field} must be api_messages[service_address.resolve(op.{src})] (relative names resolve against the method's package)")
    # reachability of the raise from API.build
    cg = CallGraph(m)
    pred = cg.reachable(["gapic.schema.api.API.build"])
    r1.instance("reachable from API.build")
    r1.check(fi.qual in pred, p, fn.lineno, "_maybe_get_lro reachable from API.build",
             "the rejection is no longer on the path of API.build: " + " -> ".join(cg.path(pred, fi.qual)[-4:]) if fi.qual in pred else
             "_maybe_get_lro is not reachable from API.build")
    gm = m.func("gapic.schema.api._ProtoBuilder._get_methods")
    mk = [c for c in calls(gm.node) if ast.unparse(c.func) == "wrappers.Method"]
    kk = {x.arg: ast.unparse(x.value) for x in mk[0].keywords} if mk else {}
    r1.check(pmatch("self._maybe_get_lro(_ANYA_, _ANYB_)", [x.value for x in mk[0].keywords if x.arg == "lro"][0]) is not None if mk and "lro" in kk else False,
             p, gm.node.lineno, f"Method(lro={kk.get('lro')})", "Method.lro must come from _maybe_get_lro")

    r2 = report.rule("C08.2", "two-pass proto loading so that LRO types resolve without an import", floor=3)
    bd = m.func("gapic.schema.api.API.build")
    fn2 = bd.node
    first = [n for n in ast.walk(fn2) if isinstance(n, ast.For) and any(isinstance(c, ast.Call) and ast.unparse(c.func) == "Proto.build"
                                                                       and any(k.arg == "load_services" and ast.unparse(k.value) == "False" for k in c.keywords)
                                                                       for c in ast.walk(n))]
    r2.instance("first pass")
    r2.check(len(first) == 1 and first[0] in fn2.body, bd.module.path, fn2.lineno, "first pass loop with load_services=False",
             "the first pass must build every file without services")
    second = [n for n in fn2.body if isinstance(n, (ast.Assign, ast.AnnAssign)) and isinstance(n.value, ast.DictComp)
              and any(isinstance(c, ast.Call) and ast.unparse(c.func) == "Proto.build" for c in ast.walk(n.value))]
    r2.instance("second pass")
    r2.check(len(second) == 1, bd.module.path, fn2.lineno, "second pass comprehension", "the second pass must rebuild every proto")
    if first and second:
        PRE = None
        for n in ast.walk(first[0]):
            if isinstance(n, ast.Assign) and isinstance(n.targets[0], ast.Subscript) and isinstance(n.targets[0].value, ast.Name):
                PRE = n.targets[0].value.id
        r2.check(fn2.body.index(first[0]) < fn2.body.index(second[0]), bd.module.path, second[0].lineno, "pass order", "types must be loaded before services")
        dc = second[0].value
        c2 = [c for c in ast.walk(dc) if isinstance(c, ast.Call) and ast.unparse(c.func) == "Proto.build"][0]
        k2 = {x.arg: ast.unparse(x.value) for x in c2.keywords}
        r2.check(PRE is not None and k2.get("prior_protos") == PRE and "load_services" not in k2, bd.module.path, c2.lineno, str(k2)[:160],
                 "the second pass must see all first-pass protos as prior_protos and load services")
        it = dc.generators[0].iter
        r2.check(PRE is not None and ast.unparse(it) == f"{PRE}.items()" and not dc.generators[0].ifs, bd.module.path, c2.lineno, ast.unparse(it),
                 "the second pass must rebuild every first-pass proto (no filter)")
    am = m.func("gapic.schema.api._ProtoBuilder.api_messages")
    node, _ = find_match("collections.ChainMap({}, self.proto_messages, *[_P_.all_messages for _P_ in self.prior_protos.values()])", am.node)
    r2.instance("api_messages")
    r2.check(node is not None, am.module.path, am.node.lineno, "api_messages ChainMap",
             "api_messages must chain the file's own messages with all_messages of every prior proto (imported or not)")


def check_wiring(report, lib: Lib):
    r3 = report.rule("C08.3", "LRO methods wrap the response with <operation module>.from_gapic(response, operations_client, "
                              "response type, metadata_type=metadata type)", floor=4)
    lro_shape = {M + ".lro": True}
    import itertools
    for is_async in (False, True):
        for cm in itertools.chain(client_methods(lib, is_async), client_methods(lib, is_async, forced=lro_shape)):
            sk = cm.sk
            lro = cm.v(".lro")
            acc = M + (".client_output_async.ident" if is_async else ".client_output.ident")
            fg = [s for s in cm.fn.body if isinstance(s, ast.Assign) and isinstance(s.value, ast.Call) and D(sk, s.value.func).endswith(".from_gapic")]
            if lro:
                r3.instance({"client": "async" if is_async else "sync", "method": cm.name})
                r3.check(len(fg) == 1 and D(sk, fg[0].targets[0]) == "response", *cm.where(), f"{len(fg)} from_gapic wraps", "exactly one operation future per LRO call")
                if not fg:
                    continue
                c = fg[0].value
                mod = "{(" + acc + ".module_alias or " + acc + ".module)}"
                r3.check(D(sk, c.func) == mod + ".from_gapic", *cm.where(fg[0]), D(sk, c.func),
                         f"the future class must come from the module of {'client_output_async' if is_async else 'client_output'} (operation / operation_async)")
                tr = "self._client._transport" if is_async else "self._transport"
                args = [D(sk, a) for a in c.args]
                r3.check(args == ["response", f"{tr}.operations_client", "{" + M + ".lro.response_type.ident}"], *cm.where(fg[0]), str(args),
                         "positional arguments must be (response, the transport's operations client, the annotated response type)")
                r3.check(kw(sk, c) == {"metadata_type": "{" + M + ".lro.metadata_type.ident}"}, *cm.where(fg[0]), str(kw(sk, c)),
                         "metadata_type= must be the annotated metadata type")
                rc = cm.rpc_calls()
                if len(rc) == 1:
                    r3.check(cm.fn.body.index(fg[0]) > cm.fn.body.index(cm.stmt_of(rc[0])), *cm.where(fg[0]), "wrap after call", "wrap follows the call")
            elif lro is False:
                r3.check(not fg, *cm.where(), f"from_gapic on non-LRO method {cm.name}", "only annotated LROs get futures; others return the raw response")
    m = pm()
    co = m.func("gapic.schema.wrappers.Method._client_output")
    from ..pymodel import nreturn, ladder
    r3.instance("_client_output lro arm")
    e = nreturn(m, co)
    arms = [ast.unparse(v) for t, v in (ladder(e) if e is not None else []) if t is not None and ast.unparse(t) == "self.lro"]
    ok = len(arms) == 1 and ("'AsyncOperation' if enable_asyncio else 'Operation'" in arms[0] and "'operation_async' if enable_asyncio else 'operation'" in arms[0]
                             and "('google', 'api_core')" in arms[0])
    r3.check(ok, co.module.path, co.node.lineno, "_client_output LRO type", "LRO output type must be google.api_core operation(.async) Operation / AsyncOperation")


def check_ops_client(report, lib: Lib):
    r4 = report.rule("C08.4", "operations_client exists iff service.has_lro and is bound to the transport's own channel / host+credentials", floor=3)
    for tname, label, expect in ((SVC + "transports/grpc.py.j2", "grpc", "operations_v1.OperationsClient(self._logged_channel)"),
                                 (SVC + "transports/grpc_asyncio.py.j2", "grpc_asyncio", "operations_v1.OperationsAsyncClient(self._logged_channel)"),
                                 (SVC + "transports/rest.py.j2", "rest", None)):
        for sk in lib.variants(tname, transport=("grpc", "rest")):
            has = sk.valuation.assigned.get("service.has_lro")
            props = [f for c in classes(sk.tree()) for f in c.body if isinstance(f, ast.FunctionDef) and f.name == "operations_client"]
            if has is None:
                continue
            r4.instance({"template": label, "has_lro": has})
            r4.check((len(props) == 1) == bool(has), *((where(sk, props[0], lib.root)) if props else (lib.path(tname), 0)),
                     f"operations_client present={len(props)} with has_lro={has}", "operations_client must exist exactly when the service has an LRO method")
            for f in props:
                stores = [s for s in ast.walk(f) if isinstance(s, ast.Assign) and D(sk, s.targets[0]) == "self._operations_client"]
                r4.check(len(stores) == 1, *where(sk, f, lib.root), f"{len(stores)} stores", "operations client is created once and cached")
                if expect and stores:
                    r4.check(D(sk, stores[0].value).replace(" ", "") == expect.replace(" ", ""), *where(sk, stores[0], lib.root), D(sk, stores[0].value),
                             f"the operations client must poll on the transport's own channel: {expect}")
                if not expect:
                    rt = [c for c in calls(f) if D(sk, c.func) == "operations_v1.OperationsRestTransport"]
                    r4.check(len(rt) == 1 and kw(sk, rt[0]).get("host") == "self._host" and kw(sk, rt[0]).get("credentials") == "self._credentials",
                             *where(sk, f, lib.root), D(sk, rt[0])[:120] if rt else "", "REST operations transport must reuse the transport's host and credentials")
                rets = [n for n in ast.walk(f) if isinstance(n, ast.Return)]
                r4.check(len(rets) == 1 and D(sk, rets[0].value) == "self._operations_client", *where(sk, f, lib.root), "return", "returns the cached client")


def run(report: core.Report):
    report.explanation = ("Dominance/reachability rules on _maybe_get_lro and API.build (Python CFG, call graph), slot rules on the "
                          "from_gapic wrap in both client skeletons, and existence/binding of operations_client per transport.")
    report.assumptions.append("api_core operation futures (polling, Any unpacking) are outside the analysis")
    lib = Lib()
    check_python(report)
    check_wiring(report, lib)
    check_ops_client(report, lib)
