"""C08 - long-running methods return futures typed by google.longrunning.operation_info
(raise dominance + reachability, two-pass order, from_gapic slots; polling histories are api_core's).

  C08.1 _maybe_get_lro: None unless output ends with google.longrunning.Operation and the extension is present; TypeError
        when either type name is missing, before OperationInfo is built; names resolved through service_address.resolve and
        looked up in api_messages; response/metadata not swapped; reachable from API.build
  C08.2 two-pass loading: every proto is first built with load_services=False; the second pass rebuilds each with
        prior_protos = all first-pass protos; api_messages chains own messages with every prior proto's all_messages
  C08.3 client wiring (both siblings): from_gapic(response, <transport>.operations_client, <response type>, metadata_type=<metadata type>)
  C08.4 operations_client exists iff service.has_lro and is built on the transport's own channel / host+credentials
"""
from __future__ import annotations

import ast

from .. import core
from ..cfg import CFG
from ..pymodel import pmatch, find_match, CallGraph
from ..skq import D, Dn, Lib, M, SVC, pm, calls, classes, where, kw
from .clientmodel import client_methods


def check_python(report):
    r1 = report.rule("C08.1", "_maybe_get_lro: extension-gated, TypeError on a missing type name dominates OperationInfo(...), types "
                              "resolved relative to the service and taken from api_messages", floor=5)
    m = pm()
    fi = m.func("gapic.schema.api._ProtoBuilder._maybe_get_lro")
    fn, p = fi.node, fi.module.path
    from ..pymodel import nreturn, decision_leaves
    r1.need(len(fn.args.args) == 3, "_maybe_get_lro(self, service_address, meth_pb)")
    SA, MP = fn.args.args[1].arg, fn.args.args[2].arg
    e = nreturn(m, fi, keep={"OperationInfo", "resolve"})
    r1.need(e is not None, "_maybe_get_lro", "the function does not reduce to a decision table; the rule cannot judge it")
    leaves = decision_leaves(e)
    GATE = f"{MP}.output_type.endswith('google.longrunning.Operation')"
    EXT = f"{MP}.options.HasExtension(operations_pb2.operation_info)"
    OP = f"{MP}.options.Extensions[operations_pb2.operation_info]"
    built = [(c, v) for c, v in leaves if isinstance(v, ast.Call) and ast.unparse(v.func).split(".")[-1] == "OperationInfo"]
    raised = [(c, v) for c, v in leaves if isinstance(v, ast.Call) and ast.unparse(v.func) == "__raise__"]
    others = [(c, v) for c, v in leaves if (c, v) not in built and (c, v) not in raised]
    r1.instance("output type gate")
    r1.check(len(built) == 1 and (GATE, True) in built[0][0] and all((GATE, False) not in c or ast.unparse(v) == "None" for c, v in leaves), p, fn.lineno,
             "output_type.endswith('google.longrunning.Operation')", "only methods returning google.longrunning.Operation are LROs")
    r1.instance("annotation gate")
    r1.check(len(built) == 1 and (EXT, True) in built[0][0] and all(ast.unparse(v) == "None" for c, v in others), p, fn.lineno,
             "HasExtension(operation_info)", "an Operation-returning method without operation_info is not an LRO (raw Operation is returned)")
    r1.instance("missing type names rejected")
    want = {(GATE, True), (EXT, True), (f"{OP}.response_type", True), (f"{OP}.metadata_type", True)}
    nand = (f"OR(not {OP}.metadata_type; not {OP}.response_type)", True)
    r1.check(len(built) == 1 and set(built[0][0]) == want, p, fn.lineno, "conditions under which OperationInfo is built",
             "an OperationInfo is built exactly when the method returns an Operation, carries operation_info and BOTH type names are set")
    r1.check(len(raised) == 1 and set(raised[0][0]) == {(GATE, True), (EXT, True), nand} and ast.unparse(raised[0][1].args[0]).startswith("TypeError("), p, fn.lineno,
             "missing type name -> TypeError", "an LRO lacking either type name must be rejected at generation time with TypeError")
    r1.instance("type resolution")
    k = {x.arg: ast.unparse(x.value) for x in built[0][1].keywords} if built else {}
    for field in ("response_type", "metadata_type"):
        r1.check(k.get(field) == f"self.api_messages[{SA}.resolve({OP}.{field})]", p, fn.lineno, f"{field}={k.get(field)}",
                 f"OperationInfo.{field} must be api_messages[service_address.resolve(op.{field})] (relative names resolve against the method's package)")
    # reachability of the raise from API.build
    cg = CallGraph(m)
    pred = cg.reachable(["gapic.schema.api.API.build"])
    r1.instance("reachable from API.build")
    r1.check(fi.qual in pred, p, fn.lineno, "_maybe_get_lro reachable from API.build",
             "the rejection is no longer on the path of API.build: " + " -> ".join(cg.path(pred, fi.qual)[-4:]) if fi.qual in pred else
             "_maybe_get_lro is not reachable from API.build")
    gm = m.func("gapic.schema.api._ProtoBuilder._get_methods")
    # read on the normal form: a keyword expression hoisted into a local is substituted back
    from ..pymodel import nfunc
    ngm = nfunc(m, gm, keep={"_maybe_get_lro", "_maybe_get_extended_lro", "_get_retry_and_timeout"})
    mk = [c for c in calls(ngm) if ast.unparse(c.func) in ("wrappers.Method", "Method")]
    r1.need(len(mk) >= 1, "_get_methods: wrappers.Method(...)")
    kk = {x.arg: ast.unparse(x.value) for x in mk[0].keywords} if mk else {}
    r1.need("lro" in kk, "_get_methods: wrappers.Method(lro=...)")
    r1.check(pmatch("self._maybe_get_lro(_ANYA_, _ANYB_)", [x.value for x in mk[0].keywords if x.arg == "lro"][0]) is not None,
             p, gm.node.lineno, f"Method(lro={kk.get('lro')})", "Method.lro must come from _maybe_get_lro")

    r2 = report.rule("C08.2", "two-pass proto loading so that LRO types resolve without an import", floor=3)
    bd = m.func("gapic.schema.api.API.build")
    fn2 = bd.node
    first = [n for n in ast.walk(fn2) if isinstance(n, ast.For) and any(isinstance(c, ast.Call) and ast.unparse(c.func) == "Proto.build"
                                                                       and any(k.arg == "load_services" and ast.unparse(k.value) == "False" for k in c.keywords)
                                                                       for c in ast.walk(n))]
    r2.instance("first pass")
    r2.check(len(first) == 1 and first[0] in fn2.body, bd.module.path, fn2.lineno, "first pass loop with load_services=False",
             "the first pass must build every file without services")
    from ..pymodel import nfunc
    nb = nfunc(m, bd, keep={"build", "Proto"}).body
    class _Holder:      # (statement, dict comprehension) wherever the comprehension ended up after forward substitution
        def __init__(self, st, dc):
            self.st, self.value, self.lineno = st, dc, fn2.lineno
    second = []
    for st_ in nb:
        for dc_ in ast.walk(st_):
            if isinstance(dc_, ast.DictComp) and any(isinstance(c, ast.Call) and ast.unparse(c.func) == "Proto.build" for c in ast.walk(dc_)):
                if not any(ast.unparse(h.value) == ast.unparse(dc_) for h in second):
                    second.append(_Holder(st_, dc_))
    first_n = [n for n in nb if isinstance(n, ast.For) and any(isinstance(c, ast.Call) and ast.unparse(c.func) == "Proto.build"
                                                               and any(k.arg == "load_services" and ast.unparse(k.value) == "False" for k in c.keywords)
                                                               for c in ast.walk(n))]
    r2.instance("second pass")
    r2.check(len(second) == 1, bd.module.path, fn2.lineno, "second pass comprehension", "the second pass must rebuild every proto")
    if first and second:
        PRE = None
        for n in ast.walk(first[0]):
            if isinstance(n, ast.Assign) and isinstance(n.targets[0], ast.Subscript) and isinstance(n.targets[0].value, ast.Name):
                PRE = n.targets[0].value.id
        r2.check(len(first_n) == 1 and nb.index(first_n[0]) < nb.index(second[0].st), bd.module.path, fn2.lineno, "pass order", "types must be loaded before services")
        dc = second[0].value
        c2 = [c for c in ast.walk(dc) if isinstance(c, ast.Call) and ast.unparse(c.func) == "Proto.build"][0]
        k2 = {x.arg: ast.unparse(x.value) for x in c2.keywords}
        r2.check(PRE is not None and k2.get("prior_protos") == PRE and "load_services" not in k2, bd.module.path, fn2.lineno, str(k2)[:160],
                 "the second pass must see all first-pass protos as prior_protos and load services")
        it = dc.generators[0].iter
        r2.check(PRE is not None and ast.unparse(it) == f"{PRE}.items()" and not dc.generators[0].ifs, bd.module.path, fn2.lineno, ast.unparse(it),
                 "the second pass must rebuild every first-pass proto (no filter)")
    am = m.func("gapic.schema.api._ProtoBuilder.api_messages")
    node, _ = find_match("collections.ChainMap({}, self.proto_messages, *[_P_.all_messages for _P_ in self.prior_protos.values()])", am.node)
    r2.instance("api_messages")
    r2.check(node is not None, am.module.path, am.node.lineno, "api_messages ChainMap",
             "api_messages must chain the file's own messages with all_messages of every prior proto (imported or not)")


def check_wiring(report, lib: Lib):
    r3 = report.rule("C08.3", "LRO methods wrap the response with <operation module>.from_gapic(response, operations_client, "
                              "response type, metadata_type=metadata type)", floor=4)
    lro_shape = {M + ".lro": True}
    import itertools
    for is_async in (False, True):
        for cm in itertools.chain(client_methods(lib, is_async), client_methods(lib, is_async, forced=lro_shape)):
            sk = cm.sk
            lro = cm.v(".lro")
            acc = M + (".client_output_async.ident" if is_async else ".client_output.ident")
            fg = [s for s in cm.fn.body if isinstance(s, ast.Assign) and isinstance(s.value, ast.Call) and D(sk, s.value.func).endswith(".from_gapic")]
            if lro:
                r3.instance({"client": "async" if is_async else "sync", "method": cm.name})
                r3.check(len(fg) == 1 and D(sk, fg[0].targets[0]) == "response", *cm.where(), f"{len(fg)} from_gapic wraps", "exactly one operation future per LRO call")
                if not fg:
                    continue
                c = fg[0].value
                mod = "{(" + acc + ".module_alias or " + acc + ".module)}"
                r3.check(D(sk, c.func) == mod + ".from_gapic", *cm.where(fg[0]), D(sk, c.func),
                         f"the future class must come from the module of {'client_output_async' if is_async else 'client_output'} (operation / operation_async)")
                tr = "self._client._transport" if is_async else "self._transport"
                args = [D(sk, a) for a in c.args]
                r3.check(args == ["response", f"{tr}.operations_client", "{" + M + ".lro.response_type.ident}"], *cm.where(fg[0]), str(args),
                         "positional arguments must be (response, the transport's operations client, the annotated response type)")
                r3.check(kw(sk, c) == {"metadata_type": "{" + M + ".lro.metadata_type.ident}"}, *cm.where(fg[0]), str(kw(sk, c)),
                         "metadata_type= must be the annotated metadata type")
                rc = cm.rpc_calls()
                if len(rc) == 1:
                    r3.check(cm.fn.body.index(fg[0]) > cm.fn.body.index(cm.stmt_of(rc[0])), *cm.where(fg[0]), "wrap after call", "wrap follows the call")
            elif lro is False:
                r3.check(not fg, *cm.where(), f"from_gapic on non-LRO method {cm.name}", "only annotated LROs get futures; others return the raw response")
    m = pm()
    co = m.func("gapic.schema.wrappers.Method._client_output")
    from ..pymodel import nreturn, ladder
    r3.instance("_client_output lro arm")
    e = nreturn(m, co)
    arms = [ast.unparse(v) for t, v in (ladder(e) if e is not None else []) if t is not None and ast.unparse(t) == "self.lro"]
    ok = len(arms) == 1 and ("'AsyncOperation' if enable_asyncio else 'Operation'" in arms[0] and "'operation_async' if enable_asyncio else 'operation'" in arms[0]
                             and "('google', 'api_core')" in arms[0])
    r3.check(ok, co.module.path, co.node.lineno, "_client_output LRO type", "LRO output type must be google.api_core operation(.async) Operation / AsyncOperation")


def check_ops_client(report, lib: Lib):
    r4 = report.rule("C08.4", "operations_client exists iff service.has_lro and is bound to the transport's own channel / host+credentials", floor=3)
    for tname, label, expect in ((SVC + "transports/grpc.py.j2", "grpc", "operations_v1.OperationsClient(self._logged_channel)"),
                                 (SVC + "transports/grpc_asyncio.py.j2", "grpc_asyncio", "operations_v1.OperationsAsyncClient(self._logged_channel)"),
                                 (SVC + "transports/rest.py.j2", "rest", None)):
        for sk in lib.variants(tname, transport=("grpc", "rest")):
            has = sk.valuation.assigned.get("service.has_lro")
            props = [f for c in classes(sk.tree()) for f in c.body if isinstance(f, ast.FunctionDef) and f.name == "operations_client"]
            if has is None:
                continue
            r4.instance({"template": label, "has_lro": has})
            r4.check((len(props) == 1) == bool(has), *((where(sk, props[0], lib.root)) if props else (lib.path(tname), 0)),
                     f"operations_client present={len(props)} with has_lro={has}", "operations_client must exist exactly when the service has an LRO method")
            for f in props:
                stores = [s for s in ast.walk(f) if isinstance(s, ast.Assign) and D(sk, s.targets[0]) == "self._operations_client"]
                r4.check(len(stores) == 1, *where(sk, f, lib.root), f"{len(stores)} stores", "operations client is created once and cached")
                if expect and stores:
                    r4.check(D(sk, stores[0].value).replace(" ", "") == expect.replace(" ", ""), *where(sk, stores[0], lib.root), D(sk, stores[0].value),
                             f"the operations client must poll on the transport's own channel: {expect}")
                if not expect:
                    rt = [c for c in calls(f) if D(sk, c.func) == "operations_v1.OperationsRestTransport"]
                    r4.check(len(rt) == 1 and kw(sk, rt[0]).get("host") == "self._host" and kw(sk, rt[0]).get("credentials") == "self._credentials",
                             *where(sk, f, lib.root), D(sk, rt[0])[:120] if rt else "", "REST operations transport must reuse the transport's host and credentials")
                rets = [n for n in ast.walk(f) if isinstance(n, ast.Return)]
                r4.check(len(rets) == 1 and D(sk, rets[0].value) == "self._operations_client", *where(sk, f, lib.root), "return", "returns the cached client")


def run(report: core.Report):
    report.explanation = ("Dominance/reachability rules on _maybe_get_lro and API.build (Python CFG, call graph), slot rules on the "
                          "from_gapic wrap in both client skeletons, and existence/binding of operations_client per transport.")
    report.assumptions.append("api_core operation futures (polling, Any unpacking) are outside the analysis")
    lib = Lib()
    check_python(report)
    check_wiring(report, lib)
    check_ops_client(report, lib)
    # the types named in the from_gapic(...) wrap must be imported by the client module: they come from Method._ref_types
    r5 = report.rule("C08.5", "the client modules import the LRO response / metadata (and extended-operation) types that the wrap names: "
                              "Method._ref_types appends them under `self.lro` / `self.extended_lro` on the flat and the recursive path", floor=4)
    from .common_rules import ref_types_inclusions
    ref_types_inclusions(r5, {"self.lro.response_type": "self.lro", "self.lro.metadata_type": "self.lro",
                              "self.extended_lro.request_type": "self.extended_lro", "self.extended_lro.operation_type": "self.extended_lro"})
