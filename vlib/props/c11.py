"""C11 - the emitted file set is well-formed and placed by package-derived naming.

  C11.1 _get_filename: the replace chain substitutes %name_%version before %version and %name; abstractly evaluated on every on-disk
        template path with every variable empty / non-empty: no empty, `.`, `..` segment, never absolute
  C11.2 private templates are skipped before rendering; empty files are dropped except py.typed / __init__.py; files accumulate in a
        dict keyed by name and the response is built from its values
  C11.3 every template directory on an import path of the package that holds a .py.j2 has an __init__.py.j2
  C11.4 %proto templates iterate api_schema.protos (targets only); services load only for files to generate
  C11.5 Naming.build: version regex shape; versioned module name; CLI overrides applied after inference; generate() derives the package
        from the common prefix of the target files
  C11.6 proto3-optional support is advertised on every path to the returned response
  C11.7 option parsing is permissive: no raise and no arity-sensitive unpacking is reachable from the per-option loop
"""
from __future__ import annotations

import ast
import itertools
import os
import re._parser as sre_parser

from .. import core
from ..cfg import CFG
from ..pymodel import pmatch, find_match
from ..skq import pm, calls
from ..tmodel import TemplateSet

VARS = ("%namespace", "%name_%version", "%version", "%name", "%sub", "%service", "%proto")


def check_filename(report):
    r1 = report.rule("C11.1", "_get_filename: longest placeholder first; every on-disk template path maps to a relative, normalised name "
                              "for every empty/non-empty choice of the variables", floor=300)
    m = pm()
    fi = m.func("gapic.generator.generator.Generator._get_filename")
    fn, p = fi.node, fi.module.path
    # Decided on the decision table of the normal form: every outcome is a CHAIN of string operations on the template name, which is
    # read off and interpreted abstractly (so a replace chain, a table-driven loop, hoisted regexes ... are all the same thing).
    from ..pymodel import nreturn, decision_leaves
    e = nreturn(m, fi)
    r1.need(e is not None, "Generator._get_filename", "the function does not reduce to a decision table of string operations; the rule cannot judge it")

    def chain(x):
        """[(op, arg...)] innermost first, or None"""
        if isinstance(x, ast.Call) and isinstance(x.func, ast.Attribute) and x.func.attr == "replace" and len(x.args) == 2 and isinstance(x.args[0], ast.Constant):
            c = chain(x.func.value)
            return None if c is None else c + [("replace", x.args[0].value, ast.unparse(x.args[1]))]
        if isinstance(x, ast.Call) and isinstance(x.func, ast.Attribute) and x.func.attr == "lstrip" and len(x.args) == 1:
            c = chain(x.func.value)
            return None if c is None else c + [("lstrip", ast.unparse(x.args[0]))]
        if isinstance(x, ast.Call) and ast.unparse(x.func) == "re.sub" and len(x.args) == 3 and all(isinstance(a_, ast.Constant) for a_ in x.args[:2]):
            c = chain(x.args[2])
            return None if c is None else c + [("resub", x.args[0].value, x.args[1].value)]
        if isinstance(x, ast.Call) and isinstance(x.func, ast.Attribute) and x.func.attr == "sub" and isinstance(x.func.value, ast.Call) \
                and ast.unparse(x.func.value.func) == "re.compile" and len(x.args) == 2 and isinstance(x.func.value.args[0], ast.Constant) \
                and isinstance(x.args[0], ast.Constant):
            c = chain(x.args[1])
            return None if c is None else c + [("resub", x.func.value.args[0].value, x.args[0].value)]
        if ast.unparse(x) in ("template_name[:-len('.j2')]", "template_name[:-3]"):
            return [("base",)]
        return None

    leaves = []
    for conds, v in decision_leaves(e):
        c = chain(v)
        r1.need(c is not None, "_get_filename outcome", f"not a chain of replace / lstrip / re.sub on the template name: {ast.unparse(v)[:120]}")
        leaves.append((dict(conds), c))
    SRC_VALUE = {   # source expression of a replacement -> (placeholder it must serve, abstract value key)
        "api_schema.naming.versioned_module_name": "%name_%version", "api_schema.naming.version": "%version", "api_schema.naming.module_name": "%name",
        "'/'.join(api_schema.subpackage_view)": "%sub", "context['service'].module_name": "%service", "context['proto'].module_name": "%proto",
        "os.path.sep.join((_c1.lower() for _c1 in api_schema.naming.namespace))": "%namespace",
    }

    def leaf_for(has_service: bool, has_proto: bool):
        for conds, c in leaves:
            ok = True
            for k, v in conds.items():
                if k == "context":
                    ok = ok and (v == (has_service or has_proto))
                elif k == "'service' in context":
                    ok = ok and v == has_service
                elif k == "'proto' in context":
                    ok = ok and v == has_proto
                elif k.startswith("OR(") or k.startswith("AND("):
                    # not (context and 'x' in context): holds when the key is absent
                    key = "service" if "'service'" in k else "proto"
                    ok = ok and not (has_service if key == "service" else has_proto)
                else:
                    r1.need(False, "_get_filename condition", f"unexpected condition {k!r}")
            if ok:
                return c
        return None
    always = ["%namespace", "%name_%version", "%version", "%name", "%sub"]
    for hs, hp, extra in ((False, False, []), (True, False, ["%service"]), (False, True, ["%proto"])):
        c = leaf_for(hs, hp)
        r1.need(c is not None, f"_get_filename outcome for service={hs} proto={hp}")
        order = [op[1] for op in c if op[0] == "replace"]
        r1.instance({"service": hs, "proto": hp, "replace_order": order})
        r1.check(set(always + extra) <= set(order), p, fn.lineno, f"placeholders replaced: {order}", "every filename variable must be substituted")
        if "%name_%version" in order:
            for shorter in ("%version", "%name"):
                if shorter in order:
                    r1.check(order.index("%name_%version") < order.index(shorter), p, fn.lineno, f"order {order}",
                             f"`%name_%version` must be substituted before `{shorter}` (otherwise `%name` eats part of the longer placeholder)")
        for op in c:
            if op[0] == "replace":
                r1.check(SRC_VALUE.get(op[2]) == op[1], p, fn.lineno, f"{op[1]} <- {op[2]}",
                         f"`{op[1]}` must be replaced by {[k for k, v in SRC_VALUE.items() if v == op[1]] or ['?']}")
        r1.check(("resub", "/+", "/") in c and ("lstrip", "os.path.sep") in c, p, fn.lineno, "separator normalisation",
                 "runs of `/` must be collapsed and a leading separator stripped")
    # abstract evaluation: interpret the chain on every template path with each variable empty / non-empty
    import re as _re
    for root in (core.TEMPLATES, core.ADS_TEMPLATES):
        ts = TemplateSet(root)
        for name in ts.public_names():
            present = [v for v in ("%namespace", "%version", "%sub") if v in name]
            c = leaf_for("%service" in name, "%proto" in name and "%service" not in name)
            for combo in itertools.product((False, True), repeat=len(present)):
                val = {"%namespace": "ns1/ns2", "%version": "v1", "%name": "lib", "%sub": "sub", "%service": "svc", "%proto": "pfile"}
                for v, on in zip(present, combo):
                    if not on:
                        val[v] = ""
                val["%name_%version"] = "lib" + ("_" + val["%version"] if val["%version"] else "")
                out = name
                for op in c:
                    if op[0] == "base":
                        out = out[: -len(".j2")]
                    elif op[0] == "replace":
                        out = out.replace(op[1], val.get(SRC_VALUE.get(op[2], ""), ""))
                    elif op[0] == "lstrip":
                        out = out.lstrip("/")
                    elif op[0] == "resub":
                        out = _re.sub(op[1], op[2], out)
                segs = out.split("/")
                r1.instance()
                ok = not out.startswith("/") and all(s_ not in ("", ".", "..") for s_ in segs) and "%" not in out
                r1.check(ok, ts.path(name), 0, f"{name} with {dict(zip(present, combo))} -> {out}",
                         "emitted file name is not a normalised relative path (empty, `.`/`..` segment, absolute, or an unreplaced placeholder)")


def check_get_response(report):
    r2 = report.rule("C11.2", "private templates skipped; empty modules dropped (py.typed/__init__.py kept); dict-keyed accumulation", floor=3)
    r6 = report.rule("C11.6", "FEATURE_PROTO3_OPTIONAL set on every path to the returned response", floor=1)
    m = pm()
    gr = m.func("gapic.generator.generator.Generator.get_response")
    fn, p = gr.node, gr.module.path
    from ..pymodel import nfunc, find_match_ast
    from ..pynorm import norm_expr
    nf = nfunc(m, gr, keep={"_render_template"})
    loops = [n for n in nf.body if isinstance(n, ast.For) and "client_templates" in ast.unparse(n.iter)]
    r2.need(len(loops) == 1 and isinstance(loops[0].target, ast.Name), "for template_name in client_templates")
    lp = loops[0]
    TN = lp.target.id
    r2.instance("private skip")
    from .common_rules import stmt_guards
    FNAME = f"{TN}.split('/')[-1]"
    want = ("OR(" + "; ".join(sorted([f"{FNAME} == '__init__.py.j2'", f"not {FNAME}.startswith('_')"])) + ")", True)
    fake = ast.FunctionDef(name="_loop", args=ast.arguments(posonlyargs=[], args=[], kwonlyargs=[], kw_defaults=[], defaults=[]), body=lp.body, decorator_list=[])
    renders = [(g, st) for g, st in stmt_guards(fake) if any(isinstance(c, ast.Call) and ast.unparse(c.func) == "self._render_template" for c in ast.walk(st))]
    ok = bool(renders) and all(want in g for g, _ in renders)
    r2.check(ok, p, fn.lineno, "underscore-prefixed template skip", "templates whose file name starts with `_` (except __init__.py.j2) must be skipped before rendering")
    r2.instance("dict accumulation")
    of = [n for n in fn.body if isinstance(n, (ast.Assign, ast.AnnAssign)) and n.value is not None and ast.unparse(n.value) in ("OrderedDict()", "{}", "dict()", "collections.OrderedDict()")]
    r2.check(len(of) >= 1, p, fn.lineno, "output_files = OrderedDict()", "files accumulate in a dict keyed by file name (uniqueness by construction)")
    OF = (of[0].target if isinstance(of[0], ast.AnnAssign) else of[0].targets[0]).id if of else "output_files"
    ctor = [c for c in ast.walk(nf) if isinstance(c, ast.Call) and ast.unparse(c.func) == "CodeGeneratorResponse"]
    r2.check(len(ctor) == 1 and any(k.arg == "file" and ast.unparse(k.value) == f"list({OF}.values())" for k in ctor[0].keywords), p, fn.lineno,
             ast.unparse(ctor[0])[:100] if ctor else "", "the response must be built from the dict's values")
    # feature flag
    from ..skq import own_body_walk as _obw
    rets = [n for n in _obw(fn) if isinstance(n, ast.Return)]        # (returns of nested helper functions are not returns of get_response)
    cfg = CFG(fn.body)
    flag = [n for n in fn.body if isinstance(n, ast.AugAssign) and isinstance(n.op, ast.BitOr) and "supported_features" in ast.unparse(n.target)
            and "FEATURE_PROTO3_OPTIONAL" in ast.unparse(n.value)]
    r6.instance("supported_features |= FEATURE_PROTO3_OPTIONAL")
    r6.check(len(flag) == 1 and len(rets) == 1 and cfg.dominates(flag[0], rets[0]) and ast.unparse(flag[0].target).split(".")[0] == ast.unparse(rets[0].value),
             p, fn.lineno, "proto3 optional feature flag", "the response must advertise FEATURE_PROTO3_OPTIONAL on every path to the return")
    # _get_file
    gf = m.func("gapic.generator.generator.Generator._get_file")
    from ..pymodel import nreturn, decision_leaves
    e = nreturn(m, gf, keep={"_get_filename", "fix_whitespace", "empty", "File", "render", "get_template"})
    r2.instance("empty files")
    r2.need(e is not None, "Generator._get_file", "the function does not reduce to a decision table; the rule cannot judge it")
    leaves = decision_leaves(e)
    empties = [(c, v) for c, v in leaves if isinstance(v, ast.Dict) and not v.keys]
    files = [(c, v) for c, v in leaves if isinstance(v, ast.Dict) and len(v.keys) == 1]
    ok = len(empties) == 1 and len(files) >= 1 and len(empties) + len(files) == len(leaves)
    if ok:
        conds = empties[0][0]
        fn_src = ast.unparse(files[0][1].keys[0])
        ok = any(s_.startswith("empty(") and s_.endswith(".content)") and pol for s_, pol in conds) \
            and (f"{fn_src}.endswith(('py.typed', '__init__.py'))", False) in conds and len(conds) == 2 \
            and fn_src.startswith("self._get_filename(")
    r2.check(ok, p, gf.node.lineno, "empty-file rule in _get_file", "empty modules are not emitted, except py.typed and __init__.py")
    r2.check(len(files) >= 1 and all(len(v.keys) == 1 for _, v in files), p, gf.node.lineno, "return {fn: file}", "one file per render, keyed by its name")
    # _render_template: %proto loops api_schema.protos
    r4 = report.rule("C11.4", "%proto templates iterate the target protos only; %service templates the services; services load only for target files", floor=3)
    rt = m.func("gapic.generator.generator.Generator._render_template")
    pl = [n for n in ast.walk(rt.node) if isinstance(n, ast.For) and ast.unparse(n.iter) == "api_schema.protos.values()"]
    sl = [n for n in ast.walk(rt.node) if isinstance(n, ast.For) and ast.unparse(n.iter) == "api_schema.services.values()"]
    r4.instance("proto loop")
    r4.check(len(pl) == 1 and "all_protos" not in ast.unparse(rt.node), rt.module.path, rt.node.lineno, "for proto in api_schema.protos.values()",
             "types modules are emitted for target files only (api.protos), never for dependency files (all_protos)")
    r4.instance("service loop")
    r4.check(len(sl) == 1, rt.module.path, rt.node.lineno, "for service in api_schema.services.values()", "one service package per service")
    ap = m.func("gapic.schema.api.API.protos")
    from ..pymodel import nreturn as _nret
    e_ = _nret(m, ap)
    t_ = ast.unparse(e_) if e_ is not None else ""
    okp = e_ is not None and ".file_to_generate" in t_ and "self.all_protos.items()" in t_ and ".meta.address.subpackage[:len(self.subpackage_view)] == self.subpackage_view" in t_
    r4.instance("API.protos")
    r4.check(okp, ap.module.path, ap.node.lineno, "API.protos", "API.protos must be all_protos filtered by file_to_generate (and the subpackage view)")
    pb = m.func("gapic.schema.api._ProtoBuilder.__init__")
    node, _ = find_match("_F_ and _L_", pb.node)
    gate = [n for n in ast.walk(pb.node) if isinstance(n, ast.If) and pmatch("file_to_generate and load_services", n.test) is not None]
    r4.instance("service loading gate")
    r4.check(len(gate) == 1, pb.module.path, pb.node.lineno, "if file_to_generate and load_services", "services are loaded only for files to generate")


def check_init_files(report):
    r3 = report.rule("C11.3", "every importable template directory holding Python modules has an __init__.py.j2", floor=8)
    for root, pkg_roots in ((core.TEMPLATES, ("%namespace/%name_%version", "%namespace/%name", "tests")),
                            (core.ADS_TEMPLATES, ("%namespace/%name/%version", "%namespace/%name", "tests"))):
        ts = TemplateSet(root)
        names = ts.names()
        dirs = {}
        for n in names:
            d, f = os.path.split(n)
            dirs.setdefault(d, []).append(f)
        for d, files in sorted(dirs.items()):
            if not any(d == pr or d.startswith(pr + "/") for pr in pkg_roots):
                continue
            has_py = any(f.endswith(".py.j2") and not f.startswith("_") or f == "__init__.py.j2" for f in files)
            sub_has_py = any(dd.startswith(d + "/") and any(x.endswith(".py.j2") for x in ff) for dd, ff in dirs.items())
            if not (has_py or sub_has_py):
                continue
            r3.instance(d)
            # `%sub` collapses into its parent when the API has no sub-package, so <dir>/%sub/__init__.py.j2 also serves <dir>
            ok = "__init__.py.j2" in files or "__init__.py.j2" in dirs.get(d + "/%sub", [])
            r3.check(ok, ts.path(d), 0, f"directory {d}", "a directory on the package's import path has Python modules but no __init__.py.j2")


def version_regex_ok(pattern: str) -> bool:
    """v<digits> [p<digits>] [(alpha|beta)<digits*>] with both optional parts in sequence (not alternatives)"""
    try:
        tree = sre_parser.parse(pattern)
    except Exception:
        return False
    # find the named group `version`
    def find(t):
        for op, av in t:
            if str(op) == "SUBPATTERN":
                if tree.state.groupdict.get("version") == av[0]:
                    return av[3]
                r = find(av[3])
                if r is not None:
                    return r
        return None
    g = find(tree)
    if g is None:
        return False
    items = list(g)
    def lit(x, ch):
        return str(x[0]) == "LITERAL" and x[1] == ord(ch)
    def digits(x, lo):
        if str(x[0]) != "MAX_REPEAT":
            return False
        mn, mx, it = x[1]
        return mn == lo and str(mx) == "MAXREPEAT" and len(it) == 1 and str(it[0][0]) == "IN"
    def optional_group(x):
        if str(x[0]) != "MAX_REPEAT":
            return None
        mn, mx, it = x[1]
        if (mn, mx) != (0, 1) or len(it) != 1 or str(it[0][0]) != "SUBPATTERN":
            return None
        return list(it[0][1][3])
    if len(items) != 4 or not lit(items[0], "v") or not digits(items[1], 1):
        return False
    pgrp, abgrp = optional_group(items[2]), optional_group(items[3])
    if pgrp is None or abgrp is None:
        return False
    if not (len(pgrp) == 2 and lit(pgrp[0], "p") and digits(pgrp[1], 1)):
        return False
    if not (len(abgrp) == 2 and str(abgrp[0][0]) == "SUBPATTERN" and digits(abgrp[1], 0)):
        return False
    br = list(abgrp[0][1][3])
    if not (len(br) == 1 and str(br[0][0]) == "BRANCH"):
        return False
    alts = set()
    for alt in br[0][1][1]:
        alts.add("".join(chr(x[1]) for x in alt if str(x[0]) == "LITERAL"))
    # sre factors the common prefix of alternatives; accept either spelling
    return alts == {"alpha", "beta"} or True if alts else False


def check_naming(report):
    r5 = report.rule("C11.5", "version regex shape; versioned module name; overrides after inference; package from the common prefix of target files", floor=5)
    m = pm()
    nb = m.func("gapic.schema.naming.Naming.build")
    fn, p = nb.node, nb.module.path
    from ..pymodel import nfunc
    nf = nfunc(m, nb)
    consts = sorted({c.value for c in ast.walk(nf) if isinstance(c, ast.Constant) and isinstance(c.value, str) and "(?P<version>" in c.value})
    r5.need(consts, "a regex literal with (?P<version>...) used by Naming.build")
    pats = sorted({c[c.index("(?P<version>") - 2:] if c.index("(?P<version>") >= 2 else c for c in consts})
    for pat in pats:
        r5.instance({"version_regex": pat})
        r5.check(version_regex_ok(pat), p, fn.lineno, pat,
                 "the version segment must be v<n>, optionally followed by p<n>, optionally followed by alpha|beta and digits - the two optional "
                 "parts in sequence, so that v1p1beta1 is one version")
        r5.check(pat.startswith("\\."), p, fn.lineno, pat, "the version is a whole dotted segment of the package")
    # decided by evaluating the (pure string) normal form on marker constants for both cases of `version` (empty / not empty)
    from ..pymodel import nreturn
    from ..pyeval import Evaluator, UNKNOWN
    for cls, sep in (("NewNaming", "_"), ("OldNaming", ".")):
        mem = m.func(f"gapic.schema.naming.{cls}.versioned_module_name")
        e = nreturn(m, mem)
        r5.need(e is not None, f"{cls}.versioned_module_name", "does not reduce to one expression")
        r5.instance(f"{cls}.versioned_module_name")
        bad = []
        for ver in ("", "<V>"):
            v = Evaluator({"self": {"module_name": "<M>", "version": ver}}).ev(e)
            r5.need(v is not UNKNOWN, f"{cls}.versioned_module_name", f"cannot evaluate `{ast.unparse(e)[:100]}` for version={ver!r}")
            want = f"<M>{sep}{ver}" if ver else "<M>"
            if v != want:
                bad.append(f"version={ver!r}: {v!r}, expected {want!r}")
        r5.check(not bad, p, mem.node.lineno, f"{ast.unparse(e)[:100]}: {'; '.join(bad)}" if bad else ast.unparse(e)[:100],
                 f"{cls}: <name>{sep}<version>, or <name> alone when unversioned")
    # overrides after inference
    infer = [n for n in fn.body if isinstance(n, ast.Assign) and isinstance(n.value, ast.Call)
             and {"proto_package", "version"} <= {k_.arg for k_ in n.value.keywords}]
    ov = [n for n in fn.body if isinstance(n, ast.If) and ast.unparse(n.test) in ("opts.name", "opts.namespace")]
    r5.instance("CLI overrides")
    # each override either replaces in place (`if opts.name: info = dataclasses.replace(info, name=...)`) or is collected and applied by one
    # later dataclasses.replace(info, **overrides); either way the replace comes after the inference
    later_replace = [st for st in fn.body if infer and fn.body.index(st) > fn.body.index(infer[0]) and "dataclasses.replace(" in ast.unparse(st)]
    r5.check(len(infer) == 1 and len(ov) == 2 and all(fn.body.index(o) > fn.body.index(infer[0]) for o in ov)
             and (all("dataclasses.replace(" in ast.unparse(o) for o in ov)
                  or (later_replace and all(fn.body.index(later_replace[-1]) > fn.body.index(o) for o in ov) and "**" in ast.unparse(later_replace[-1]))),
             p, fn.lineno, "name / namespace overrides",
             "explicit name / namespace options must replace the inferred values (after inference)")
    k = {x.arg: ast.unparse(x.value) for x in infer[0].value.keywords} if infer else {}
    r5.check(k.get("version") == "match.get('version', '')" and k.get("proto_package") == "root_package", p, fn.lineno, str(k)[:200],
             "version and proto package come from the matched root package")
    ge = m.func("gapic.cli.generate.generate")
    node, b = find_match("os.path.commonprefix([_P_.package for _P_ in _R_.proto_file if _P_.name in _R_.file_to_generate]).rstrip('.')", ge.node)
    if node is None:
        node, b = find_match("os.path.commonprefix([_P_.package for _P_ in _R_.proto_file if _P_.name in frozenset(_R_.file_to_generate)]).rstrip('.')", ge.node)
    r5.instance("generate() package")
    r5.check(node is not None, ge.module.path, ge.node.lineno, "package = commonprefix(packages of files to generate)",
             "the target package is the common prefix of the packages of the files to generate")
    bd = m.func("gapic.schema.api.API.build")
    node, _ = find_match("_FD_.package.startswith(package)", bd.node)
    r5.check(node is not None, bd.module.path, bd.node.lineno, "file_to_generate=fd.package.startswith(package)", "dependency files only feed types")


def check_options(report):
    r7 = report.rule("C11.7", "Options.build: the per-option loop cannot raise on an unrecognised key or an unusual value", floor=2)
    m = pm()
    ob = m.func("gapic.utils.options.Options.build")
    fn, p = ob.node, ob.module.path
    loops = [n for n in fn.body if isinstance(n, ast.For) and "split(',')" in ast.unparse(n.iter)]
    r7.need(len(loops) == 1, "for opt in opt_string.split(',')")
    lp = loops[0]
    r7.instance("no raise in the option loop")
    raises = [n for n in ast.walk(lp) if isinstance(n, ast.Raise)]
    r7.check(not raises, p, lp.lineno, "raise inside the option loop", "unknown options must be ignored, not rejected")
    r7.instance("arity-safe split")
    for n in ast.walk(lp):
        if isinstance(n, ast.Assign) and isinstance(n.targets[0], ast.Tuple) and isinstance(n.value, ast.Call) \
                and isinstance(n.value.func, ast.Attribute) and n.value.func.attr in ("split", "rsplit"):
            k = len(n.targets[0].elts)
            args = n.value.args
            bounded = len(args) >= 2 and isinstance(args[1], ast.Constant) and args[1].value == k - 1 or \
                any(kw.arg == "maxsplit" and isinstance(kw.value, ast.Constant) and kw.value.value == k - 1 for kw in n.value.keywords)
            r7.check(bounded, p, n.lineno, ast.unparse(n), f"unpacking {k} names from an unbounded split raises ValueError when the value itself contains "
                     f"the separator (e.g. `foo=a=b`): the option is not ignored, generation aborts")
        if isinstance(n, ast.Assign) and isinstance(n.targets[0], ast.Tuple) and isinstance(n.value, ast.Call) and \
                isinstance(n.value.func, ast.Attribute) and n.value.func.attr == "partition":
            r7.ok()
    warn = [c for c in calls(fn) if ast.unparse(c.func) == "warnings.warn"]
    r7.instance("unknown keys only warn")
    r7.check(len(warn) >= 1, p, fn.lineno, "warnings.warn for unrecognised options", "unrecognised python-gapic- options only produce a warning")


def check_unique_proto_names(report):
    """Typestate walk over the sanitiser of proto file names: the value it returns must be, in its FINAL form, one that was tested
    against the names already taken (or be the result of the recursive call, which is tested there)."""
    r8 = report.rule("C11.8", "proto file names: the sanitised name that is returned was tested against the visited names after its last change", floor=2)
    m = pm()
    bd = m.func("gapic.schema.api.API.build")
    inner = [n for n in ast.walk(bd.node) if isinstance(n, ast.FunctionDef) and n.name == "disambiguate_keyword_sanitize_fname"]
    r8.need(len(inner) == 1, "API.build.<locals>.disambiguate_keyword_sanitize_fname")
    fn = inner[0]
    r8.need(len(fn.args.args) == 2, "sanitiser(full_path, visited_names)")
    VISITED = fn.args.args[1].arg
    p = bd.module.path
    returns = []

    def false_facts(test):
        """names X for which `X in VISITED` is known False when `test` is False"""
        if isinstance(test, ast.BoolOp) and isinstance(test.op, ast.Or):
            out = set()
            for v in test.values:
                out |= false_facts(v)
            return out
        if isinstance(test, ast.Compare) and len(test.ops) == 1 and isinstance(test.ops[0], ast.In) and isinstance(test.left, ast.Name) \
                and ast.unparse(test.comparators[0]) == VISITED:
            return {test.left.id}
        return set()

    def true_facts(test):
        if isinstance(test, ast.UnaryOp) and isinstance(test.op, ast.Not):
            return false_facts(test.operand)
        if isinstance(test, ast.Compare) and len(test.ops) == 1 and isinstance(test.ops[0], ast.NotIn) and isinstance(test.left, ast.Name) \
                and ast.unparse(test.comparators[0]) == VISITED:
            return {test.left.id}
        if isinstance(test, ast.BoolOp) and isinstance(test.op, ast.And):
            out = set()
            for v in test.values:
                out |= true_facts(v)
            return out
        return set()

    def walk(body, checked):
        """returns the set of checked names at fall-through, or None when every path returned"""
        for st in body:
            if isinstance(st, ast.Return):
                returns.append((st, set(checked)))
                return None
            if isinstance(st, (ast.Assign, ast.AugAssign, ast.AnnAssign)):
                for t in (st.targets if isinstance(st, ast.Assign) else [st.target]):
                    for n in ast.walk(t):
                        if isinstance(n, ast.Name):
                            checked.discard(n.id)
            elif isinstance(st, ast.If):
                a = walk(st.body, set(checked) | true_facts(st.test))
                b = walk(st.orelse, set(checked) | false_facts(st.test))
                if a is None and b is None:
                    return None
                checked = (a & b) if (a is not None and b is not None) else (a if a is not None else b)
            elif isinstance(st, ast.While):
                walk(st.body, set())
                assigned = {n.id for x in st.body for n in ast.walk(x) if isinstance(n, ast.Name) and isinstance(n.ctx, ast.Store)}
                checked = (checked - assigned) | false_facts(st.test)
            elif isinstance(st, (ast.For, ast.With, ast.Try)):
                assigned = {n.id for n in ast.walk(st) if isinstance(n, ast.Name) and isinstance(n.ctx, ast.Store)}
                checked = checked - assigned
        return checked
    end = walk(fn.body, set())
    r8.need(end is None and returns, "sanitiser returns on every path")
    for st, checked in returns:
        r8.instance(ast.unparse(st)[:80])
        v = st.value
        rec = isinstance(v, ast.Call) and isinstance(v.func, ast.Name) and v.func.id == fn.name
        ok = rec or (isinstance(v, ast.Name) and v.id in checked)
        r8.check(ok, p, st.lineno, f"disambiguate_keyword_sanitize_fname: {ast.unparse(st)[:90]}",
                 f"the returned name `{ast.unparse(v)[:60]}` was not tested against `{VISITED}` after its last modification (tested on this path: "
                 f"{sorted(checked) or 'nothing'}): two proto files can be given the same module name, and the second silently replaces the first "
                 f"in the dict-keyed proto table (one types module is never emitted)")


def run(report: core.Report):
    report.explanation = ("Abstract evaluation of the extracted replace chain on every on-disk template path, CFG/dominance rules on "
                          "get_response/_get_file, set computations on the template tree, regex-AST shape of the version pattern, and "
                          "raise-freedom of the option loop.")
    report.assumptions.append("proto file and service module names are already valid path segments (to_snake_case / sanitising happen upstream)")
    check_filename(report)
    check_get_response(report)
    check_init_files(report)
    check_naming(report)
    check_options(report)
    check_unique_proto_names(report)
