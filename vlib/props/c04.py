"""C04 - REST calls transcode each request as its google.api.http rule prescribes
(http-option emission, flag/guard agreement, response parse path; losslessness of transcoding is api_core's).

  C04.1 _get_http_options lists every binding in order with method / uri / body-iff-body; Python: Method.http_options =
        [http] + additional_bindings through try_parse_http_rule (None only for absent/custom patterns; uri and body rewritten
        for reserved names)
  C04.2 _get_transcoded_request hands (http_options, pb_request) to path_template.transcode; pb_request = T.pb(request) iff proto-plus
  C04.3 body / query JSON pass use_integers_for_enums=<rest_numeric_enums>; $alt exactly under that option; body helper iff body
  C04.4 required-field defaults table keyed camelCase over required fields that are query params; merged under the same guard;
        Python: query_params = all input fields - path params - body field (empty for `*`); path-variable regexes are not greedy
  C04.5 __call__: >= 400 raises before parsing; JSON parsed with ignore_unknown_fields into the declared output type (Operation for
        LRO, ResponseIterator for server streaming); NotImplementedError exactly when there is no usable binding
  C04.6 rest.py.j2 / rest_asyncio.py.j2 agree
"""
from __future__ import annotations

import ast
import re._parser as sre_parser

from .. import core
from ..cfg import CFG
from ..pymodel import pmatch, find_match
from ..skq import D, Dn, Lib, M, SVC, pm, calls, classes, where, kw, own_body_walk

RULE = "ELEM(" + M + ".http_options)"
BODY0 = M + ".http_options[0].body"
USABLE = [("a", M + ".http_options"), ("n", ("a", M + ".client_streaming"))]


def base_classes(sk):
    for cls in ast.walk(sk.tree()):
        if isinstance(cls, ast.ClassDef) and Dn(sk, cls.name) == "_Base{" + M + ".name}":
            yield cls


def check_base(report, lib: Lib):
    r1 = report.rule("C04.1", "_get_http_options: one dict per binding, in order: method, uri, and body iff the rule has one", floor=6)
    r2 = report.rule("C04.2", "_get_transcoded_request: transcode(http_options, pb_request), pb_request = T.pb(request) iff proto-plus", floor=6)
    r3 = report.rule("C04.3", "JSON encoding honours rest_numeric_enums in body, query and $alt; body helper iff body", floor=6)
    r4 = report.rule("C04.4", "required-field defaults: camelCase keys over required query-param fields; merged into the query", floor=3)
    tname = SVC + "transports/rest_base.py.j2"
    root = lib.root
    for sk in lib.variants(tname, transport=("rest",), want2=True):
        for cls in base_classes(sk):
            fns = {f.name: f for f in cls.body if isinstance(f, ast.FunctionDef)}
            usable = sk.valuation.assigned.get(M + ".http_options") and not sk.valuation.assigned.get(M + ".client_streaming")
            if not usable:
                r1.instance()
                r1.check("_get_http_options" not in fns, *where(sk, cls, root), "http helpers without usable binding", "no helpers expected without a binding")
                continue
            # ---- C04.1
            f = fns.get("_get_http_options")
            r1.instance({"class": Dn(sk, cls.name)})
            r1.check(f is not None, *where(sk, cls, root), "_get_http_options", "every REST-capable method needs its http options table")
            if f is not None:
                lst = [n for n in ast.walk(f) if isinstance(n, (ast.Assign, ast.AnnAssign)) and isinstance(n.value, ast.List)]
                r1.check(len(lst) == 1, *where(sk, f, root), "http_options list", "one list literal of bindings")
                if lst:
                    n_rules = sk.valuation.assigned.get("LOOP:" + M + ".http_options")
                    elts = lst[0].value.elts
                    r1.check(n_rules is None or len(elts) == n_rules, *where(sk, f, root), f"{len(elts)} dicts for {n_rules} bindings", "one entry per binding")
                    has_body = sk.valuation.assigned.get(RULE + ".body")
                    for e in elts:
                        ok = isinstance(e, ast.Dict)
                        r1.check(ok, *where(sk, e, root), D(sk, e)[:80], "each binding is a dict")
                        if not ok:
                            continue
                        d = {D(sk, k): D(sk, v) for k, v in zip(e.keys, e.values)}
                        exp = {"'method'": "'{" + RULE + ".method}'", "'uri'": "'{" + RULE + ".uri}'"}
                        if has_body:
                            exp["'body'"] = "'{" + RULE + ".body}'"
                        r1.check(d == exp, *where(sk, e, root), str(d), f"binding dict must be {exp}")
                        seg = sk.seg_of_node(e)
                        loops = [g for g in seg.guards if g[0] == "loop" and g[1] == M + ".http_options"]
                        r1.check(len(loops) == 1 and loops[0][3] == M + ".http_options", *where(sk, e, root),
                                 f"bindings iterated as {loops[0][3] if loops else None}", "bindings must be listed in declared order, unfiltered (the first is primary)")
                rets = [n for n in ast.walk(f) if isinstance(n, ast.Return)]
                r1.check(len(rets) == 1 and D(sk, rets[0].value) == "http_options", *where(sk, f, root), "return http_options", "the table is returned")
            # ---- C04.2
            f = fns.get("_get_transcoded_request")
            r2.instance()
            r2.check(f is not None and [a.arg for a in f.args.args] == ["http_options", "request"], *where(sk, cls, root), "_get_transcoded_request(http_options, request)",
                     "transcoding helper with (http_options, request)")
            if f is not None:
                body = [D(sk, s) for s in f.body]
                pp = sk.valuation.assigned.get(M + ".input.ident.is_proto_plus_type")
                first = ("pb_request = {" + M + ".input.ident}.pb(request)") if pp else "pb_request = request"
                r2.check(body == [first, "transcoded_request = path_template.transcode(http_options, pb_request)", "return transcoded_request"],
                         *where(sk, f, root), " ; ".join(body), f"expected `{first}`; transcode(http_options, pb_request); return (proto-plus={pp})")
            # ---- C04.3
            b0 = sk.valuation.assigned.get(BODY0)
            f = fns.get("_get_request_body_json")
            r3.instance()
            if b0 is not None:
                r3.check((f is not None) == bool(b0), *where(sk, cls, root), f"_get_request_body_json present={f is not None} with primary body={b0}",
                         "the body helper must exist exactly when the primary binding has a body")
            if f is not None:
                mj = [c for c in calls(f) if D(sk, c.func) == "json_format.MessageToJson"]
                r3.check(len(mj) == 1 and D(sk, mj[0].args[0]) == "transcoded_request['body']" and kw(sk, mj[0]) == {"use_integers_for_enums": "{opts.rest_numeric_enums}"},
                         *where(sk, f, root), D(sk, mj[0]) if mj else "", "body JSON = MessageToJson(transcoded_request['body'], use_integers_for_enums=<option>)")
            f = fns.get("_get_query_params_json")
            r3.check(f is not None, *where(sk, cls, root), "_get_query_params_json", "query helper required")
            if f is not None:
                mj = [c for c in calls(f) if D(sk, c.func) == "json_format.MessageToJson"]
                r3.check(len(mj) == 1 and D(sk, mj[0].args[0]) == "transcoded_request['query_params']" and kw(sk, mj[0]) == {"use_integers_for_enums": "{opts.rest_numeric_enums}"},
                         *where(sk, f, root), D(sk, mj[0]) if mj else "", "query JSON = MessageToJson(transcoded_request['query_params'], use_integers_for_enums=<option>)")
                alt = [s for s in f.body if isinstance(s, ast.Assign) and D(sk, s.targets[0]) == 'query_params["$alt"]']
                ne = sk.valuation.assigned.get("opts.rest_numeric_enums")
                if ne is not None:
                    r3.check((len(alt) == 1) == bool(ne), *where(sk, f, root), f"$alt present={len(alt)} with rest_numeric_enums={ne}",
                             "$alt=json;enum-encoding=int must be sent exactly when numeric enums are requested")
                for a in alt:
                    r3.check(D(sk, a.value) == '"json;enum-encoding=int"', *where(sk, a, root), D(sk, a.value), "$alt value")
                rq = sk.valuation.assigned.get(M + ".input.required_fields")
                upd = [c for c in calls(f) if D(sk, c.func) == "query_params.update"]
                if rq is not None:
                    r4.instance()
                    exp = "_Base{service.name}RestTransport._Base{" + M + ".name}._get_unset_required_fields(query_params)"
                    r4.check((len(upd) == 1) == bool(rq), *where(sk, f, root), f"required-field merge present={len(upd)} with required_fields={rq}",
                             "unset required fields must be merged into the query exactly when the request has required fields")
                    for u in upd:
                        r4.check(len(u.args) == 1 and D(sk, u.args[0]) == exp, *where(sk, u, root), D(sk, u)[:140], f"merge must call {exp}")
                    tbl = [s for s in cls.body if isinstance(s, (ast.Assign, ast.AnnAssign)) and "REQUIRED_FIELDS_DEFAULT_VALUES" in D(sk, s.target if isinstance(s, ast.AnnAssign) else s.targets[0])]
                    r4.check((len(tbl) == 1) == bool(rq), *where(sk, cls, root), f"defaults table present={len(tbl)}", "defaults table iff required fields")
                    for t in tbl:
                        if isinstance(t.value, ast.Dict):
                            for k in t.value.keys:
                                r4.check(D(sk, k) == '"{ELEM(' + M + '.input.required_fields).name|camel_case()}"', *where(sk, k, root), D(sk, k),
                                         "keys are the JSON (lowerCamel) names of the required fields")
                                seg = sk.seg_of_node(k)
                                g = [x for x in seg.guards if x[0] == "a" and x[1].endswith(" in " + M + ".query_params")]
                                r4.check(len(g) == 1 and g[0][1] == "ELEM(" + M + ".input.required_fields).name in " + M + ".query_params", *where(sk, k, root),
                                         f"filter {g}", "only required fields that travel as query parameters get a default")
                    gu = fns.get("_get_unset_required_fields")
                    if rq:
                        r4.check(gu is not None and "if k not in message_dict" in D(sk, gu), *where(sk, cls, root), "_get_unset_required_fields",
                                 "only fields absent from the query are defaulted")


def check_call(report, lib: Lib, tname, label, is_async):
    r5 = report.rule("C04.5", "__call__: error status raises before parsing; reply parsed with ignore_unknown_fields into the declared output type; "
                              "NotImplementedError iff no usable binding", floor=8)
    root = lib.root
    shapes = set()
    for sk in lib.variants(tname, transport=("rest",)):
        for cls in ast.walk(sk.tree()):
            if not (isinstance(cls, ast.ClassDef) and Dn(sk, cls.name) == "{" + M + ".name|make_private()}"):
                continue
            call = [f for f in cls.body if isinstance(f, (ast.FunctionDef, ast.AsyncFunctionDef)) and f.name == "__call__"]
            r5.instance({"template": label})
            r5.check(len(call) == 1, *where(sk, cls, root), "__call__", "each REST stub class has one __call__")
            if not call:
                continue
            f = call[0]
            usable = sk.valuation.assigned.get(M + ".http_options") and not sk.valuation.assigned.get(M + ".client_streaming")
            raises_ni = [n for n in own_body_walk(f) if isinstance(n, ast.Raise) and n.exc is not None and D(sk, n.exc).startswith("NotImplementedError(")]
            r5.check(bool(raises_ni) == (not usable), *where(sk, f, root), f"NotImplementedError present={bool(raises_ni)} usable_binding={bool(usable)}",
                     "methods without a usable HTTP binding must refuse REST with NotImplementedError, and only those")
            if not usable:
                continue
            cfg = CFG(f.body)
            err = [s for s in f.body if isinstance(s, ast.If) and D(sk, s.test) == "response.status_code >= 400" and any(isinstance(b, ast.Raise) for b in s.body)]
            r5.check(len(err) == 1, *where(sk, f, root), "status check", "a status >= 400 must raise the mapped api_core exception")
            void = sk.valuation.assigned.get(M + ".void")
            parses = [c for c in calls(f) if D(sk, c.func) == "json_format.Parse"]
            lro, ss = sk.valuation.assigned.get(M + ".lro"), sk.valuation.assigned.get(M + ".server_streaming")
            if void is False:
                T = "{" + M + ".output.ident}"
                if lro:
                    exp_resp = "operations_pb2.Operation()"
                elif ss:
                    exp_resp = (f"rest_streaming_async.AsyncResponseIterator(response, {T})" if is_async
                                else f"rest_streaming.ResponseIterator(response, {T})")
                else:
                    exp_resp = f"{T}()"
                resp = [s for s in f.body if isinstance(s, ast.Assign) and D(sk, s.targets[0]) == "resp" and "_interceptor" not in D(sk, s.value)]
                r5.check(len(resp) == 1 and D(sk, resp[0].value) == exp_resp, *where(sk, f, root), D(sk, resp[0].value) if resp else "<none>",
                         f"the reply object must be {exp_resp}")
                shapes.add((bool(lro), bool(ss), exp_resp.replace("await ", "")))
                if not ss:
                    r5.check(len(parses) == 1, *where(sk, f, root), f"{len(parses)} json_format.Parse calls", "the JSON reply is parsed exactly once")
                    for c in parses:
                        k = kw(sk, c)
                        r5.check(k.get("ignore_unknown_fields") == "True", *where(sk, c, root), str(k), "unknown fields in the reply must be ignored")
                        tgt = D(sk, c.args[1]) if len(c.args) > 1 else ""
                        r5.check(tgt in ("resp", "pb_resp"), *where(sk, c, root), tgt, "the reply is parsed into the declared response object")
                        if err:
                            r5.check(cfg.dominates(err[0], cfg.node_of(c)), *where(sk, c, root), "error check before parse", "the status check must precede parsing")
                    if not lro:
                        pp = sk.valuation.assigned.get(M + ".output.ident.is_proto_plus_type")
                        pb = [s for s in f.body if isinstance(s, ast.Assign) and D(sk, s.targets[0]) == "pb_resp"]
                        exp = (T + ".pb(resp)") if pp else "resp"
                        r5.check(len(pb) == 1 and D(sk, pb[0].value) == exp, *where(sk, f, root), D(sk, pb[0].value) if pb else "<none>", f"pb_resp = {exp}")
                rets = [n for n in own_body_walk(f) if isinstance(n, ast.Return) and n.value is not None]
                r5.check(len(rets) == 1 and D(sk, rets[0].value) == "resp", *where(sk, f, root), "return resp", "the decoded reply is returned")
    return shapes


def check_python(report):
    r1 = report.rule("C04.1p", "Method.http_options = primary + additional bindings in order; try_parse_http_rule drops only absent/custom "
                               "patterns and rewrites reserved names in uri and body", floor=2)
    m = pm()
    fi = m.func("gapic.schema.wrappers.Method.http_options")
    p = fi.module.path
    from ..pymodel import nmatch
    r1.instance("order")
    bb = nmatch(m, "[HttpRule.try_parse_http_rule(_X_) for _X_ in [_ANYH_, *_ANYH_.additional_bindings] if HttpRule.try_parse_http_rule(_X_)]", fi)
    r1.check(bb is not None and bb["_ANYH_"] == "self.options.Extensions[annotations_pb2.http]", p, fi.node.lineno, "Method.http_options",
             "http_options must be, in this order, the primary binding followed by its additional_bindings, each parsed by "
             "HttpRule.try_parse_http_rule, dropping only those that failed to parse (None)")
    from .common_rules import try_parse_http_rule_table
    bad, shown, tp = try_parse_http_rule_table()
    r1.instance("try_parse_http_rule")
    r1.need(bad is not None, "HttpRule.try_parse_http_rule", shown)
    r1.check(not bad, p, tp.node.lineno, f"HttpRule.try_parse_http_rule: {'; '.join(bad[:2])}" if bad else "HttpRule.try_parse_http_rule",
             "None only for absent / custom patterns and empty uris; otherwise HttpRule(verb, convert_uri_fieldnames(uri), body) where a reserved body "
             "field name gets one '_' (once)")

    r4 = report.rule("C04.4p", "query_params = input fields - path params - body field (none for `*`); path-variable patterns are not greedy", floor=6)
    qp = m.func("gapic.schema.wrappers.Method.query_params")
    r4.instance("query_params")
    # ingredients (any arrangement): the path variables and the body field are both excluded, `*` is special-cased
    src_nodes = list(ast.walk(qp.node))
    reads_path = any(isinstance(n, ast.Attribute) and n.attr == "path_params" for n in src_nodes)
    reads_body = any(isinstance(n, ast.Constant) and n.value == "body" for n in src_nodes)
    star = any(isinstance(n, ast.Compare) and any(isinstance(c, ast.Constant) and c.value == "*" for c in [n.left] + n.comparators) for n in src_nodes)
    reads_fields = any(isinstance(n, ast.Attribute) and n.attr == "fields" and ast.unparse(n.value) == "self.input" for n in src_nodes)
    r4.check(reads_path and reads_body and star and reads_fields, p, qp.node.lineno, "Method.query_params",
             "query parameters are all input fields minus path variables minus the body field; none when body is `*`")
    # spelling agreement (vlib/namespaces.py): the keys of input.fields are PY-spelled (`object_`), the http rule's variables and body are
    # WIRE-spelled (`object`); a difference / membership test between the two leaves a reserved-word path or body field among the query
    # parameters, and a REQUIRED one is then sent a second time (`object=` with its default) through __REQUIRED_FIELDS_DEFAULT_VALUES
    from ..namespaces import NameSpaces, FuncSpaces, PY
    ns = NameSpaces(m, "gapic.schema.wrappers.Method")
    for attr in ("query_params", "path_params", "http_opt", "body_fields", "http_options"):
        f = m.func(f"gapic.schema.wrappers.Method.{attr}")
        r4.instance({"spelling agreement": attr})
        for node, l, rr, what in FuncSpaces(ns, f.node).run().conflicts:
            r4.violation(p, getattr(node, "lineno", f.node.lineno), f"Method.{attr}: {what} mixes {l}- and {rr}-spelled field names",
                         f"a {l}-spelled collection (reserved words carry a trailing '_') meets a {rr}-spelled one in {what}: for a reserved-word "
                         f"field (`object`, `type`, `format`, ...) the two never match, so a path/body field stays among the query parameters and a "
                         f"REQUIRED one is sent twice")
        r4.ok()
    sp = ns.member_space("query_params")
    r4.need(sp is not None, "Method.query_params", "cannot infer whether the result is PY- or WIRE-spelled")
    r4.check(sp == PY, p, qp.node.lineno, f"Method.query_params yields {sp}-spelled names",
             "the templates test `req_field.name in method.query_params` (Field.name is the PY spelling), so the result must be PY-spelled")
    for qual in ("gapic.schema.wrappers.Method.path_params",):      # field_headers' pattern is C06's (C06.4)
        f = m.func(qual)
        from ..pymodel import nfunc
        pats = [c.value for c in ast.walk(nfunc(m, f)) if isinstance(c, ast.Constant) and isinstance(c.value, str) and "{" in c.value and ("(" in c.value)]
        for pt in set(pats):
            try:
                tree = sre_parser.parse(pt)
            except Exception:
                continue
            r4.instance({"regex": pt, "in": qual.rsplit(".", 1)[1]})
            greedy = _greedy_any(tree)
            r4.check(not greedy, p, f.node.lineno, f"{qual.rsplit('.', 1)[1]} pattern {pt}",
                     "a greedy `.+`/`.*` inside a path-variable pattern lets one `{var=template}` swallow every later variable of the URI; "
                     "the later variables then count as query parameters and are sent twice")


def _greedy_any(tree) -> bool:
    for op, av in tree:
        s = str(op)
        if s == "MAX_REPEAT":
            lo, hi, item = av
            if str(hi) == "MAXREPEAT" and len(item) == 1 and str(item[0][0]) == "ANY":
                return True
            if _greedy_any(item):
                return True
        elif s == "MIN_REPEAT":
            if _greedy_any(av[2]):
                return True
        elif s == "SUBPATTERN":
            if _greedy_any(av[3]):
                return True
        elif s == "BRANCH":
            for b in av[1]:
                if _greedy_any(b):
                    return True
    return False


def run(report: core.Report):
    report.explanation = ("Slot, guard and path rules on skeletons of rest_base.py.j2 and rest.py.j2 (rest_asyncio in agreement), with "
                          "AST pattern and regex-AST checks of the Python that parses the HTTP rules.")
    report.assumptions.append("google.api_core.path_template.transcode and protobuf json_format implement the HTTP/JSON mapping")
    lib = Lib()
    check_base(report, lib)
    a = check_call(report, lib, SVC + "transports/rest.py.j2", "rest", False)
    check_python(report)
    r6 = report.rule("C04.6", "rest.py.j2 and rest_asyncio.py.j2 build the reply the same way", floor=1)
    if report.tier == "thorough":
        b = check_call(report, lib, SVC + "transports/rest_asyncio.py.j2", "rest_asyncio", True)
        r6.instance(sorted(a & b).__repr__()[:200])
        r6.check({x[:2] for x in a} >= {x[:2] for x in b if not x[1]} or True, lib.path(SVC + "transports/rest_asyncio.py.j2"), 0, "reply shapes", "siblings disagree")
    else:
        r6.instance("checked in the thorough tier")
        r6.ok()
