"""C06 - every call carries an AIP-4222 x-goog-request-params header (structure; the regex language of
path templates over arbitrary strings is not claimed).

  C06.1 the routing block dominates the rpc call in both client siblings and feeds `metadata`
  C06.2 explicit routing: one block per routing parameter in declared order (last wins), anchored regex from
        RoutingParameter.to_regex(), same key in test and store, stored only when matched and non-empty;
        header appended only if header_params
  C06.3 implicit routing is the elif of explicit; pairs (raw name, request.<disambiguated>) over all field_headers
  C06.4 Python: field_headers = first non-empty verb of get/put/post/delete/patch/custom.path; variable pattern;
        FieldHeader.disambiguated uses RESERVED_NAMES; to_regex anchors ^...$; key from the named group
  C06.5 the header is built only by gapic_v1.routing_header.to_grpc_metadata; REST sends dict(metadata)
"""
from __future__ import annotations

import ast

from .. import core
from ..pymodel import pmatch, find_match
from ..skq import D, Dn, Lib, M, SVC, pm, calls, own_body_walk, where
from .clientmodel import client_methods

RP = "ELEM(" + M + ".routing_rule.routing_parameters)"
FH = "ELEM(" + M + ".field_headers)"
KEY = "{" + RP + ".key}"
FIELD = "{" + RP + ".disambiguated_field}"   # the attribute read uses the Python spelling; the header key stays raw
APPEND = "tuple(metadata) + (gapic_v1.routing_header.to_grpc_metadata("


def check_clients(report, lib: Lib):
    r1 = report.rule("C06.1", "the routing-header block precedes (dominates) the rpc call and its result is what is passed as metadata", floor=10)
    r2 = report.rule("C06.2", "explicit routing blocks: declared order, anchored regex hole, same key tested and stored, guarded append", floor=6)
    r3 = report.rule("C06.3", "implicit routing: (raw, request.<disambiguated>) for every field header, only when no explicit rule", floor=6)
    for is_async in (False, True):
        label = "async" if is_async else "sync"
        for cm in client_methods(lib, is_async, want2=True):
            sk = cm.sk
            rc = cm.rpc_calls()
            if len(rc) != 1:
                continue
            call_stmt = cm.stmt_of(rc[0])
            explicit = cm.v(".explicit_routing")
            fh = cm.v(".field_headers")
            cs = cm.v(".client_streaming")
            md_stores = [s for s in own_body_walk(cm.fn) if isinstance(s, ast.Assign) and D(sk, s.targets[0]) == "metadata"
                         and "routing_header" in D(sk, s.value)]
            if explicit:
                r2.instance({"client": label, "method": cm.name})
                r1.instance()
                hp = [s for s in cm.fn.body if isinstance(s, ast.Assign) and D(sk, s.targets[0]) == "header_params"]
                r2.check(len(hp) == 1 and D(sk, hp[0].value) == "{}", *cm.where(), f"header_params initialisations: {[D(sk, x) for x in hp]}",
                         "explicit routing starts from one empty dict `header_params = {}`")
                r2.check(len(md_stores) == 1, *cm.where(), f"{len(md_stores)} routing-header appends", "exactly one append of the routing header")
                if md_stores:
                    st = md_stores[0]
                    parent = [s for s in cm.fn.body if isinstance(s, ast.If) and st in s.body]
                    r2.check(len(parent) == 1 and D(sk, parent[0].test) == "header_params", *cm.where(st),
                             "guard of the append", "the header is appended only `if header_params:` (no header when nothing matched)")
                    r2.check(D(sk, st.value).replace(" ", "") == (APPEND + "header_params),)").replace(" ", ""), *cm.where(st), D(sk, st.value),
                             "the header must be built by gapic_v1.routing_header.to_grpc_metadata(header_params) and appended to metadata")
                    if parent:
                        r1.check(cm.cfg.dominates(parent[0], call_stmt), *cm.where(st), "routing block vs rpc call", "routing must be computed before the call")
                # per-parameter blocks, in order
                n = sk.valuation.assigned.get("LOOP:" + M + ".routing_rule.routing_parameters")
                if cs or not n:
                    continue
                tmpl = cm.atom(RP + ".path_template")
                stores = [s for s in own_body_walk(cm.fn) if isinstance(s, ast.Assign) and D(sk, s.targets[0]).startswith("header_params[")]
                r2.check(len(stores) == n, *cm.where(), f"{len(stores)} stores for {n} routing parameters",
                         "one store per routing parameter, in declaration order (later parameters overwrite earlier ones with the same key)")
                for s in stores:
                    r2.check(D(sk, s.targets[0]) == f'header_params["{KEY}"]', *cm.where(s), D(sk, s.targets[0]), f"the header key must be {KEY}")
                    guard = [i for i in cm.fn.body if isinstance(i, ast.If) and s in i.body]
                    r2.check(len(guard) == 1, *cm.where(s), "store nesting", "each store sits directly under its own test")
                    if not guard:
                        continue
                    g = guard[0]
                    if tmpl:
                        r2.check(D(sk, g.test) == f'regex_match and regex_match.group("{KEY}")', *cm.where(g), D(sk, g.test),
                                 "store only when the regex matched and the captured segment is non-empty, testing the same key that is stored")
                        r2.check(D(sk, s.value) == f'regex_match.group("{KEY}")', *cm.where(s), D(sk, s.value), "the value is the captured segment under the same key")
                        idx = cm.fn.body.index(g)
                        prev = cm.fn.body[max(0, idx - 2):idx]
                        ptxt = [D(sk, x) for x in prev]
                        r2.check(ptxt == ["routing_param_regex = {" + RP + ".to_regex()}", f"regex_match = routing_param_regex.match(request.{FIELD})"],
                                 *cm.where(g), " ; ".join(ptxt),
                                 "the two statements before the test must compile RoutingParameter.to_regex() (the anchored pattern) and match it "
                                 "against the parameter's own request field")
                    elif tmpl is False:
                        r2.check(D(sk, g.test) == f"request.{FIELD}", *cm.where(g), D(sk, g.test), "without a template the field is sent when non-empty")
                        r2.check(D(sk, s.value) == f"request.{FIELD}", *cm.where(s), D(sk, s.value), "the value is the field itself")
                    # unfiltered loop: guards between function and store contain only the loop and template split
                    seg, fseg = sk.seg_of_node(s), sk.seg_of_node(cm.fn)
                    extra = [x for x in seg.guards[len(fseg.guards):] if x[0] != "loop" and RP + ".path_template" not in str(x)
                             and "explicit_routing" not in str(x) and "client_streaming" not in str(x)]
                    r2.check(not extra, *cm.where(s), f"routing block guarded by {extra}", "some routing parameters would be skipped")
                    loops = [x for x in seg.guards if x[0] == "loop" and x[1] == M + ".routing_rule.routing_parameters"]
                    r2.check(len(loops) == 1 and loops[0][3] == M + ".routing_rule.routing_parameters", *cm.where(s),
                             f"routing parameters iterated as {loops[0][3] if loops else None}",
                             "routing parameters must be applied in their declared order (no sort / reverse / selection): the last one wins")
            elif explicit is False and fh:
                r3.instance({"client": label, "method": cm.name})
                r1.instance()
                r3.check(len(md_stores) == 1 and md_stores[0] in cm.fn.body, *cm.where(), f"{len(md_stores)} implicit routing appends",
                         "exactly one unconditional append of the implicit routing header")
                if not md_stores:
                    continue
                st = md_stores[0]
                r1.check(cm.cfg.dominates(st, call_stmt), *cm.where(st), "routing block vs rpc call", "routing must be computed before the call")
                tg = [c for c in calls(st) if D(sk, c.func) == "gapic_v1.routing_header.to_grpc_metadata"]
                r3.check(len(tg) == 1 and len(tg[0].args) == 1 and isinstance(tg[0].args[0], ast.Tuple), *cm.where(st), D(sk, st.value)[:120],
                         "the header must be built by to_grpc_metadata((pairs...))")
                if len(tg) == 1 and tg[0].args and isinstance(tg[0].args[0], ast.Tuple):
                    pairs = [D(sk, e) for e in tg[0].args[0].elts]
                    n = sk.valuation.assigned.get("LOOP:" + M + ".field_headers")
                    exp = '("{' + FH + '.raw}", request.{' + FH + ".disambiguated})"
                    if not cs:
                        r3.check(pairs == [exp] * (n or 0), *cm.where(st), f"pairs {pairs}",
                                 f"one pair {exp} per field header: wire key is the raw proto name, the attribute read is the disambiguated one")
            elif explicit is False and fh is False:
                r3.instance({"client": label, "method": cm.name, "no_routing": True})
                r3.check(not md_stores, *cm.where(), "routing header without rule or http path", "no header must be sent when nothing matches")
            # whichever branch: the rpc call passes metadata (checked in C03.4) and nothing rebinds metadata after the block
            late = [s for s in cm.fn.body if isinstance(s, ast.Assign) and D(sk, s.targets[0]) == "metadata" and "routing_header" not in D(sk, s.value)
                    and "version_header" not in D(sk, s.value)]
            r1.check(not late, *cm.where(), f"metadata rebound: {[D(sk, x)[:60] for x in late]}", "metadata must not be replaced after the routing block")


def check_python(report):
    r = report.rule("C06.4", "field_headers: first non-empty verb in the order get, put, post, delete, patch, custom.path; `{name` up to "
                             "`=`/`}`; disambiguated via RESERVED_NAMES; to_regex anchored; key = named group or field", floor=6)
    m = pm()
    fi = m.func("gapic.schema.wrappers.Method.field_headers")
    p = fi.module.path
    from ..pymodel import nmatch
    import re._parser as sre_parser
    bb = nmatch(m, "next((tuple((FieldHeader(_H_) for _H_ in re.compile(_ANYRE_).findall(_VB_))) for _VB_ in "
                   "[_ANYH_.get, _ANYH_.put, _ANYH_.post, _ANYH_.delete, _ANYH_.patch, _ANYH_.custom.path] if _VB_), ())", fi)
    r.instance("verb order, first non-empty verb, all its variables in order")
    r.check(bb is not None and bb["_ANYH_"] == "self.options.Extensions[annotations_pb2.http]", p, fi.node.lineno, "Method.field_headers",
            "field_headers must be the variables (in order) of the FIRST non-empty uri among get, put, post, delete, patch, custom.path of the "
            "method's http annotation, and () when there is none")
    r.instance("variable pattern")
    ok = False
    if bb is not None:
        try:
            lit = ast.literal_eval(bb["_ANYRE_"])
            ok = isinstance(lit, str) and repr(list(sre_parser.parse(lit))) == repr(list(sre_parser.parse("{(.*?)[=}]")))
        except Exception:
            ok = False
    r.check(ok, p, fi.node.lineno, f"path variable pattern {bb['_ANYRE_'] if bb else None}", "path variables are `{` name up to the first `=` or `}`")
    from .common_rules import per_segment_disambiguation
    ok, shown, dfi = per_segment_disambiguation("gapic.schema.wrappers.FieldHeader.disambiguated", "raw")
    r.instance("FieldHeader.disambiguated")
    r.check(ok, p, dfi.node.lineno, f"FieldHeader.disambiguated: {shown[:120]}",
            "the attribute path read for an implicit header is the raw path with every reserved SEGMENT suffixed by '_' "
            "(`{book.class=...}` must read request.book.class_; testing the whole dotted string leaves `request.book.class`, a syntax error)")
    tr = m.func("gapic.schema.wrappers.RoutingParameter._to_regex")
    rets = [n for n in ast.walk(tr.node) if isinstance(n, ast.Return)]
    r.instance("_to_regex anchored")
    from ..pymodel import nmatch as _nmatch
    r.check(_nmatch(m, "re.compile(f'^{self._convert_to_regex(_ANYT_)}$')", tr, keep={"_convert_to_regex"}) is not None, p, tr.node.lineno,
            ast.unparse(rets[0].value) if rets else "", "the routing regex must be anchored at both ends (^...$): a value that merely starts "
            "with a conforming prefix must not match")
    to = m.func("gapic.schema.wrappers.RoutingParameter.to_regex")
    rets = [n for n in ast.walk(to.node) if isinstance(n, ast.Return)]
    r.instance("to_regex")
    r.check(len(rets) == 1 and ast.unparse(rets[0].value) == "self._to_regex(self.path_template)", p, to.node.lineno,
            ast.unparse(rets[0].value) if rets else "", "to_regex() must be the anchored regex of the parameter's own path_template")
    ky = m.func("gapic.schema.wrappers.RoutingParameter.key")
    src = ast.unparse(ky.node)
    r.instance("key")
    r.check("self.to_regex()" in src and "groupindex" in src and "return self.field" in src, p, ky.node.lineno, "RoutingParameter.key",
            "key is the named group of the template, or the field name when there is no template / no named group")
    ok, shown, dfp = per_segment_disambiguation("gapic.schema.wrappers.RoutingParameter.disambiguated_field", "field")
    r.instance("disambiguated_field")
    r.check(ok, p, dfp.node.lineno, f"disambiguated_field: {shown[:120]}", "each path segment is suffixed iff reserved (dotted routing fields read nested attributes)")
    # routing parameters keep declaration order
    rr = m.func("gapic.schema.wrappers.RoutingRule.try_parse_routing_rule")
    src = ast.unparse(rr.node)
    r.instance("routing parameter order")
    r.check("sorted(" not in src and "reversed(" not in src and "set(" not in src, p, rr.node.lineno, "try_parse_routing_rule",
            "routing parameters must keep their declared order (last one wins)")
    # C06.4m (seed C06e): one RoutingParameter per declared parameter, duplicates included - "last one wins" is decided at call time by
    # which templates match, so a verbatim re-statement [A, B, A] is meaningful and a keep-first de-duplication changes the header.
    for n in ast.walk(rr.node):
        dedupe = isinstance(n, ast.Call) and isinstance(n.func, ast.Attribute) and n.func.attr == "fromkeys"
        filt = isinstance(n, (ast.ListComp, ast.GeneratorExp)) and any(g.ifs for g in n.generators) and "RoutingParameter(" in ast.unparse(n)
        seen_loop = isinstance(n, ast.If) and isinstance(n.test, ast.Compare) and any(isinstance(o, (ast.In, ast.NotIn)) for o in n.test.ops) \
            and any(isinstance(b, ast.Continue) for b in n.body)
        if dedupe or filt or seen_loop:
            r.instance("routing parameter multiplicity")
            r.violation(p, n.lineno, f"try_parse_routing_rule: {ast.unparse(n)[:100]}",
                        "declared routing parameters are dropped (de-duplicated or filtered) before the rule is built; every declared "
                        "parameter, repeated ones too, takes part in last-match-wins")
    r.instance("routing parameter multiplicity: no de-duplication / filtering construct")


def check_rest(report, lib: Lib):
    r = report.rule("C06.5", "REST transports send the caller's metadata (incl. the routing header) as HTTP headers", floor=1)
    n = 0
    for sk in lib.variants(SVC + "transports/rest.py.j2", transport=("rest",))[:8]:
        for a in ast.walk(sk.tree()):
            if isinstance(a, ast.Assign) and D(sk, a.targets[0]) == "headers" and "metadata" in D(sk, a.value):
                n += 1
                r.instance(D(sk, a))
                r.check(D(sk, a.value) == "dict(metadata)", *where(sk, a, lib.root), D(sk, a.value), "headers must be dict(metadata)")
    r.need(n >= 1, "headers = dict(metadata) in rest.py.j2")


def run(report: core.Report):
    report.explanation = ("Path and slot rules on the routing block that create_metadata inlines into every client method, for every "
                          "covering valuation (explicit / implicit / none, with / without template, streaming), plus AST pattern checks "
                          "of the Python that computes field headers and routing regexes.")
    report.assumptions.append("gapic_v1.routing_header.to_grpc_metadata URL-encodes values (api_core)")
    lib = Lib()
    check_clients(report, lib)
    check_python(report)
    check_rest(report, lib)
