"""Name-space typing of field-name strings (a two-point type system).

The generator spells a proto field name in two ways: the WIRE spelling (`object`, what the .proto, the http rule and JSON use) and
the PY spelling (`object_`: one trailing underscore for the ~70 reserved words; what `Field.name`, the keys of `MessageType.fields`
and every Python identifier in the emitted library use).  The two agree for ordinary names, so mixing them passes every test that
does not use a reserved word.  This module infers, for every expression of a function that denotes a name or a collection of
names, which spelling it carries, and reports the places where the two meet in one comparison, membership test or set operation.

Sources (confirmed by reading gapic/schema/wrappers.py, listed here, one reason each):
  PY    keys of `<message>.fields`, `<field>.name`, `HttpRule.uri` / `.body` (rewritten by convert_uri_fieldnames / try_parse_http_rule),
        `Method.http_options[*]`, `FieldHeader.disambiguated`
  WIRE  `<field>.field_pb.name`, `Method.http_opt[...]` (the raw annotation), `FieldHeader.raw`, `RoutingParameter.field`,
        `<x>.options.Extensions[...]` contents
  conversion WIRE->PY  `x + '_' if x in RESERVED_NAMES else x` (also as an f-string)

Properties of the same class are typed through their own return expressions (memoised, cycle -> unknown).
"""
from __future__ import annotations

import ast
from typing import Dict, List, Optional, Tuple

PY, WIRE = "PY", "WIRE"

WRAP = {"set", "frozenset", "list", "tuple", "sorted", "iter", "reversed"}


class NameSpaces:
    def __init__(self, pm, cls_qual: str):
        self.pm = pm
        self.cls_qual = cls_qual
        self.memo: Dict[str, Optional[str]] = {}
        self.active = set()

    # -- members of the class --------------------------------------------------------------------------------------------
    def member_space(self, attr: str) -> Optional[str]:
        q = f"{self.cls_qual}.{attr}"
        if q in self.memo:
            return self.memo[q]
        if q in self.active or q not in self.pm.functions:
            return None
        self.active.add(q)
        try:
            fi = self.pm.functions[q]
            a = FuncSpaces(self, fi.node)
            a.run()
            rets = [a.space(r.value) for r in ast.walk(fi.node) if isinstance(r, ast.Return) and r.value is not None]
            known = {s for s in rets if s}
            self.memo[q] = known.pop() if len(known) == 1 else None
        finally:
            self.active.discard(q)
        return self.memo[q]


class FuncSpaces:
    """flow-insensitive inference over one function body; `conflicts` lists (node, left space, right space, what)"""

    def __init__(self, ns: NameSpaces, fn: ast.AST):
        self.ns = ns
        self.fn = fn
        self.env: Dict[str, Optional[str]] = {}
        self.field_vars = set()      # locals that denote a Field wrapper (bound by iterating <message>.fields.values()/items(), required_fields)
        self.conflicts: List[Tuple[ast.AST, str, str, str]] = []

    # -- expression typing ---------------------------------------------------------------------------------------------------
    def is_fields_map(self, e) -> bool:
        return isinstance(e, ast.Attribute) and e.attr == "fields"

    def is_field_seq(self, e) -> bool:
        """iterating e yields Field wrappers"""
        if isinstance(e, ast.Call) and isinstance(e.func, ast.Attribute) and e.func.attr == "values" and self.is_fields_map(e.func.value):
            return True
        return isinstance(e, ast.Attribute) and e.attr in ("required_fields", "oneof_fields_list")

    def space(self, e) -> Optional[str]:
        if e is None:
            return None
        if isinstance(e, ast.Name):
            return self.env.get(e.id)
        if isinstance(e, ast.Constant):
            return None
        if isinstance(e, ast.Attribute):
            src = ast.unparse(e)
            if e.attr == "name" and isinstance(e.value, ast.Attribute) and e.value.attr == "field_pb":
                return WIRE
            if e.attr == "name" and isinstance(e.value, ast.Name) and e.value.id in self.field_vars:
                return PY
            if self.is_fields_map(e):
                return PY
            if e.attr in ("uri", "body") and not src.startswith("self.http_opt"):
                return PY if self._rule_like(e.value) else None
            if e.attr == "raw":
                return WIRE
            if e.attr == "disambiguated":
                return PY
            if isinstance(e.value, ast.Name) and e.value.id == "self":
                if e.attr == "http_opt":
                    return WIRE
                if e.attr == "http_options":
                    return PY
                return self.ns.member_space(e.attr)
            return None
        if isinstance(e, ast.Subscript):
            return self.space(e.value)
        if isinstance(e, ast.Call):
            f = e.func
            if isinstance(f, ast.Name) and f.id in WRAP and len(e.args) >= 1:
                return self.space(e.args[0])
            if isinstance(f, ast.Attribute):
                if f.attr in ("get", "keys", "copy", "union", "intersection", "difference", "pop") and not (f.attr == "get" and self.is_fields_map(f.value)):
                    if f.attr in ("union", "intersection", "difference"):
                        for a in e.args:
                            self._meet(e, self.space(f.value), self.space(a), f".{f.attr}()")
                    return self.space(f.value)
                if f.attr == "findall" and len(e.args) >= 2:
                    return self.space(e.args[1])
                if f.attr in ("strip", "lower", "split", "rstrip", "lstrip"):
                    return self.space(f.value)
            return None
        if isinstance(e, ast.BinOp):
            if isinstance(e.op, (ast.Sub, ast.BitOr, ast.BitAnd, ast.BitXor)):
                l, r = self.space(e.left), self.space(e.right)
                self._meet(e, l, r, f"set `{type(e.op).__name__}`")
                return l or r
            if isinstance(e.op, ast.Add):
                return None
            return None
        if isinstance(e, ast.IfExp):
            conv = self._conversion(e)
            if conv is not None:
                return conv
            l, r = self.space(e.body), self.space(e.orelse)
            return l if l == r else (l or r if not (l and r) else None)
        if isinstance(e, (ast.SetComp, ast.ListComp, ast.GeneratorExp)):
            self._bind_generators(e.generators)
            return self.space(e.elt)
        if isinstance(e, (ast.Set, ast.List, ast.Tuple)):
            sp = {self.space(x) for x in e.elts} - {None}
            return sp.pop() if len(sp) == 1 else None
        if isinstance(e, ast.BoolOp):
            sp = {self.space(x) for x in e.values} - {None}
            return sp.pop() if len(sp) == 1 else None
        if isinstance(e, ast.Starred):
            return self.space(e.value)
        return None

    def _rule_like(self, e) -> bool:
        s = ast.unparse(e)
        return "http_options" in s or "rule" in s.lower() or "binding" in s.lower()

    def _conversion(self, e: ast.IfExp) -> Optional[str]:
        """`x + '_' if x in RESERVED_NAMES else x` (or f'{x}_'): WIRE -> PY"""
        t = e.test
        if isinstance(t, ast.Compare) and len(t.ops) == 1 and isinstance(t.ops[0], ast.In) and ast.unparse(t.comparators[0]).endswith("RESERVED_NAMES"):
            x = ast.unparse(t.left)
            if ast.unparse(e.orelse) == x and x in ast.unparse(e.body) and "_" in ast.unparse(e.body):
                return PY
        return None

    def _meet(self, node, l, r, what):
        if l and r and l != r:
            self.conflicts.append((node, l, r, what))

    # -- bindings ------------------------------------------------------------------------------------------------------------
    def _bind_target(self, target, it):
        # for k, v in <fields>.items()
        if isinstance(it, ast.Call) and isinstance(it.func, ast.Attribute) and it.func.attr == "items" and isinstance(target, ast.Tuple) and len(target.elts) == 2:
            k, v = target.elts
            if isinstance(k, ast.Name):
                self.env[k.id] = self.space(it.func.value)
            if isinstance(v, ast.Name) and self.is_fields_map(it.func.value):
                self.field_vars.add(v.id)
            return
        if isinstance(target, ast.Name):
            if self.is_field_seq(it):
                self.field_vars.add(target.id)
                return
            self.env[target.id] = self.space(it)

    def _bind_generators(self, gens):
        for g in gens:
            self._bind_target(g.target, g.iter)

    def run(self):
        for _ in range(3):
            for n in ast.walk(self.fn):
                if isinstance(n, ast.Assign) and len(n.targets) == 1 and isinstance(n.targets[0], ast.Name):
                    s = self.space(n.value)
                    if s:
                        self.env[n.targets[0].id] = s
                elif isinstance(n, ast.AnnAssign) and n.value is not None and isinstance(n.target, ast.Name):
                    s = self.space(n.value)
                    if s:
                        self.env[n.target.id] = s
                elif isinstance(n, (ast.For, ast.AsyncFor)):
                    self._bind_target(n.target, n.iter)
                elif isinstance(n, ast.Call) and isinstance(n.func, ast.Attribute) and n.func.attr in ("add", "append") and len(n.args) == 1 \
                        and isinstance(n.func.value, ast.Name) and not self.env.get(n.func.value.id):
                    s = self.space(n.args[0])        # an accumulator takes the spelling of what is put into it
                    if s:
                        self.env[n.func.value.id] = s
                elif isinstance(n, (ast.SetComp, ast.ListComp, ast.GeneratorExp, ast.DictComp)):
                    self._bind_generators(n.generators)
        self.conflicts = []
        for n in ast.walk(self.fn):
            if isinstance(n, ast.Compare):
                left = n.left
                for op, c in zip(n.ops, n.comparators):
                    if isinstance(op, (ast.In, ast.NotIn, ast.Eq, ast.NotEq)):
                        self._meet(n, self.space(left), self.space(c), f"`{ast.unparse(n)[:80]}`")
                    left = c
            elif isinstance(n, ast.BinOp) or (isinstance(n, ast.Call) and isinstance(n.func, ast.Attribute) and n.func.attr in ("union", "intersection", "difference")):
                self.space(n)
            elif isinstance(n, ast.Call) and isinstance(n.func, ast.Attribute) and n.func.attr in ("add", "discard", "remove", "update", "difference_update", "append", "extend") and n.args:
                self._meet(n, self.space(n.func.value), self.space(n.args[0]), f"`{ast.unparse(n)[:80]}`")
        # de-duplicate (space() on nested nodes may record twice)
        seen, out = set(), []
        for c in self.conflicts:
            k = (getattr(c[0], "lineno", 0), getattr(c[0], "col_offset", 0), c[3])
            if k not in seen:
                seen.add(k)
                out.append(c)
        self.conflicts = out
        return self
