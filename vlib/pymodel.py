"""Engine P: model of the repository's Python sources built with `ast` only.

Nothing under gapic/ is ever imported or executed.
"""
from __future__ import annotations

import ast
import os
from typing import Any, Dict, List, Optional, Set, Tuple

from . import core


class Member:
    def __init__(self, name, kind, node, ann, owner):
        self.name, self.kind, self.node, self.ann, self.owner = name, kind, node, ann, owner

    def __repr__(self):
        return f"<{self.kind} {self.owner}.{self.name}: {ast.unparse(self.ann) if self.ann is not None else None}>"


class ClassInfo:
    def __init__(self, qual, name, module, node):
        self.qual, self.name, self.module, self.node = qual, name, module, node
        self.bases: List[str] = []
        self.members: Dict[str, Member] = {}
        self.is_dataclass = False
        self.frozen = False


class Module:
    def __init__(self, name, path, src, tree):
        self.name, self.path, self.src, self.tree = name, path, src, tree
        self.imports: Dict[str, str] = {}
        self.functions: Dict[str, ast.AST] = {}
        self.classes: Dict[str, ClassInfo] = {}
        self.assigns: Dict[str, ast.AST] = {}


class FuncInfo:
    def __init__(self, qual, node, module: Module, cls: Optional[ClassInfo]):
        self.qual, self.node, self.module, self.cls = qual, node, module, cls


PROP_DECOS = {"property", "cached_property", "utils.cached_property", "functools.cached_property"}


class PyModel:
    def __init__(self, root: str = None):
        self.root = root or core.GAPIC
        self.modules: Dict[str, Module] = {}
        self.classes: Dict[str, ClassInfo] = {}      # qual -> info
        self.by_name: Dict[str, List[ClassInfo]] = {}
        self.functions: Dict[str, FuncInfo] = {}
        self._load()

    # -- loading -------------------------------------------------------------
    def _load(self):
        base = os.path.dirname(self.root)
        for dp, dn, fn in os.walk(self.root):
            dn[:] = [d for d in dn if d not in ("templates", "ads-templates", "__pycache__")]
            for f in sorted(fn):
                if not f.endswith(".py") or f.endswith("_pb2.py"):
                    continue
                path = os.path.join(dp, f)
                rel = os.path.relpath(path, base)[:-3].replace(os.sep, ".")
                if rel.endswith(".__init__"):
                    rel = rel[: -len(".__init__")]
                with open(path, encoding="utf-8") as fh:
                    src = fh.read()
                tree = ast.parse(src, path)
                m = Module(rel, path, src, tree)
                self.modules[rel] = m
        for m in self.modules.values():
            self._scan(m)

    def _scan(self, m: Module):
        pkg = m.name if m.path.endswith("__init__.py") else m.name.rsplit(".", 1)[0]
        for n in m.tree.body:
            self._scan_stmt(m, pkg, n)

    def _scan_stmt(self, m: Module, pkg: str, n):
        if isinstance(n, ast.Import):
            for a in n.names:
                m.imports[a.asname or a.name.split(".")[0]] = a.name if a.asname else a.name.split(".")[0]
        elif isinstance(n, ast.ImportFrom):
            if n.level:
                parts = (m.name if m.path.endswith("__init__.py") else m.name.rsplit(".", 1)[0]).split(".")
                if n.level > 1:
                    parts = parts[: -(n.level - 1)]
                src = ".".join(parts + ([n.module] if n.module else []))
            else:
                src = n.module or ""
            for a in n.names:
                m.imports[a.asname or a.name] = src + "." + a.name
        elif isinstance(n, (ast.FunctionDef, ast.AsyncFunctionDef)):
            m.functions[n.name] = n
            self.functions[m.name + "." + n.name] = FuncInfo(m.name + "." + n.name, n, m, None)
        elif isinstance(n, ast.ClassDef):
            self._scan_class(m, n, m.name)
        elif isinstance(n, ast.Assign):
            for t in n.targets:
                if isinstance(t, ast.Name):
                    m.assigns[t.id] = n.value
        elif isinstance(n, ast.AnnAssign) and isinstance(n.target, ast.Name) and n.value is not None:
            m.assigns[n.target.id] = n.value
        elif isinstance(n, (ast.If, ast.Try)):
            for b in ast.iter_child_nodes(n):
                if isinstance(b, ast.stmt):
                    self._scan_stmt(m, pkg, b)

    def _scan_class(self, m: Module, n: ast.ClassDef, prefix: str):
        qual = prefix + "." + n.name
        ci = ClassInfo(qual, n.name, m, n)
        ci.bases = [ast.unparse(b) for b in n.bases]
        for d in n.decorator_list:
            s = ast.unparse(d)
            if "dataclass" in s:
                ci.is_dataclass = True
                ci.frozen = "frozen=True" in s
        for b in n.body:
            if isinstance(b, ast.AnnAssign) and isinstance(b.target, ast.Name):
                ci.members[b.target.id] = Member(b.target.id, "field", b, b.annotation, qual)
            elif isinstance(b, (ast.FunctionDef, ast.AsyncFunctionDef)):
                decs = [ast.unparse(d) for d in b.decorator_list]
                if any(d in PROP_DECOS or d.endswith("cached_property") for d in decs):
                    kind = "property"
                elif "classmethod" in decs:
                    kind = "classmethod"
                elif "staticmethod" in decs:
                    kind = "staticmethod"
                else:
                    kind = "method"
                if any(d.endswith(".setter") for d in decs):
                    continue
                ci.members[b.name] = Member(b.name, kind, b, b.returns, qual)
                self.functions[qual + "." + b.name] = FuncInfo(qual + "." + b.name, b, m, ci)
            elif isinstance(b, ast.Assign):
                for t in b.targets:
                    if isinstance(t, ast.Name):
                        ci.members[t.id] = Member(t.id, "const", b, None, qual)
            elif isinstance(b, ast.ClassDef):
                self._scan_class(m, b, qual)
        m.classes[n.name] = ci
        self.classes[qual] = ci
        self.by_name.setdefault(n.name, []).append(ci)

    # -- lookups -------------------------------------------------------------
    def module(self, name: str) -> Module:
        if name not in self.modules:
            raise core.AnalysisError("engine-P", name, "module not found")
        return self.modules[name]

    def cls(self, name: str) -> Optional[ClassInfo]:
        """by qualified name, or by short name when unique."""
        if name in self.classes:
            return self.classes[name]
        short = name.split(".")[-1]
        lst = self.by_name.get(short, [])
        if len(lst) == 1:
            return lst[0]
        if len(lst) > 1:
            # prefer schema classes
            for pref in ("gapic.schema.wrappers", "gapic.schema.api", "gapic.schema.metadata", "gapic.schema.naming"):
                for c in lst:
                    if c.module.name == pref:
                        return c
            return lst[0]
        return None

    def mro(self, ci: ClassInfo) -> List[ClassInfo]:
        out, seen, stack = [], set(), [ci]
        while stack:
            c = stack.pop(0)
            if c.qual in seen:
                continue
            seen.add(c.qual)
            out.append(c)
            for b in c.bases:
                bc = self.resolve_class(c.module, b)
                if bc is not None:
                    stack.append(bc)
        return out

    def resolve_class(self, m: Module, expr: str) -> Optional[ClassInfo]:
        expr = expr.strip("'\"")
        head = expr.split(".")[0]
        if expr in m.classes:
            return m.classes[expr]
        if head in m.imports:
            target = m.imports[head] + expr[len(head):]
            if target in self.classes:
                return self.classes[target]
            # `from gapic.schema import wrappers` then wrappers.Field
            if target.rsplit(".", 1)[0] in self.modules:
                mod = self.modules[target.rsplit(".", 1)[0]]
                nm = target.rsplit(".", 1)[1]
                if nm in mod.classes:
                    return mod.classes[nm]
                if nm in mod.imports and mod.imports[nm] in self.classes:
                    return self.classes[mod.imports[nm]]
        return self.cls(expr) if "." not in expr or expr.split(".")[-1] in self.by_name else None

    def member(self, ci: ClassInfo, attr: str) -> Optional[Member]:
        for c in self.mro(ci):
            if attr in c.members:
                return c.members[attr]
        return None

    def has_getattr(self, ci: ClassInfo) -> Optional[Member]:
        return self.member(ci, "__getattr__")

    def func(self, qual: str) -> FuncInfo:
        if qual not in self.functions:
            raise core.AnalysisError("engine-P", qual, "function not found in repository model")
        fi = self.functions[qual]
        _NODE2FI[id(fi.node)] = (self, fi)
        return fi

    def func_opt(self, qual: str) -> Optional[FuncInfo]:
        return self.functions.get(qual)

    def resolve_global(self, m: Module, name: str) -> Optional[Tuple[str, Any]]:
        """Resolve a module-level name to ('func'|'class'|'const'|'module'|'external', target)."""
        seen = set()
        mod = m
        while True:
            key = (mod.name, name)
            if key in seen:
                return None
            seen.add(key)
            if name in mod.functions:
                return ("func", self.functions[mod.name + "." + name])
            if name in mod.classes:
                return ("class", mod.classes[name])
            if name in mod.assigns:
                return ("const", (mod, mod.assigns[name]))
            if name in mod.imports:
                target = mod.imports[name]
                if target in self.modules:
                    return ("module", self.modules[target])
                if "." in target:
                    mn, nm = target.rsplit(".", 1)
                    if mn in self.modules:
                        mod, name = self.modules[mn], nm
                        continue
                return ("external", target)
            return None

    def literal(self, m: Module, node: ast.AST):
        """Evaluate a literal-ish expression (frozenset([...]), set/list/tuple/dict
        displays, string concatenation, names of other literals)."""
        if isinstance(node, ast.Constant):
            return node.value
        if isinstance(node, (ast.List, ast.Tuple, ast.Set)):
            vals = []
            for e in node.elts:
                if isinstance(e, ast.Starred):
                    vals.extend(self.literal(m, e.value))
                else:
                    vals.append(self.literal(m, e))
            return {ast.List: list, ast.Tuple: tuple, ast.Set: set}[type(node)](vals)
        if isinstance(node, ast.Dict):
            return {self.literal(m, k): self.literal(m, v) for k, v in zip(node.keys, node.values)}
        if isinstance(node, ast.Call) and isinstance(node.func, ast.Name) and node.func.id in ("frozenset", "set", "tuple", "list") and len(node.args) <= 1:
            inner = self.literal(m, node.args[0]) if node.args else []
            return {"frozenset": frozenset, "set": set, "tuple": tuple, "list": list}[node.func.id](inner)
        if isinstance(node, ast.Name):
            r = self.resolve_global(m, node.id)
            if r and r[0] == "const":
                return self.literal(r[1][0], r[1][1])
            raise ValueError("not literal: " + node.id)
        if isinstance(node, ast.BinOp) and isinstance(node.op, (ast.Add, ast.BitOr)):
            l, r = self.literal(m, node.left), self.literal(m, node.right)
            return l + r if isinstance(node.op, ast.Add) else l | r
        if isinstance(node, ast.Attribute):
            s = ast.unparse(node)
            if s == "keyword.kwlist":
                import keyword
                return list(keyword.kwlist)
            if s == "os.path.sep":
                return "/"
        if isinstance(node, ast.Call) and isinstance(node.func, ast.Name) and node.func.id == "dir" and len(node.args) == 1 \
                and isinstance(node.args[0], ast.Name) and node.args[0].id == "builtins":
            import builtins
            return dir(builtins)
        if isinstance(node, ast.Call) and isinstance(node.func, ast.Attribute) and node.func.attr == "chain":
            out = []
            for a in node.args:
                out.extend(self.literal(m, a))
            return out
        raise ValueError("not literal: " + ast.unparse(node)[:80])

    def const(self, modname: str, name: str):
        m = self.module(modname)
        if name not in m.assigns:
            raise core.AnalysisError("engine-P", f"{modname}.{name}", "constant not found")
        return self.literal(m, m.assigns[name])


# ---------------------------------------------------------------------------
# annotation parsing -> type terms
#   ('cls', ClassInfo) | ('map', K, V) | ('seq', T) | ('opt', T) | ('tuple', [T..])
#   ('prim', name) | ('any',) | ('union', [T..]) | ('pb', text)

SEQ_NAMES = {"Sequence", "List", "FrozenSet", "Set", "Iterable", "Iterator", "MutableSequence", "AbstractSet",
             "list", "set", "frozenset", "KeysView", "ValuesView", "Collection"}
MAP_NAMES = {"Mapping", "Dict", "MutableMapping", "DefaultDict", "OrderedDict", "dict"}
SET_NAMES = {"FrozenSet", "Set", "AbstractSet", "set", "frozenset"}
PRIMS = {"str", "int", "bool", "float", "bytes", "None"}


def parse_ann(pm: PyModel, m: Module, ann) -> tuple:
    if ann is None:
        return ("any",)
    if isinstance(ann, ast.Constant):
        if ann.value is None:
            return ("prim", "None")
        if isinstance(ann.value, str):
            try:
                return parse_ann(pm, m, ast.parse(ann.value, mode="eval").body)
            except SyntaxError:
                return ("any",)
        return ("any",)
    if isinstance(ann, ast.Name):
        if ann.id in PRIMS:
            return ("prim", ann.id)
        if ann.id == "Any":
            return ("any",)
        ci = pm.resolve_class(m, ann.id)
        if ci:
            return ("cls", ci)
        return ("ext", ann.id)
    if isinstance(ann, ast.Attribute):
        s = ast.unparse(ann)
        ci = pm.resolve_class(m, s)
        if ci:
            return ("cls", ci)
        return ("ext", s)
    if isinstance(ann, ast.Subscript):
        head = ast.unparse(ann.value).split(".")[-1]
        sl = ann.slice
        args = list(sl.elts) if isinstance(sl, ast.Tuple) else [sl]
        if head == "Optional":
            return ("opt", parse_ann(pm, m, args[0]))
        if head == "Union":
            return ("union", [parse_ann(pm, m, a) for a in args])
        if head in MAP_NAMES and len(args) == 2:
            return ("map", parse_ann(pm, m, args[0]), parse_ann(pm, m, args[1]))
        if head in SEQ_NAMES:
            t = ("seq", parse_ann(pm, m, args[0]))
            return t + (("set",) if head in SET_NAMES else ())
        if head in ("Tuple", "tuple"):
            if len(args) == 2 and isinstance(args[1], ast.Constant) and args[1].value is Ellipsis:
                return ("seq", parse_ann(pm, m, args[0]))
            return ("tuple", [parse_ann(pm, m, a) for a in args])
        if head in ("Type", "ClassVar", "Final"):
            return parse_ann(pm, m, args[0])
        return ("ext", ast.unparse(ann))
    if isinstance(ann, ast.BinOp) and isinstance(ann.op, ast.BitOr):
        return ("union", [parse_ann(pm, m, ann.left), parse_ann(pm, m, ann.right)])
    return ("any",)


def is_set_type(t) -> bool:
    return len(t) >= 3 and t[0] == "seq" and t[-1] == "set"


# ---------------------------------------------------------------------------
# helpers over function bodies


def calls_in(node) -> List[ast.Call]:
    return [n for n in ast.walk(node) if isinstance(n, ast.Call)]


def dotted(node) -> Optional[str]:
    if isinstance(node, ast.Name):
        return node.id
    if isinstance(node, ast.Attribute):
        b = dotted(node.value)
        return b + "." + node.attr if b else None
    return None


def strip_docstring(body):
    if body and isinstance(body[0], ast.Expr) and isinstance(body[0].value, ast.Constant) and isinstance(body[0].value.value, str):
        return body[1:]
    return body


def returns_of(fn) -> List[ast.Return]:
    out = []

    def visit(n):
        for c in ast.iter_child_nodes(n):
            if isinstance(c, (ast.FunctionDef, ast.AsyncFunctionDef, ast.Lambda, ast.ClassDef)):
                continue
            if isinstance(c, ast.Return):
                out.append(c)
            visit(c)
    visit(fn)
    return out


# ---------------------------------------------------------------------------
# definitional unfolding of string-building properties


def concat_parts(expr):
    """`a + b + ...` of string constants, self.<attr>, and
    ("lit" if self.<attr> else "lit") -> list of parts, else None."""
    if isinstance(expr, ast.BinOp) and isinstance(expr.op, ast.Add):
        l, r = concat_parts(expr.left), concat_parts(expr.right)
        if l is None or r is None:
            return None
        return l + r
    if isinstance(expr, ast.Constant) and isinstance(expr.value, str):
        return [("lit", expr.value)] if expr.value else []
    if isinstance(expr, ast.Attribute) and isinstance(expr.value, ast.Name) and expr.value.id == "self":
        return [("attr", expr.attr)]
    if isinstance(expr, ast.JoinedStr):
        out = []
        for v in expr.values:
            if isinstance(v, ast.Constant):
                out.append(("lit", v.value))
            elif isinstance(v, ast.FormattedValue) and v.conversion == -1 and v.format_spec is None:
                sub = concat_parts(v.value)
                if sub is None:
                    return None
                out += sub
            else:
                return None
        return out
    if isinstance(expr, ast.IfExp) and not (isinstance(expr.body, ast.Constant) and isinstance(expr.orelse, ast.Constant)):
        # f"Base{self.name}Client" if self.is_internal else f"{self.name}Client": two concatenations that differ in a leading literal
        t = expr.test
        neg = False
        if isinstance(t, ast.UnaryOp) and isinstance(t.op, ast.Not):
            t, neg = t.operand, True
        a, b = concat_parts(expr.body), concat_parts(expr.orelse)
        if a is not None and b is not None and isinstance(t, ast.Attribute) and isinstance(t.value, ast.Name) and t.value.id == "self":
            k = 0
            while k < min(len(a), len(b)) and a[len(a) - 1 - k] == b[len(b) - 1 - k]:
                k += 1
            pa, pb = a[:len(a) - k], b[:len(b) - k]
            if all(x[0] == "lit" for x in pa + pb) and len(pa) <= 1 and len(pb) <= 1:
                la, lb = (pa[0][1] if pa else ""), (pb[0][1] if pb else "")
                if neg:
                    la, lb = lb, la
                return [("cond", t.attr, la, lb)] + a[len(a) - k:]
        return None
    if isinstance(expr, ast.IfExp):
        t = expr.test
        neg = False
        if isinstance(t, ast.UnaryOp) and isinstance(t.op, ast.Not):
            t, neg = t.operand, True
        if isinstance(t, ast.Attribute) and isinstance(t.value, ast.Name) and t.value.id == "self" \
                and isinstance(expr.body, ast.Constant) and isinstance(expr.orelse, ast.Constant) \
                and isinstance(expr.body.value, str) and isinstance(expr.orelse.value, str):
            a, b = expr.body.value, expr.orelse.value
            if neg:
                a, b = b, a
            return [("cond", t.attr, a, b)]
    return None


def string_properties(pm: "PyModel"):
    """attr name -> parts, for properties whose whole body is `return <concat>`
    containing at least one self attribute and one literal; names defined with
    different bodies in several classes are dropped."""
    found = {}
    clash = set()
    for ci in pm.classes.values():
        for name, mem in ci.members.items():
            if mem.kind != "property":
                continue
            if name.startswith("_"):
                continue
            body = strip_docstring(mem.node.body)
            if len(body) == 1 and isinstance(body[0], ast.Return) and body[0].value is not None:
                parts = concat_parts(body[0].value)
            else:
                parts = None
            if parts is not None and any(p_[0] == "attr" and p_[1].startswith("_") for p_ in parts):
                parts = None          # built from a private helper property: look through it
            if parts is None:
                # not literally `return <concat>`: look at the normal form (helper properties, f-strings, if/else returns ...)
                fi_ = pm.functions.get(f"{ci.qual}.{name}")
                e = nreturn(pm, fi_) if fi_ is not None and len(list(ast.walk(mem.node))) < 120 else None
                parts = concat_parts(e) if e is not None else None
            if not parts or len(parts) < 2 or not any(p[0] == "attr" for p in parts):
                continue
            if name in found and found[name][0] != parts:
                clash.add(name)
            found.setdefault(name, (parts, ci.qual))
    # a name that is also a member (of any kind) of another class with a different meaning is unsafe
    for name in list(found):
        owners = [c.qual for c in pm.classes.values() if name in c.members]
        if len(owners) > 1 or name in clash:
            found.pop(name)
    return found


# ---------------------------------------------------------------------------
# call graph


class CallGraph:
    """Resolved call graph over repository functions.

    Resolution order for a call site: module-level name through imports; `self.x` / `cls.x`
    through the enclosing class and its bases; `<module alias>.f`; `<Class>.m`; annotated
    parameter / dataclass-field types; finally *by name* over all repository methods with
    that name (over-approximation, recorded as such).  Property reads `obj.attr` are edges too,
    because properties run code.
    """

    def __init__(self, pm: PyModel):
        self.pm = pm
        self.edges: Dict[str, Set[str]] = {}
        self.external: Dict[str, Set[str]] = {}     # qual -> dotted external callees / attribute reads
        self.sites = 0
        self.resolved = 0
        self.byname = 0
        self.unresolved = 0
        self.unresolved_samples: Dict[str, int] = {}
        self.methods_by_name: Dict[str, List[str]] = {}
        for q, fi in pm.functions.items():
            if fi.cls is not None:
                self.methods_by_name.setdefault(q.rsplit(".", 1)[1], []).append(q)
        for q, fi in pm.functions.items():
            self._scan(q, fi)

    def _add(self, a, b):
        self.edges.setdefault(a, set()).add(b)

    def _class_entry(self, ci: ClassInfo) -> List[str]:
        out = []
        for m in ("__init__", "__post_init__", "__new__"):
            mem = self.pm.member(ci, m)
            if mem is not None:
                out.append(mem.owner + "." + m)
        return out

    def _scan(self, q, fi: FuncInfo):
        pm = self.pm
        self.edges.setdefault(q, set())
        ext = self.external.setdefault(q, set())
        local_types: Dict[str, ClassInfo] = {}
        fn = fi.node
        for a in fn.args.args + fn.args.kwonlyargs:
            t = parse_ann(pm, fi.module, a.annotation)
            while t[0] == "opt":
                t = t[1]
            if t[0] == "cls":
                local_types[a.arg] = t[1]
        local_imports: Dict[str, str] = {}
        for n in ast.walk(fn):
            if isinstance(n, ast.Import):
                for a in n.names:
                    local_imports[a.asname or a.name.split(".")[0]] = a.name if a.asname else a.name.split(".")[0]
            elif isinstance(n, ast.ImportFrom) and not n.level:
                for a in n.names:
                    local_imports[a.asname or a.name] = (n.module or "") + "." + a.name
        self._local_imports = local_imports
        for n in ast.walk(fn):
            if isinstance(n, (ast.Call, ast.Attribute)) and local_imports:
                d0 = dotted(n.func if isinstance(n, ast.Call) else n)
                if d0 and d0.split(".")[0] in local_imports and d0.split(".")[0] not in fi.module.imports:
                    h = d0.split(".")[0]
                    ext.add(local_imports[h] + d0[len(h):])
            if isinstance(n, ast.Call):
                self.sites += 1
                f = n.func
                if isinstance(f, ast.Name):
                    r = pm.resolve_global(fi.module, f.id)
                    if r is None:
                        # nested function or builtin
                        ext.add(f.id)
                        self.resolved += 1
                    elif r[0] == "func":
                        self._add(q, r[1].qual)
                        self.resolved += 1
                    elif r[0] == "class":
                        for e in self._class_entry(r[1]):
                            self._add(q, e)
                        self.resolved += 1
                    elif r[0] == "external":
                        ext.add(r[1])
                        self.resolved += 1
                    else:
                        self.resolved += 1
                elif isinstance(f, ast.Attribute):
                    self._attr_call(q, fi, f, local_types, ext)
                else:
                    self.unresolved += 1
            elif isinstance(n, ast.Attribute) and isinstance(n.ctx, ast.Load):
                # property reads run code
                d = dotted(n)
                if d:
                    head = d.split(".")[0]
                    r = pm.resolve_global(fi.module, head) if head not in ("self", "cls") else None
                    if r and r[0] == "external":
                        ext.add(r[1] + d[len(head):])
                    elif r and r[0] == "module":
                        pass
                for tq in self._prop_targets(fi, n, local_types):
                    self._add(q, tq)

    def _prop_targets(self, fi, n: ast.Attribute, local_types):
        pm = self.pm
        out = []
        if isinstance(n.value, ast.Name) and n.value.id in ("self", "cls") and fi.cls is not None:
            mem = pm.member(fi.cls, n.attr)
            if mem is not None and mem.kind in ("property", "method", "classmethod", "staticmethod"):
                out.append(mem.owner + "." + n.attr)  # property read, or method value (e.g. loader=self._load_message)
            return out
        if isinstance(n.value, ast.Name) and n.value.id in local_types:
            mem = pm.member(local_types[n.value.id], n.attr)
            if mem is not None and mem.kind == "property":
                out.append(mem.owner + "." + n.attr)
            return out
        for tq in self.methods_by_name.get(n.attr, []):
            f2 = pm.functions[tq]
            mem = f2.cls.members.get(n.attr) if f2.cls else None
            if mem is not None and mem.kind == "property":
                out.append(tq)
        return out

    def _attr_call(self, q, fi, f: ast.Attribute, local_types, ext):
        pm = self.pm
        d = dotted(f)
        if isinstance(f.value, ast.Name):
            base = f.value.id
            if base in ("self", "cls") and fi.cls is not None:
                mem = pm.member(fi.cls, f.attr)
                if mem is not None:
                    self._add(q, mem.owner + "." + f.attr)
                    self.resolved += 1
                    return
            if base in local_types:
                mem = pm.member(local_types[base], f.attr)
                if mem is not None:
                    self._add(q, mem.owner + "." + f.attr)
                    self.resolved += 1
                    return
            r = pm.resolve_global(fi.module, base)
            if r is not None:
                if r[0] == "module":
                    mod = r[1]
                    r2 = pm.resolve_global(mod, f.attr)
                    if r2 and r2[0] == "func":
                        self._add(q, r2[1].qual)
                    elif r2 and r2[0] == "class":
                        for e in self._class_entry(r2[1]):
                            self._add(q, e)
                    elif r2 and r2[0] == "external":
                        ext.add(r2[1])
                    self.resolved += 1
                    return
                if r[0] == "class":
                    mem = pm.member(r[1], f.attr)
                    if mem is not None:
                        self._add(q, mem.owner + "." + f.attr)
                    self.resolved += 1
                    return
                if r[0] == "external":
                    ext.add(r[1] + "." + f.attr)
                    self.resolved += 1
                    return
        if d:
            head = d.split(".")[0]
            r = pm.resolve_global(fi.module, head) if head not in ("self", "cls") else None
            if r and r[0] == "external":
                ext.add(r[1] + d[len(head):])
                self.resolved += 1
                return
            if r and r[0] == "module":
                # pkg.mod.func
                parts = d.split(".")
                mod = r[1]
                ok = True
                for pth in parts[1:-1]:
                    r2 = pm.resolve_global(mod, pth)
                    if r2 and r2[0] == "module":
                        mod = r2[1]
                    elif r2 and r2[0] == "class":
                        mem = pm.member(r2[1], parts[-1])
                        if mem is not None:
                            self._add(q, mem.owner + "." + parts[-1])
                        self.resolved += 1
                        return
                    else:
                        ok = False
                        break
                if ok:
                    r3 = pm.resolve_global(mod, parts[-1])
                    if r3 and r3[0] == "func":
                        self._add(q, r3[1].qual)
                    elif r3 and r3[0] == "class":
                        for e in self._class_entry(r3[1]):
                            self._add(q, e)
                    self.resolved += 1
                    return
        # by name over repository methods
        cands = self.methods_by_name.get(f.attr, [])
        if cands:
            for c in cands:
                self._add(q, c)
            self.byname += 1
        else:
            self.unresolved += 1
            self.unresolved_samples.setdefault(f.attr, 0)
            self.unresolved_samples[f.attr] += 1

    def reachable(self, roots) -> Dict[str, Optional[str]]:
        """qual -> predecessor (for path printing)."""
        pred: Dict[str, Optional[str]] = {}
        stack = [(r, None) for r in roots]
        while stack:
            n, p = stack.pop()
            if n in pred:
                continue
            pred[n] = p
            for m in self.edges.get(n, ()):
                if m not in pred:
                    stack.append((m, n))
        return pred

    def path(self, pred, target) -> List[str]:
        out = []
        cur = target
        while cur is not None:
            out.append(cur)
            cur = pred.get(cur)
        return list(reversed(out))


# ---------------------------------------------------------------------------
# alpha-normalised source text (robust to renaming of parameters and locals)


class _Renamer(ast.NodeTransformer):
    def __init__(self, mapping):
        self.mapping = mapping

    def visit_Name(self, node):
        if node.id in self.mapping:
            return ast.copy_location(ast.Name(id=self.mapping[node.id], ctx=node.ctx), node)
        return node

    def visit_arg(self, node):
        if node.arg in self.mapping:
            node = ast.copy_location(ast.arg(arg=self.mapping[node.arg], annotation=node.annotation), node)
        return node


def local_names(fn) -> Dict[str, str]:
    """parameters (except self/cls) and locally bound names of fn, in order of first binding -> _p0.. / _v0.."""
    mapping: Dict[str, str] = {}
    a = fn.args
    i = 0
    for arg in a.posonlyargs + a.args + a.kwonlyargs + ([a.vararg] if a.vararg else []) + ([a.kwarg] if a.kwarg else []):
        if arg.arg in ("self", "cls"):
            continue
        mapping[arg.arg] = f"_p{i}"
        i += 1
    j = 0

    def bind(t):
        nonlocal j
        if isinstance(t, ast.Name):
            if t.id not in mapping:
                mapping[t.id] = f"_v{j}"
                j += 1
        elif isinstance(t, (ast.Tuple, ast.List)):
            for e in t.elts:
                bind(e)
        elif isinstance(t, ast.Starred):
            bind(t.value)

    nodes_ = sorted((n for n in ast.walk(fn) if hasattr(n, "lineno")), key=lambda n: (n.lineno, n.col_offset))
    for n in nodes_:
        if isinstance(n, ast.Assign):
            for t in n.targets:
                bind(t)
        elif isinstance(n, (ast.AnnAssign, ast.AugAssign)):
            bind(n.target)
        elif isinstance(n, (ast.For, ast.AsyncFor, ast.comprehension)):
            bind(n.target)
        elif isinstance(n, ast.NamedExpr):
            bind(n.target)
        elif isinstance(n, (ast.With, ast.AsyncWith)):
            for it in n.items:
                if it.optional_vars is not None:
                    bind(it.optional_vars)
    return mapping


class Alpha:
    """Alpha(fn).u(node) = unparse(node) with fn's parameters and locals renamed canonically;
    Alpha(fn).name(x) = canonical name of local x."""

    def __init__(self, fn):
        self.fn = fn
        self.mapping = local_names(fn)
        self._r = _Renamer(self.mapping)

    def u(self, node) -> str:
        import copy
        return ast.unparse(self._r.visit(copy.deepcopy(node)))

    def name(self, x: str) -> str:
        return self.mapping.get(x, x)

    def inv(self, canon: str):
        for k, v in self.mapping.items():
            if v == canon:
                return k
        return None


# ---------------------------------------------------------------------------
# pattern matching with metavariables (robust to renaming of locals)

import re as _re

_META = _re.compile(r"^_[A-Z][A-Z0-9]*_$")
_LOOSE = [False]


def pmatch(pattern: str, node, binds: Optional[Dict[str, str]] = None) -> Optional[Dict[str, str]]:
    """Match `node` against the expression `pattern`. Names of the form _X_ in the pattern are
    metavariables: each binds to one identifier (consistently); a metavariable named _ANY..._ matches
    any sub-expression. Pre-bound metavariables can be given in `binds`. Returns the bindings or None."""
    pat = ast.parse(pattern, mode="eval").body
    b = dict(binds or {})
    return b if _pm(pat, node, b) else None


def _pm(p, n, b) -> bool:
    if isinstance(p, ast.Name) and _META.match(p.id):
        if p.id.startswith("_ANY"):
            key = p.id
            src = ast.unparse(n) if isinstance(n, ast.AST) else repr(n)
            if key in b:
                return b[key] == src
            b[key] = src
            return True
        if not isinstance(n, ast.Name):
            # in the normal form locals are substituted away: a metavariable then binds the (consistent) expression text
            if not _LOOSE[0] or not isinstance(n, ast.expr):
                return False
            src = ast.unparse(n)
            if p.id in b:
                return b[p.id] == src
            b[p.id] = src
            return True
        if p.id in b:
            return b[p.id] == n.id
        b[p.id] = n.id
        return True
    if type(p) is not type(n):
        return False
    if isinstance(p, ast.Constant):
        return p.value == n.value and type(p.value) is type(n.value)
    for f in p._fields:
        if f in ("ctx", "type_comment", "kind"):
            continue
        pv, nv = getattr(p, f, None), getattr(n, f, None)
        if isinstance(pv, list):
            if not isinstance(nv, list) or len(pv) != len(nv):
                return False
            for x, y in zip(pv, nv):
                if isinstance(x, ast.AST):
                    if not _pm(x, y, b):
                        return False
                elif x != y:
                    return False
        elif isinstance(pv, ast.AST):
            if not isinstance(nv, ast.AST) or not _pm(pv, nv, b):
                return False
        else:
            if isinstance(p, ast.arg) and f == "arg" and isinstance(pv, str) and _META.match(pv):
                if pv in b and b[pv] != nv:
                    return False
                b[pv] = nv
                continue
            if pv != nv:
                return False
    return True


_NODE2FI: Dict[int, tuple] = {}


def find_match(pattern: str, root, binds=None):
    """first sub-node of root matching pattern -> (node, binds) or (None, None). When `root` is the definition of a repository function
    and the source as written does not match, the function's normal form (vlib/pynorm.py) is tried as well."""
    for n in ast.walk(root):
        if isinstance(n, ast.expr):
            r = pmatch(pattern, n, binds)
            if r is not None:
                return n, r
    hit = _NODE2FI.get(id(root))
    if hit is not None and hit[1].node is root:
        try:
            from .pynorm import normalizer, norm_expr, canon_globals
            pm_, fi_ = hit
            nf = normalizer(pm_).function(fi_, frozenset(pattern_idents(pattern)))
            pat = canon_globals(pm_, norm_expr(ast.parse(pattern, mode="eval").body))
            return find_match_ast(pat, nf, binds)
        except RecursionError:
            return None, None
    return None, None


# ---------------------------------------------------------------------------
# matching against the function as written, then against its normal form (vlib/pynorm.py)

def pattern_idents(pattern: str) -> set:
    """identifiers a pattern mentions literally (kept un-inlined when the normal form is built)"""
    out = set()
    for n in ast.walk(ast.parse(pattern, mode="eval")):
        if isinstance(n, ast.Name) and not _META.match(n.id):
            out.add(n.id)
        elif isinstance(n, ast.Attribute):
            out.add(n.attr)
    return out


def find_match_ast(pat, root, binds=None):
    _LOOSE[0] = True
    try:
        for n in ast.walk(root):
            if isinstance(n, ast.expr):
                b = dict(binds or {})
                if _pm(pat, n, b):
                    return n, b
    finally:
        _LOOSE[0] = False
    return None, None


def fmatch(pm: "PyModel", pattern: str, fi, binds=None, keep=()):
    """(node, binds, form): first match of `pattern` in the function as written (form 'source'), else in its normal form
    (form 'normal'; node positions then refer to the rewritten tree and only the function's own line should be reported)."""
    if isinstance(fi, str):
        fi = pm.func(fi)
    node, b = find_match(pattern, fi.node, binds)
    if node is not None:
        return node, b, "source"
    from .pynorm import normalizer, norm_expr
    from .pynorm import canon_globals
    nf = normalizer(pm).function(fi, frozenset(pattern_idents(pattern) | set(keep)))
    pat = canon_globals(pm, norm_expr(ast.parse(pattern, mode="eval").body))
    node, b = find_match_ast(pat, nf, binds)
    if node is not None:
        return node, b, "normal"
    return None, None, None


def nfunc(pm: "PyModel", fi, keep=()):
    """normal form of a function (see vlib/pynorm.py)"""
    if isinstance(fi, str):
        fi = pm.func(fi)
    from .pynorm import normalizer
    return normalizer(pm).function(fi, frozenset(keep))


def nreturn(pm: "PyModel", fi, keep=()):
    """the single returned expression of a function in normal form, or None when the normal form is not one `return`"""
    nf = nfunc(pm, fi, keep)
    from .pynorm import _single_return
    return _single_return(nf.body)


def nmatch(pm: "PyModel", pattern: str, fi, keep=()):
    """bindings when the WHOLE function is, in normal form, `return <pattern>`; else None"""
    if isinstance(fi, str):
        fi = pm.func(fi)
    from .pynorm import norm_expr
    e = nreturn(pm, fi, frozenset(pattern_idents(pattern) | set(keep)))
    if e is None:
        return None
    from .pynorm import canon_globals
    pat = canon_globals(pm, norm_expr(ast.parse(pattern, mode="eval").body))
    _LOOSE[0] = True
    try:
        b = {}
        return b if _pm(pat, e, b) else None
    finally:
        _LOOSE[0] = False


def ladder(expr):
    """flatten `a if t1 else (b if t2 else c)` into [(t1, a), (t2, b), (None, c)]"""
    out = []
    while isinstance(expr, ast.IfExp):
        out.append((expr.test, expr.body))
        expr = expr.orelse
    out.append((None, expr))
    return out


def _nnf(test, pol, out):
    """conjuncts of `test` (pol=True) or of `not test` (pol=False) as (source, polarity); `!=`, `not in`, `is not` are written positively.
    A fact that is not a conjunction (a true `or`, a false `and`) is ONE conjunct, written canonically (De Morgan applied) as
    OR(<literal>; <literal>; ...) with sorted members, each member a literal or AND(...)"""
    if isinstance(test, ast.IfExp):
        # a conditional with a constant boolean arm, read as a truth value: `True if a else x` == a or x, `x if a else False` == a and x ...
        t, b_, o_ = test.test, test.body, test.orelse

        def _cb(x, v):
            return isinstance(x, ast.Constant) and x.value is v
        neg = ast.UnaryOp(op=ast.Not(), operand=t)
        conv = (ast.BoolOp(op=ast.Or(), values=[t, o_]) if _cb(b_, True) else ast.BoolOp(op=ast.And(), values=[neg, o_]) if _cb(b_, False)
                else ast.BoolOp(op=ast.Or(), values=[neg, b_]) if _cb(o_, True) else ast.BoolOp(op=ast.And(), values=[t, b_]) if _cb(o_, False) else None)
        if conv is not None:
            return _nnf(conv, pol, out)
    if isinstance(test, ast.UnaryOp) and isinstance(test.op, ast.Not):
        return _nnf(test.operand, not pol, out)
    if isinstance(test, ast.BoolOp) and ((isinstance(test.op, ast.And) and pol) or (isinstance(test.op, ast.Or) and not pol)):
        for v in test.values:
            _nnf(v, pol, out)
        return out
    if isinstance(test, ast.BoolOp):
        members = []
        for v in test.values:
            lits = _nnf(v, pol, [])
            txt = [("" if p_ else "not ") + s_ for s_, p_ in lits]
            members.append(txt[0] if len(txt) == 1 else "AND(" + "; ".join(sorted(txt)) + ")")
        out.append(("OR(" + "; ".join(sorted(members)) + ")", True))
        return out
    if isinstance(test, ast.Compare) and len(test.ops) == 1:
        flip = {ast.NotEq: ast.Eq, ast.NotIn: ast.In, ast.IsNot: ast.Is}
        for neg, posop in flip.items():
            if isinstance(test.ops[0], neg):
                t2 = ast.Compare(left=test.left, ops=[posop()], comparators=test.comparators)
                out.append((ast.unparse(t2), not pol))
                return out
    out.append((ast.unparse(test), pol))
    return out


def lift_conditionals(expr, budget: int = 64):
    """f(a if c else b)  ->  f(a) if c else f(b): conditional expressions nested in call arguments, receivers, operands, subscripts and
    displays are lifted to the top (not out of and/or operands, comprehensions, lambdas or the test of another conditional)"""
    import copy

    def find(e, path):
        """path to the first liftable IfExp below e"""
        if isinstance(e, ast.IfExp):
            return path
        if isinstance(e, (ast.BoolOp, ast.Lambda, ast.ListComp, ast.SetComp, ast.GeneratorExp, ast.DictComp)):
            return None
        for f, v in ast.iter_fields(e):
            if isinstance(v, ast.expr):
                r = find(v, path + [(f, None)])
                if r is not None:
                    return r
            elif isinstance(v, list):
                for i, x in enumerate(v):
                    if isinstance(x, ast.keyword):
                        r = find(x.value, path + [(f, i), ("value", None)])
                        if r is not None:
                            return r
                    elif isinstance(x, ast.expr):
                        r = find(x, path + [(f, i)])
                        if r is not None:
                            return r
        return None

    def get(e, path):
        for f, i in path:
            e = getattr(e, f)
            if i is not None:
                e = e[i]
        return e

    def put(e, path, new):
        e = copy.deepcopy(e)
        cur = e
        for f, i in path[:-1]:
            cur = getattr(cur, f)
            if i is not None:
                cur = cur[i]
        f, i = path[-1]
        if i is None:
            setattr(cur, f, new)
        else:
            getattr(cur, f)[i] = new
        return e

    count = [0]

    def lift(e):
        if isinstance(e, ast.IfExp):
            return ast.IfExp(test=e.test, body=lift(e.body), orelse=lift(e.orelse))
        path = find(e, [])
        if not path:
            return e
        count[0] += 1
        if count[0] > budget:
            return e
        inner = get(e, path)
        return ast.IfExp(test=inner.test, body=lift(put(e, path, inner.body)), orelse=lift(put(e, path, inner.orelse)))
    return ast.fix_missing_locations(lift(expr))


def decision_leaves(expr):
    """[(frozenset of (condition source, polarity)), value expr)] for every leaf of a tree of conditional expressions"""
    out = []
    expr = lift_conditionals(expr)

    def walk(e, conds):
        if isinstance(e, ast.IfExp):
            walk(e.body, conds + _nnf(e.test, True, []))
            # the else-arm only knows that the test is false: a conjunction is false in more than one way, keep it as one negative fact
            neg = _nnf(e.test, False, [])
            walk(e.orelse, conds + neg)
        else:
            out.append((frozenset(conds), e))
    walk(expr, [])
    return out


def _or_values_to_ifexp(expr):
    """(a or b).m(...)  ->  (a if a else b).m(...): an `or` used as a VALUE (receiver of an attribute) picks its first truthy operand"""
    import copy

    class T(ast.NodeTransformer):
        def visit_Attribute(self, node):
            self.generic_visit(node)
            v = node.value
            if isinstance(v, ast.BoolOp) and isinstance(v.op, ast.Or):
                cur = v.values[-1]
                for x in reversed(v.values[:-1]):
                    cur = ast.IfExp(test=copy.deepcopy(x), body=x, orelse=cur)
                node.value = cur
            return node
    return ast.fix_missing_locations(T().visit(copy.deepcopy(expr)))


def _test_atoms(test, out):
    if isinstance(test, ast.UnaryOp) and isinstance(test.op, ast.Not):
        return _test_atoms(test.operand, out)
    if isinstance(test, ast.BoolOp):
        for v in test.values:
            _test_atoms(v, out)
        return out
    if isinstance(test, ast.IfExp):
        for v in (test.test, test.body, test.orelse):
            _test_atoms(v, out)
        return out
    lits = _nnf(test, True, [])
    out.add(lits[0][0])
    return out


def _eval_test(test, assign) -> bool:
    if isinstance(test, ast.UnaryOp) and isinstance(test.op, ast.Not):
        return not _eval_test(test.operand, assign)
    if isinstance(test, ast.BoolOp):
        vals = [_eval_test(v, assign) for v in test.values]
        return all(vals) if isinstance(test.op, ast.And) else any(vals)
    if isinstance(test, ast.IfExp):
        return _eval_test(test.body if _eval_test(test.test, assign) else test.orelse, assign)
    if isinstance(test, ast.Constant):
        return bool(test.value)
    src, pol = _nnf(test, True, [])[0]
    return assign[src] if pol else not assign[src]


def tables_equivalent(e1, e2, max_atoms: int = 12, leaf_equal=None):
    """Do two conditional-expression trees pick the same leaf (same source text) under every truth assignment of their atomic tests?
    Returns (True, None) or (False, counter-example) or (None, reason) when there are too many atoms."""
    import itertools
    t1, t2 = lift_conditionals(_or_values_to_ifexp(e1)), lift_conditionals(_or_values_to_ifexp(e2))
    atoms = set()

    def collect(e):
        if isinstance(e, ast.IfExp):
            _test_atoms(e.test, atoms)
            collect(e.body)
            collect(e.orelse)
    collect(t1)
    collect(t2)
    atoms = sorted(atoms)
    if len(atoms) > max_atoms:
        return None, f"{len(atoms)} atomic conditions"

    def leaf(e, assign):
        while isinstance(e, ast.IfExp):
            e = e.body if _eval_test(e.test, assign) else e.orelse
        return ast.unparse(e)
    for bits in itertools.product((False, True), repeat=len(atoms)):
        assign = dict(zip(atoms, bits))
        a, b = leaf(t1, assign), leaf(t2, assign)
        if a != b and not (leaf_equal is not None and leaf_equal(a, b, assign)):
            return False, {"when": {k: v for k, v in assign.items()}, "got": a[:120], "expected": b[:120]}
    return True, None
