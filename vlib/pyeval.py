"""Small abstract evaluator over Python expression ASTs (Engine P, DESIGN 2.1).

Evaluates *extracted* conditions of the repository on statically known
constants.  Three-valued: a sub-expression whose value is not determined by
the environment is UNKNOWN and propagates through and/or/not soundly.
It never executes repository code.
"""
from __future__ import annotations

import ast
from typing import Any, Callable, Dict


class _Unknown:
    def __repr__(self):
        return "UNKNOWN"

    def __bool__(self):
        raise TypeError("UNKNOWN has no truth value")


UNKNOWN = _Unknown()

SAFE_METHODS = {"startswith", "endswith", "lower", "upper", "split", "replace", "strip", "lstrip", "rstrip", "join",
                "format", "get", "keys", "values", "items", "count", "index", "find",
                "isdisjoint", "issubset", "issuperset", "union", "intersection", "difference"}


class Evaluator:
    def __init__(self, env: Dict[str, Any], funcs: Dict[str, Callable] = None, attr_hook=None):
        """env: name -> value; dotted names allowed as keys ('opts.transport').
        funcs: dotted callee name -> python callable taking evaluated args.
        attr_hook(dotted, node) -> value or UNKNOWN for attribute chains not in env."""
        self.env = env
        self.funcs = funcs or {}
        self.attr_hook = attr_hook

    def dotted(self, node):
        if isinstance(node, ast.Name):
            return node.id
        if isinstance(node, ast.Attribute):
            b = self.dotted(node.value)
            return None if b is None else b + "." + node.attr
        return None

    def ev(self, n):
        if isinstance(n, ast.Constant):
            return n.value
        if isinstance(n, (ast.Name, ast.Attribute)):
            d = self.dotted(n)
            if d is not None and d in self.env:
                return self.env[d]
            if isinstance(n, ast.Attribute):
                base = self.ev(n.value)
                if base is not UNKNOWN:
                    if isinstance(base, dict) and n.attr in base:
                        return base[n.attr]
                    if isinstance(base, (str, list, tuple, dict, set, frozenset)) and n.attr in SAFE_METHODS and hasattr(base, n.attr):
                        return getattr(base, n.attr)
                if self.attr_hook is not None:
                    return self.attr_hook(d if d is not None else ast.unparse(n), n)
            return UNKNOWN
        if isinstance(n, ast.BoolOp):
            # Python semantics (the deciding operand is the value) when every operand before it is known; three-valued truth otherwise
            is_and = isinstance(n.op, ast.And)
            unknown_seen = False
            last = UNKNOWN
            for sub in n.values:
                v = self.ev(sub)
                if v is UNKNOWN:
                    unknown_seen = True
                    continue
                last = v
                if bool(v) != is_and:          # falsy under `and`, truthy under `or`: decides
                    return v if not unknown_seen else (not is_and)
            return UNKNOWN if unknown_seen else last
        if isinstance(n, ast.UnaryOp) and isinstance(n.op, ast.Not):
            v = self.ev(n.operand)
            return UNKNOWN if v is UNKNOWN else (not v)
        if isinstance(n, ast.Compare):
            left = self.ev(n.left)
            result = True
            for op, c in zip(n.ops, n.comparators):
                right = self.ev(c)
                if left is UNKNOWN or right is UNKNOWN:
                    return UNKNOWN
                try:
                    if isinstance(op, ast.In):
                        r = left in right
                    elif isinstance(op, ast.NotIn):
                        r = left not in right
                    elif isinstance(op, ast.Eq):
                        r = left == right
                    elif isinstance(op, ast.NotEq):
                        r = left != right
                    elif isinstance(op, ast.Lt):
                        r = left < right
                    elif isinstance(op, ast.Gt):
                        r = left > right
                    elif isinstance(op, ast.LtE):
                        r = left <= right
                    elif isinstance(op, ast.GtE):
                        r = left >= right
                    elif isinstance(op, ast.Is):
                        r = left is right
                    elif isinstance(op, ast.IsNot):
                        r = left is not right
                    else:
                        return UNKNOWN
                except TypeError:
                    return UNKNOWN
                result = result and r
                left = right
            return result
        if isinstance(n, ast.BinOp):
            l, r = self.ev(n.left), self.ev(n.right)
            if l is UNKNOWN or r is UNKNOWN:
                return UNKNOWN
            try:
                if isinstance(n.op, ast.Add):
                    return l + r
                if isinstance(n.op, ast.Mod):
                    return l % r
                if isinstance(n.op, ast.Mult) and ((isinstance(l, (str, list, tuple)) and isinstance(r, int)) or (isinstance(r, (str, list, tuple)) and isinstance(l, int))
                                                   or (isinstance(l, (int, float)) and isinstance(r, (int, float)))):
                    return l * r
                if isinstance(l, (set, frozenset)) and isinstance(r, (set, frozenset)):
                    if isinstance(n.op, ast.BitAnd):
                        return l & r
                    if isinstance(n.op, ast.BitOr):
                        return l | r
                    if isinstance(n.op, ast.Sub):
                        return l - r
            except TypeError:
                return UNKNOWN
            return UNKNOWN
        if isinstance(n, (ast.List, ast.Tuple, ast.Set)):
            vals = [self.ev(e) for e in n.elts]
            if any(v is UNKNOWN for v in vals):
                return UNKNOWN
            return {ast.List: list, ast.Tuple: tuple, ast.Set: set}[type(n)](vals)
        if isinstance(n, ast.Subscript):
            b, i = self.ev(n.value), self.ev(n.slice) if not isinstance(n.slice, ast.Slice) else UNKNOWN
            if isinstance(n.slice, ast.Slice) and b is not UNKNOWN:
                lo = self.ev(n.slice.lower) if n.slice.lower else None
                hi = self.ev(n.slice.upper) if n.slice.upper else None
                if lo is UNKNOWN or hi is UNKNOWN:
                    return UNKNOWN
                return b[lo:hi]
            if b is UNKNOWN or i is UNKNOWN:
                d = self.dotted(n.value)
                if self.attr_hook is not None and d is not None:
                    return self.attr_hook(d + "[]", n)
                return UNKNOWN
            try:
                return b[i]
            except Exception:
                return UNKNOWN
        if isinstance(n, ast.Call):
            d = self.dotted(n.func)
            hook = getattr(self, "call_hook", None)
            if hook is not None:
                hv = hook(d, n)
                if hv is not None:
                    return hv
            args = [self.ev(a) for a in n.args]
            if d in self.funcs:
                return self.funcs[d](*args)
            if isinstance(n.func, ast.Name) and n.func.id in ("any", "all") and len(n.args) == 1 and isinstance(
                    n.args[0], (ast.GeneratorExp, ast.ListComp)):
                vals = self.comprehension(n.args[0])
                if vals is UNKNOWN:
                    return UNKNOWN
                known = [v for v in vals if v is not UNKNOWN]
                if n.func.id == "any":
                    if any(known):
                        return True
                    return UNKNOWN if len(known) != len(vals) else False
                if not all(known):
                    return False
                return UNKNOWN if len(known) != len(vals) else True
            if isinstance(n.func, ast.Name) and n.func.id in ("len", "str", "tuple", "list", "sorted", "set", "frozenset", "bool") and len(args) == 1:
                if args[0] is UNKNOWN:
                    return UNKNOWN
                try:
                    return {"len": len, "str": str, "tuple": tuple, "list": list, "sorted": sorted, "set": set, "frozenset": frozenset,
                            "bool": bool}[n.func.id](args[0])
                except TypeError:
                    return UNKNOWN
            if isinstance(n.func, ast.Attribute):
                f = self.ev(n.func)
                if callable(f) and all(a is not UNKNOWN for a in args):
                    try:
                        return f(*args)
                    except Exception:
                        return UNKNOWN
            return UNKNOWN
        if isinstance(n, ast.Dict):
            out = {}
            for k, v in zip(n.keys, n.values):
                if k is None:
                    inner = self.ev(v)
                    if inner is UNKNOWN or not isinstance(inner, dict):
                        return UNKNOWN
                    out.update(inner)
                    continue
                kk = self.ev(k)
                if kk is UNKNOWN:
                    return UNKNOWN
                try:
                    out[kk] = self.ev(v)
                except TypeError:
                    return UNKNOWN
            return out
        if isinstance(n, ast.DictComp):
            pairs = self.comprehension(n, elt=lambda: (self.ev(n.key), self.ev(n.value)))
            if pairs is UNKNOWN or any(p is UNKNOWN or p[0] is UNKNOWN for p in pairs):
                return UNKNOWN
            try:
                return dict(pairs)
            except TypeError:
                return UNKNOWN
        if isinstance(n, (ast.ListComp, ast.GeneratorExp)):
            vals = self.comprehension(n)
            return UNKNOWN if vals is UNKNOWN else list(vals)
        if isinstance(n, ast.SetComp):
            vals = self.comprehension(n)
            if vals is UNKNOWN or any(v is UNKNOWN for v in vals):
                return UNKNOWN
            try:
                return set(vals)
            except TypeError:
                return UNKNOWN
        if isinstance(n, ast.IfExp):
            t = self.ev(n.test)
            if t is UNKNOWN:
                return UNKNOWN
            return self.ev(n.body if t else n.orelse)
        if isinstance(n, ast.JoinedStr):
            out = ""
            for v in n.values:
                if isinstance(v, ast.Constant):
                    out += str(v.value)
                else:
                    x = self.ev(v.value)
                    if x is UNKNOWN:
                        return UNKNOWN
                    out += str(x)
            return out
        return UNKNOWN

    def comprehension(self, comp, elt=None):
        """values of a comprehension / generator expression (any number of generators, name or tuple targets) as a list;
        `elt` overrides the element evaluator (used for dict comprehensions).  UNKNOWN if an iterable is not determined."""
        elt = elt or (lambda: self.ev(comp.elt))
        out = []

        def bind(target, x):
            if isinstance(target, ast.Name):
                self.env[target.id] = x
                return True
            if isinstance(target, (ast.Tuple, ast.List)):
                if not isinstance(x, (tuple, list)) or len(x) != len(target.elts):
                    return False
                return all(bind(t, v) for t, v in zip(target.elts, x))
            return False

        def rec(i, ok):
            if i == len(comp.generators):
                out.append(elt() if ok is True else UNKNOWN)
                return True
            g = comp.generators[i]
            it = self.ev(g.iter)
            if it is UNKNOWN:
                return False
            try:
                items = list(it)
            except TypeError:
                return False
            for x in items:
                if not bind(g.target, x):
                    return False
                ok2 = ok
                for c in g.ifs:
                    cv = self.ev(c)
                    if cv is UNKNOWN:
                        ok2 = UNKNOWN
                    elif not cv:
                        ok2 = False
                        break
                if ok2 is False:
                    continue
                if not rec(i + 1, ok2):
                    return False
            return True
        saved = dict(self.env)
        try:
            good = rec(0, True)
        finally:
            self.env.clear()
            self.env.update(saved)
        return out if good else UNKNOWN
