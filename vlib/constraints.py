"""Atom constraints (DESIGN.md section 3.3).

Each row: (id, premise regex, premise value, conclusion template, conclusion value, reason).
Meaning: if an atom matching the premise regex has the premise value, then
the atom obtained by expanding the conclusion template with the regex groups
has the conclusion value (and the contrapositive).  The Python-side
justification of each row is re-checked by vlib.props.constraints_check
(Engine P) on every run of C01 so that a row cannot go stale silently.
"""
from __future__ import annotations

import re

M = r"(?P<m>ELEM\((?P<s>[\w.()]+?)\.methods\.values\(\)\))"

ROWS = [
    # -- aggregates over service.methods -------------------------------------
    ("K-lro", M + r"\.lro$", True, r"{s}.has_lro", True,
     "Service.has_lro = any(m.lro for m in methods.values())"),
    ("K-extlro", M + r"\.extended_lro$", True, r"{s}.has_extended_lro", True,
     "Service.has_extended_lro = any(m.extended_lro ...)"),
    ("K-lro-paged", M + r"\.lro$", True, r"{m}.paged_result_field", False,
     "paged_result_field needs a repeated field + next_page_token in output; Operation has neither"),
    ("K-lro-void", M + r"\.lro$", True, r"{m}.void", False,
     "lro requires output google.longrunning.Operation; void requires google.protobuf.Empty"),
    ("K-paged-void", M + r"\.paged_result_field$", True, r"{m}.void", False,
     "a paged response has fields; Empty has none"),
    ("K-paged-unary-c", M + r"\.paged_result_field$", True, r"{m}.client_streaming", False,
     "ASSUMPTION (domain): AIP-158 pagination is defined for unary methods; a streaming RPC shaped like a List method is out of scope"),
    ("K-paged-unary-s", M + r"\.paged_result_field$", True, r"{m}.server_streaming", False,
     "ASSUMPTION (domain): AIP-158 pagination is defined for unary methods"),
    ("K-paged-pagers", M + r"\.paged_result_field$", True, r"{s}.has_pagers", True,
     "Service.has_pagers = any(m.paged_result_field ...)"),
    ("K-sstream", M + r"\.server_streaming$", True, r"{s}.any_server_streaming", True,
     "Service.any_server_streaming = any(m.server_streaming ...)"),
    ("K-cstream", M + r"\.client_streaming$", True, r"{s}.any_client_streaming", True,
     "Service.any_client_streaming = any(m.client_streaming ...)"),
    ("K-depr", M + r"\.is_deprecated$", True, r"{s}.any_deprecated", True,
     "Service.any_deprecated = any(m.is_deprecated ...)"),
    ("K-extlro-any", M + r"\.extended_lro$", True, r"{s}.any_extended_operations_methods", True,
     "Service.any_extended_operations_methods = any(m.operation_service ...); extended_lro requires operation_service"),
    ("K-opsvc-any", M + r"\.operation_service$", True, r"{s}.any_extended_operations_methods", True,
     "Service.any_extended_operations_methods = any(m.operation_service for m in methods)"),
    ("K-extlro-unary", M + r"\.extended_lro$", True, r"{m}.client_streaming", False,
     "ASSUMPTION (domain): google.cloud.extended_operations annotations are defined for unary methods only"),
    # -- auto-populated fields (method settings) -------------------------------------
    ("K-autopop-any",
     r"api\.all_method_settings\.get\((?P<m>.+)\.meta\.address\.proto\)\.auto_populated_fields$", True,
     r"api.all_method_settings.values()|map(attribute='auto_populated_fields', default=[])|list()", True,
     "a settings entry exists for the method, so the list over all_method_settings.values() is non-empty"),
    ("K-autopop-notnone",
     r"api\.all_method_settings\.get\((?P<m>.+)\.meta\.address\.proto\)\.auto_populated_fields$", True,
     r"api.all_method_settings.get({m}.meta.address.proto) is none", False,
     "attribute of None cannot be a non-empty list"),
    ("K-autopop-unary-c",
     r"api\.all_method_settings\.get\((?P<m>.+)\.meta\.address\.proto\)\.auto_populated_fields$", True,
     r"{m}.client_streaming", False,
     "API.enforce_valid_method_settings rejects auto_populated_fields on client-streaming methods"),
    ("K-autopop-unary-s",
     r"api\.all_method_settings\.get\((?P<m>.+)\.meta\.address\.proto\)\.auto_populated_fields$", True,
     r"{m}.server_streaming", False,
     "API.enforce_valid_method_settings rejects auto_populated_fields on server-streaming methods"),
    # the same four rows for the subscript spelling of the lookup (`key in settings` + `settings[key]`)
    ("K-autopop-any",
     r"api\.all_method_settings\[(?P<m>.+)\.meta\.address\.proto\]\.auto_populated_fields$", True,
     r"api.all_method_settings.values()|map(attribute='auto_populated_fields', default=[])|list()", True,
     "a settings entry exists for the method, so the list over all_method_settings.values() is non-empty"),
    ("K-autopop-notnone",
     r"api\.all_method_settings\[(?P<m>.+)\.meta\.address\.proto\]\.auto_populated_fields$", True,
     r"{m}.meta.address.proto in api.all_method_settings", True,
     "the entry of an absent key cannot be a non-empty list"),
    ("K-autopop-unary-c",
     r"api\.all_method_settings\[(?P<m>.+)\.meta\.address\.proto\]\.auto_populated_fields$", True,
     r"{m}.client_streaming", False,
     "API.enforce_valid_method_settings rejects auto_populated_fields on client-streaming methods"),
    ("K-autopop-unary-s",
     r"api\.all_method_settings\[(?P<m>.+)\.meta\.address\.proto\]\.auto_populated_fields$", True,
     r"{m}.server_streaming", False,
     "API.enforce_valid_method_settings rejects auto_populated_fields on server-streaming methods"),
    # -- flattened fields ------------------------------------------------------
    ("K-map-samepkg",
     r"ELEM\((?P<m>.+)\.flattened_fields\.values\(\)\)\.map$", True,
     r"{m}.input.ident.package == {m}.ident.package", True,
     "Method._fields_mapping drops non-primitive fields of cross-package requests; a map field is a message field"),
    ("K-map-repeated", r"(?P<f>.+)\.map$", True, r"{f}.repeated", True,
     "Field.map is True only for repeated message fields whose message is a map entry"),
]

_COMPILED = [(rid, re.compile(p), pv, c, cv, why) for rid, p, pv, c, cv, why in ROWS]


class Constraints:
    """forward(a, v): atoms implied by deciding a=v;
    backward(a, assigned): value forced on a by the contrapositive."""

    def forward(self, atom: str, value):
        out = []
        if value is not True and value is not False:
            return out
        for rid, rx, pv, concl, cv, _ in _COMPILED:
            if value != pv:
                continue
            m = rx.match(atom)
            if m:
                out.append((concl.format(**m.groupdict()), cv))
        return out

    def backward(self, atom: str, assigned: dict):
        for rid, rx, pv, concl, cv, _ in _COMPILED:
            m = rx.match(atom)
            if m:
                c = concl.format(**m.groupdict())
                if c in assigned and assigned[c] != cv:
                    return (not pv)
                lc = "LOOP:" + c
                if lc in assigned and bool(assigned[lc]) != cv:
                    return (not pv)
        return None


CONSTRAINTS = Constraints()


def table():
    return [{"id": rid, "premise": p, "premise_value": pv, "conclusion": c, "conclusion_value": cv, "reason": why}
            for rid, p, pv, c, cv, why in ROWS]
