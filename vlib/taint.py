"""Engine F (Python side): order taint.

Abstract values:
  CLEAN  order is a function of insertion / input order
  SET    a set / frozenset object (iteration order depends on hash seed or id())
  U      an *ordered* carrier (list, tuple, dict, str, iterator) whose order was taken from a SET

SET values are fine as long as every consumer is order-insensitive or sorts;
U values are the violations: an order that leaked out of a set.

Intra-procedural, flow-insensitive per function, with context-insensitive function /
property summaries iterated to a fixpoint (DESIGN 2.4).
"""
from __future__ import annotations

import ast
from typing import Dict, List, Optional, Tuple

from .pymodel import PyModel, FuncInfo, parse_ann, is_set_type

CLEAN, SET, U = 0, 1, 2
NAMES = {CLEAN: "clean", SET: "set", U: "unordered-sequence"}

ORDER_INSENSITIVE_CALLS = {"len", "any", "all", "sum", "min", "max", "bool", "isinstance", "hasattr", "print", "id", "repr",
                           "os.path.commonprefix", "commonprefix", "set", "frozenset", "sorted", "collections.Counter", "Counter"}
SET_CTORS = {"set", "frozenset"}
# key functions known to be injective on the collections they sort (text of the key expression -> reason)
INJECTIVE_PY_KEYS: Dict[str, str] = {}
SEQ_CTORS = {"tuple", "list", "iter", "enumerate", "reversed", "dict", "OrderedDict", "collections.OrderedDict", "next",
             "chain", "itertools.chain", "itertools.chain.from_iterable", "chain.from_iterable", "zip", "map", "filter"}
SET_METHODS = {"union", "intersection", "difference", "symmetric_difference", "copy"}


def join(a, b):
    return max(a, b)


class Why:
    """provenance of a taint for diagnostics"""

    def __init__(self, text, line):
        self.text, self.line = text, line


class FuncTaint:
    def __init__(self, fi: FuncInfo):
        self.fi = fi
        self.ret = CLEAN
        self.why: Optional[Why] = None
        self.env: Dict[str, int] = {}
        self.leaks: List[Tuple[ast.AST, str]] = []   # U created inside the function (node, description)
        self.stores: List[Tuple[ast.AST, str]] = []  # U stored into an object
        # keyed selections made while iterating in set order: (node, key expression, "first wins"/"last wins")
        self.selections: List[Tuple[ast.AST, ast.AST, str]] = []


class TaintAnalysis:
    def __init__(self, pm: PyModel, modules_prefix=("gapic.",)):
        self.pm = pm
        self._cur_ft = None
        self.funcs: Dict[str, FuncTaint] = {}
        for q, fi in pm.functions.items():
            if q.startswith(modules_prefix):
                self.funcs[q] = FuncTaint(fi)
        # member name -> list of quals (for attribute resolution by name)
        self.by_member: Dict[str, List[str]] = {}
        for q, ft in self.funcs.items():
            if ft.fi.cls is not None:
                self.by_member.setdefault(q.rsplit(".", 1)[1], []).append(q)
        self.field_ann: Dict[str, int] = {}
        for ci in pm.classes.values():
            for name, mem in ci.members.items():
                if mem.kind == "field":
                    t = parse_ann(pm, ci.module, mem.ann)
                    if is_set_type(t) or (t[0] == "opt" and is_set_type(t[1])):
                        self.field_ann[name] = SET
        self.iterations = 0

    # -- fixpoint ------------------------------------------------------------
    def run(self):
        changed = True
        while changed and self.iterations < 20:
            changed = False
            self.iterations += 1
            for q, ft in self.funcs.items():
                old = ft.ret
                self.analyse(ft)
                if ft.ret != old:
                    changed = True
        return self

    # -- per function ----------------------------------------------------------
    def analyse(self, ft: FuncTaint):
        fn = ft.fi.node
        ft.leaks = []
        ft.stores = []
        ft.selections = []
        self._cur_ft = ft
        env: Dict[str, int] = {}
        # parameters annotated as sets
        for a in fn.args.args + fn.args.kwonlyargs:
            t = parse_ann(self.pm, ft.fi.module, a.annotation)
            if is_set_type(t) or (t[0] == "opt" and is_set_type(t[1])):
                env[a.arg] = SET
        ret = CLEAN
        why = None
        # annotation says it returns a set
        rt = parse_ann(self.pm, ft.fi.module, fn.returns)
        ann_set = is_set_type(rt) or (rt[0] == "opt" and is_set_type(rt[1]))
        for _ in range(4):  # local fixpoint for assignments
            before = dict(env)
            self._block(fn.body, env, ft)
            if env == before:
                break
        for n in self._own_nodes(fn):
            if isinstance(n, ast.Return) and n.value is not None:
                t = self.expr(n.value, env, ft)
                if t > ret:
                    ret, why = t, Why(ast.unparse(n.value)[:100], n.lineno)
            elif isinstance(n, (ast.Yield, ast.YieldFrom)):
                t = self._yield_taint(n, fn, env, ft)
                if t > ret:
                    ret, why = t, Why("yield inside iteration over a set", n.lineno)
        if ann_set and ret == CLEAN:
            ret = SET
        ft.ret, ft.why, ft.env = ret, why, env

    def _own_nodes(self, fn):
        """nodes of fn excluding nested function/class bodies"""
        stack = list(fn.body)
        while stack:
            n = stack.pop()
            yield n
            for c in ast.iter_child_nodes(n):
                if isinstance(c, (ast.FunctionDef, ast.AsyncFunctionDef, ast.ClassDef, ast.Lambda)):
                    continue
                stack.append(c)

    def _yield_taint(self, y, fn, env, ft):
        # a yield lexically inside `for x in <SET/U>` produces an unordered stream
        for n in self._own_nodes(fn):
            if isinstance(n, (ast.For, ast.AsyncFor)):
                if any(c is y for c in ast.walk(n)):
                    if self.expr(n.iter, env, ft) >= SET:
                        return U
        if isinstance(y, ast.YieldFrom):
            t = self.expr(y.value, env, ft)
            return U if t >= SET else CLEAN
        return CLEAN

    def _block(self, body, env, ft, loop_taint=CLEAN):
        for st in body:
            if isinstance(st, (ast.FunctionDef, ast.AsyncFunctionDef)):
                # nested helper: analyse as a local function summary
                sub = FuncTaint(FuncInfo(ft.fi.qual + ".<locals>." + st.name, st, ft.fi.module, ft.fi.cls))
                sub_env = dict(env)
                self._block(st.body, sub_env, sub)
                r = CLEAN
                for n in self._own_nodes(st):
                    if isinstance(n, ast.Return) and n.value is not None:
                        r = join(r, self.expr(n.value, sub_env, sub))
                    elif isinstance(n, (ast.Yield, ast.YieldFrom)):
                        r = join(r, self._yield_taint(n, st, sub_env, sub))
                env["<fn>" + st.name] = r
                continue
            if isinstance(st, ast.ClassDef):
                continue
            if isinstance(st, ast.Assign):
                t = self.expr(st.value, env, ft)
                for tg in st.targets:
                    self._assign(tg, t, env, loop_taint)
            elif isinstance(st, ast.AnnAssign) and st.value is not None:
                t = self.expr(st.value, env, ft)
                ann = parse_ann(self.pm, ft.fi.module, st.annotation)
                if is_set_type(ann) and t == CLEAN:
                    t = SET
                self._assign(st.target, t, env, loop_taint)
            elif isinstance(st, ast.AugAssign):
                t = join(self.expr(st.value, env, ft), self.expr(st.target, env, ft))
                if loop_taint >= SET and isinstance(st.op, ast.Add) and t < SET:
                    t = U  # += inside iteration over a set: concatenation order
                    if isinstance(st.target, ast.Name) and env.get(st.target.id, CLEAN) < U:
                        ft.leaks.append((st, "augmented assignment inside iteration over a set"))
                self._assign(st.target, t, env, loop_taint)
            elif isinstance(st, (ast.For, ast.AsyncFor)):
                it = self.expr(st.iter, env, ft)
                self._assign(st.target, CLEAN, env, CLEAN)
                self._block(st.body, env, ft, join(loop_taint, it))
                self._block(st.orelse, env, ft, loop_taint)
            elif isinstance(st, ast.While):
                self._block(st.body, env, ft, loop_taint)
                self._block(st.orelse, env, ft, loop_taint)
            elif isinstance(st, ast.If):
                self._block(st.body, env, ft, loop_taint)
                self._block(st.orelse, env, ft, loop_taint)
            elif isinstance(st, (ast.With, ast.AsyncWith)):
                self._block(st.body, env, ft, loop_taint)
            elif isinstance(st, ast.Try):
                self._block(st.body, env, ft, loop_taint)
                for h in st.handlers:
                    self._block(h.body, env, ft, loop_taint)
                self._block(st.orelse, env, ft, loop_taint)
                self._block(st.finalbody, env, ft, loop_taint)
            elif isinstance(st, ast.Expr):
                self._effect(st.value, env, ft, loop_taint)
            elif isinstance(st, ast.Return) and st.value is not None:
                self.expr(st.value, env, ft)

    def _assign(self, tg, t, env, loop_taint):
        if isinstance(tg, ast.Name):
            env[tg.id] = join(env.get(tg.id, CLEAN), t)
        elif isinstance(tg, (ast.Tuple, ast.List)):
            for e in tg.elts:
                self._assign(e, t, env, loop_taint)
        elif isinstance(tg, ast.Subscript):
            # d[k] = v inside iteration over a set: insertion order of d is unordered
            base = tg.value
            if isinstance(base, ast.Name):
                cur = env.get(base.id, CLEAN)
                if loop_taint >= SET and self._cur_ft is not None:
                    self._cur_ft.selections.append((tg, tg.slice, "last wins"))
                if loop_taint >= SET and cur != SET:
                    env[base.id] = U
                else:
                    env[base.id] = join(cur, CLEAN)
        elif isinstance(tg, ast.Starred):
            self._assign(tg.value, t, env, loop_taint)

    def _effect(self, e, env, ft, loop_taint):
        """expression statements: x.append(..)/x.extend(..)/x.add(..)/x.update(..)/x.sort()"""
        if isinstance(e, ast.Call) and isinstance(e.func, ast.Attribute) and isinstance(e.func.value, ast.Name):
            name, meth = e.func.value.id, e.func.attr
            cur = env.get(name, CLEAN)
            argt = CLEAN
            for a in e.args:
                argt = join(argt, self.expr(a, env, ft))
            if meth in ("append", "insert", "appendleft"):
                if loop_taint >= SET and cur != SET:
                    env[name] = U
                    ft.leaks.append((e, f"{name}.{meth}(...) inside iteration over a set"))
            elif meth in ("extend", "update", "setdefault"):
                if meth == "setdefault" and loop_taint >= SET and len(e.args) == 2 and not isinstance(e.args[1], (ast.List, ast.Dict, ast.Set, ast.Call)):
                    ft.selections.append((e, e.args[0], "first wins"))
                if cur == SET:
                    return
                if argt >= SET or loop_taint >= SET:
                    # dict.update / list.extend from a set, or inside a set iteration
                    env[name] = U
                    ft.leaks.append((e, f"{name}.{meth}(<unordered>)"))
            elif meth == "sort":
                env[name] = CLEAN if cur == U else cur
            elif meth == "add":
                pass
        else:
            self.expr(e, env, ft)

    # -- expressions ---------------------------------------------------------------
    def expr(self, e, env, ft) -> int:
        if e is None or isinstance(e, ast.Constant):
            return CLEAN
        if isinstance(e, ast.Name):
            return env.get(e.id, CLEAN)
        if isinstance(e, (ast.Set, ast.SetComp)):
            return SET
        if isinstance(e, (ast.List, ast.Tuple)):
            t = CLEAN
            for x in e.elts:
                if isinstance(x, ast.Starred):
                    s = self.expr(x.value, env, ft)
                    if s >= SET:
                        t = U
                        ft.leaks.append((e, "star-unpacking a set into a sequence"))
            return t
        if isinstance(e, ast.Dict):
            return CLEAN
        if isinstance(e, (ast.ListComp, ast.GeneratorExp, ast.DictComp)):
            t = CLEAN
            local = dict(env)
            for g in e.generators:
                it = self.expr(g.iter, local, ft)
                if it >= SET:
                    t = U
                    if isinstance(e, ast.DictComp) and not any(s[0] is e for s in ft.selections):
                        ft.selections.append((e, e.key, "last wins"))
                self._assign(g.target, CLEAN, local, CLEAN)
            return t
        if isinstance(e, ast.BinOp):
            l, r = self.expr(e.left, env, ft), self.expr(e.right, env, ft)
            if isinstance(e.op, (ast.BitOr, ast.BitAnd, ast.Sub, ast.BitXor)) and (l == SET or r == SET):
                return SET
            if isinstance(e.op, ast.Add):
                if l == SET or r == SET:
                    return SET
                return join(l, r)
            return join(l, r) if join(l, r) == U else CLEAN
        if isinstance(e, ast.BoolOp):
            t = CLEAN
            for v in e.values:
                t = join(t, self.expr(v, env, ft))
            return t
        if isinstance(e, ast.IfExp):
            return join(self.expr(e.body, env, ft), self.expr(e.orelse, env, ft))
        if isinstance(e, ast.Compare):
            return CLEAN
        if isinstance(e, ast.UnaryOp):
            return CLEAN
        if isinstance(e, ast.JoinedStr):
            t = CLEAN
            for v in e.values:
                if isinstance(v, ast.FormattedValue):
                    s = self.expr(v.value, env, ft)
                    if s >= SET:
                        t = U
            return t
        if isinstance(e, ast.Subscript):
            b = self.expr(e.value, env, ft)
            return U if b == U else CLEAN
        if isinstance(e, ast.Starred):
            return self.expr(e.value, env, ft)
        if isinstance(e, ast.Attribute):
            return self.attr(e, env, ft)
        if isinstance(e, ast.Call):
            return self.call(e, env, ft)
        if isinstance(e, ast.Lambda):
            return CLEAN
        if isinstance(e, ast.Await):
            return self.expr(e.value, env, ft)
        if isinstance(e, ast.NamedExpr):
            t = self.expr(e.value, env, ft)
            self._assign(e.target, t, env, CLEAN)
            return t
        return CLEAN

    def member_summary(self, name: str, owner_hint: Optional[str] = None) -> int:
        qs = self.by_member.get(name, [])
        if owner_hint:
            qs = [q for q in qs if q.startswith(owner_hint + ".")] or qs
        t = CLEAN
        for q in qs:
            ft = self.funcs[q]
            t = join(t, ft.ret)
        if name in self.field_ann:
            t = join(t, self.field_ann[name])
        return t

    def attr(self, e: ast.Attribute, env, ft) -> int:
        # self.x -> member of own class (property) ; obj.x -> by name
        if isinstance(e.value, ast.Name) and e.value.id in ("self", "cls") and ft.fi.cls is not None:
            mem = self.pm.member(ft.fi.cls, e.attr)
            if mem is not None and mem.kind == "property":
                q = mem.owner + "." + e.attr
                if q in self.funcs:
                    return self.funcs[q].ret
            if mem is not None and mem.kind == "field":
                t = parse_ann(self.pm, ft.fi.cls.module, mem.ann)
                return SET if (is_set_type(t) or (t[0] == "opt" and is_set_type(t[1]))) else CLEAN
            return CLEAN
        # generic: property by name (only properties; methods need a call)
        qs = [q for q in self.by_member.get(e.attr, []) if self._is_property(q)]
        t = CLEAN
        for q in qs:
            t = join(t, self.funcs[q].ret)
        if e.attr in self.field_ann and not qs:
            t = join(t, SET)
        base = self.expr(e.value, env, ft)
        return t

    def _is_property(self, q: str) -> bool:
        fi = self.funcs[q].fi
        if fi.cls is None:
            return False
        mem = fi.cls.members.get(q.rsplit(".", 1)[1])
        return mem is not None and mem.kind == "property"

    def call(self, e: ast.Call, env, ft) -> int:
        f = e.func
        fname = ast.unparse(f) if isinstance(f, (ast.Name, ast.Attribute)) else ""
        if fname == "sorted" and any(k.arg == "key" for k in e.keywords):
            # sorting with a key only sanitises a set-derived order if the key cannot tie
            n0 = len(ft.leaks)
            at = max([self.expr(a, env, ft) for a in e.args], default=CLEAN)
            del ft.leaks[n0:]
            key = [k.value for k in e.keywords if k.arg == "key"][0]
            if at >= SET and ast.unparse(key) not in INJECTIVE_PY_KEYS:
                ft.leaks.append((e, f"sorted(<set>, key={ast.unparse(key)[:40]}): elements with equal keys keep the set's order"))
                return U
            return CLEAN
        if fname in ORDER_INSENSITIVE_CALLS:
            # the consumer does not observe order: evaluate arguments without recording leaks
            n0 = len(ft.leaks)
            for a in e.args:
                self.expr(a, env, ft)
            del ft.leaks[n0:]
            return SET if fname in SET_CTORS else CLEAN
        args_t = [self.expr(a, env, ft) for a in e.args]
        kw_t = [(k.arg, self.expr(k.value, env, ft)) for k in e.keywords]
        amax = max(args_t, default=CLEAN)
        if fname in ("dataclasses.replace", "replace"):
            self._store_check(e, args_t[1:], kw_t, ft, "dataclasses.replace")
            return CLEAN
        if fname and (fname[0].isalpha() or fname[0] == "_") and fname.split(".")[-1][:1].isupper():
            rc = self.pm.resolve_class(ft.fi.module, fname)
            if rc is not None:
                self._store_check(e, args_t, kw_t, ft, fname)
                return CLEAN
        if fname in SET_CTORS:
            return SET
        if fname == "sorted":
            return CLEAN
        if fname in ORDER_INSENSITIVE_CALLS:
            return CLEAN
        if fname in SEQ_CTORS or fname.split(".")[-1] in ("chain", "from_iterable"):
            if amax >= SET:
                if fname == "next":
                    ft.leaks.append((e, "next(iter(<set>)) picks an arbitrary element"))
                else:
                    ft.leaks.append((e, f"{fname}(<set>) freezes an arbitrary order"))
                return U
            return CLEAN
        if isinstance(f, ast.Attribute):
            recv_t = self.expr(f.value, env, ft)
            if f.attr == "join" and amax >= SET:
                ft.leaks.append((e, "str.join over an unordered iterable"))
                return U
            if f.attr in SET_METHODS and recv_t == SET:
                return SET
            if f.attr in ("values", "keys", "items", "copy", "get") and recv_t == U:
                return U
            if f.attr in ("values", "keys", "items"):
                return CLEAN
            # method of own class / by name
            if isinstance(f.value, ast.Name) and f.value.id in ("self", "cls") and ft.fi.cls is not None:
                mem = self.pm.member(ft.fi.cls, f.attr)
                if mem is not None:
                    q = mem.owner + "." + f.attr
                    if q in self.funcs:
                        return self.funcs[q].ret
                return CLEAN
            qs = [q for q in self.by_member.get(f.attr, []) if not self._is_property(q)]
            t = CLEAN
            for q in qs:
                t = join(t, self.funcs[q].ret)
            return t
        if isinstance(f, ast.Name):
            if "<fn>" + f.id in env:
                return env["<fn>" + f.id]
            r = self.pm.resolve_global(ft.fi.module, f.id)
            if r and r[0] == "func" and r[1].qual in self.funcs:
                return self.funcs[r[1].qual].ret
            if r and r[0] == "class":
                return CLEAN
        return CLEAN

    def _store_check(self, e, args_t, kw_t, ft, what):
        for i, t in enumerate(args_t):
            if t == U:
                ft.stores.append((e, f"{what}(arg {i}): a sequence whose order came from a set is stored in an object"))
        for k, t in kw_t:
            if t == U:
                ft.stores.append((e, f"{what}({k}=...): a sequence/dict whose order came from a set is stored in an object"))
