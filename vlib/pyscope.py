"""Scope analysis of emitted-program skeletons: which global names are read
and whether something at module level binds them (flow-insensitive at module
level, because emitted `if`/`try` at module level are run-time choices)."""
from __future__ import annotations

import ast
import builtins
import re
from typing import List, Set, Tuple

BUILTINS = set(dir(builtins)) | {"__file__", "__name__", "__doc__", "__path__", "__spec__", "__package__",
                                 "__builtins__", "__class__", "__debug__"}
PURE_HOLE = re.compile(r"H\d+_")


def _targets(t, out):
    if isinstance(t, ast.Name):
        out.add(t.id)
    elif isinstance(t, (ast.Tuple, ast.List)):
        for e in t.elts:
            _targets(e, out)
    elif isinstance(t, ast.Starred):
        _targets(t.value, out)


def bound_in_block(body, out: Set[str], descend_compound=True):
    """Names bound by the statements of a block (not descending into
    function / class bodies)."""
    for st in body:
        if isinstance(st, (ast.FunctionDef, ast.AsyncFunctionDef, ast.ClassDef)):
            out.add(st.name)
        elif isinstance(st, ast.Import):
            for a in st.names:
                out.add(a.asname or a.name.split(".")[0])
        elif isinstance(st, ast.ImportFrom):
            for a in st.names:
                out.add(a.asname or a.name)
        elif isinstance(st, ast.Assign):
            for t in st.targets:
                _targets(t, out)
        elif isinstance(st, (ast.AnnAssign, ast.AugAssign)):
            _targets(st.target, out)
        elif isinstance(st, (ast.For, ast.AsyncFor)):
            _targets(st.target, out)
        elif isinstance(st, (ast.With, ast.AsyncWith)):
            for it in st.items:
                if it.optional_vars is not None:
                    _targets(it.optional_vars, out)
        elif isinstance(st, ast.Global):
            pass
        # walrus anywhere in the statement's own expressions
        for n in _own_exprs(st):
            for w in ast.walk(n):
                if isinstance(w, ast.NamedExpr):
                    _targets(w.target, out)
        if descend_compound:
            for f in ("body", "orelse", "finalbody"):
                b = getattr(st, f, None)
                if isinstance(b, list) and b and isinstance(b[0], ast.stmt) and not isinstance(
                        st, (ast.FunctionDef, ast.AsyncFunctionDef, ast.ClassDef)):
                    bound_in_block(b, out)
            for h in getattr(st, "handlers", []) or []:
                if h.name:
                    out.add(h.name)
                bound_in_block(h.body, out)
            for c in getattr(st, "cases", []) or []:
                for w in ast.walk(c.pattern):
                    if isinstance(w, (ast.MatchAs, ast.MatchStar)) and w.name:
                        out.add(w.name)
                    if isinstance(w, ast.MatchMapping) and w.rest:
                        out.add(w.rest)
                bound_in_block(c.body, out)


def _own_exprs(st):
    for f, v in ast.iter_fields(st):
        if f in ("body", "orelse", "finalbody", "handlers", "cases"):
            continue
        if isinstance(v, ast.AST):
            yield v
        elif isinstance(v, list):
            for x in v:
                if isinstance(x, ast.AST):
                    yield x


class ScopeChecker:
    def __init__(self, tree: ast.Module):
        self.tree = tree
        self.future_ann = any(
            isinstance(s, ast.ImportFrom) and s.module == "__future__" and any(a.name == "annotations" for a in s.names)
            for s in tree.body)
        self.module_bound: Set[str] = set()
        bound_in_block(tree.body, self.module_bound)
        self.star_imports = [s for s in ast.walk(tree) if isinstance(s, ast.ImportFrom) and any(a.name == "*" for a in s.names)]
        self.unbound: List[Tuple[str, ast.AST]] = []
        self.global_reads = 0
        self.global_read_nodes: List[Tuple[str, ast.AST]] = []

    def run(self):
        self._block(self.tree.body, [("module", self.module_bound)])
        return self.unbound

    # scopes: list of (kind, names)
    def _resolve(self, name, node, scopes):
        if PURE_HOLE.fullmatch(name):
            return
        # innermost first; class scopes are only visible when innermost
        for i in range(len(scopes) - 1, -1, -1):
            kind, names = scopes[i]
            if kind == "class" and i != len(scopes) - 1:
                continue
            if name in names:
                if kind == "module":
                    self.global_reads += 1
                    self.global_read_nodes.append((name, node))
                return
        self.global_reads += 1
        if name in BUILTINS:
            return
        self.global_read_nodes.append((name, node))
        if self.star_imports:
            return
        self.unbound.append((name, node))

    def _expr(self, e, scopes):
        if e is None:
            return
        if isinstance(e, ast.Name):
            if isinstance(e.ctx, ast.Load):
                self._resolve(e.id, e, scopes)
            return
        if isinstance(e, ast.Lambda):
            names = set(a.arg for a in e.args.args + e.args.kwonlyargs + e.args.posonlyargs)
            if e.args.vararg:
                names.add(e.args.vararg.arg)
            if e.args.kwarg:
                names.add(e.args.kwarg.arg)
            for d in e.args.defaults + [d for d in e.args.kw_defaults if d is not None]:
                self._expr(d, scopes)
            self._expr(e.body, scopes + [("function", names)])
            return
        if isinstance(e, (ast.ListComp, ast.SetComp, ast.GeneratorExp, ast.DictComp)):
            names: Set[str] = set()
            for g in e.generators:
                _targets(g.target, names)
            for w in ast.walk(e):
                if isinstance(w, ast.NamedExpr):
                    _targets(w.target, names)
            inner = scopes + [("function", names)]
            first = True
            for g in e.generators:
                self._expr(g.iter, scopes if first else inner)
                first = False
                for c in g.ifs:
                    self._expr(c, inner)
            if isinstance(e, ast.DictComp):
                self._expr(e.key, inner)
                self._expr(e.value, inner)
            else:
                self._expr(e.elt, inner)
            return
        for c in ast.iter_child_nodes(e):
            if isinstance(c, ast.expr) or isinstance(c, (ast.keyword, ast.comprehension, ast.arguments, ast.arg,
                                                         ast.FormattedValue, ast.JoinedStr, ast.Slice, ast.withitem)):
                self._expr(c, scopes)

    def _annotation(self, a, scopes, in_function):
        if a is None or self.future_ann or in_function:
            return
        self._expr(a, scopes)

    def _function(self, fn, scopes):
        in_fn = any(k == "function" for k, _ in scopes)
        for d in fn.decorator_list:
            self._expr(d, scopes)
        args = fn.args
        for d in args.defaults + [d for d in args.kw_defaults if d is not None]:
            self._expr(d, scopes)
        allargs = args.posonlyargs + args.args + args.kwonlyargs + ([args.vararg] if args.vararg else []) + (
            [args.kwarg] if args.kwarg else [])
        if not self.future_ann:
            for a in allargs:
                if a.annotation is not None:
                    self._expr(a.annotation, scopes)
            if fn.returns is not None:
                self._expr(fn.returns, scopes)
        names = set(a.arg for a in allargs)
        bound_in_block(fn.body, names)
        declared_global = set()
        for n in ast.walk(fn):
            if isinstance(n, ast.Global):
                declared_global.update(n.names)
        names -= declared_global
        self._block(fn.body, scopes + [("function", names)])

    def _block(self, body, scopes):
        in_fn = any(k == "function" for k, _ in scopes)
        for st in body:
            if isinstance(st, (ast.FunctionDef, ast.AsyncFunctionDef)):
                self._function(st, scopes)
                continue
            if isinstance(st, ast.ClassDef):
                for d in st.decorator_list:
                    self._expr(d, scopes)
                for b in st.bases:
                    self._expr(b, scopes)
                for k in st.keywords:
                    self._expr(k.value, scopes)
                names: Set[str] = set()
                bound_in_block(st.body, names)
                self._block(st.body, scopes + [("class", names)])
                continue
            if isinstance(st, ast.AnnAssign):
                self._annotation(st.annotation, scopes, in_fn)
                self._expr(st.value, scopes)
                if not isinstance(st.target, ast.Name):
                    self._expr(st.target, scopes)
                continue
            if isinstance(st, (ast.Import, ast.ImportFrom, ast.Global, ast.Nonlocal, ast.Pass, ast.Break, ast.Continue)):
                continue
            for e in _own_exprs(st):
                self._expr(e, scopes)
            if isinstance(st, ast.AugAssign) and isinstance(st.target, ast.Name):
                self._resolve(st.target.id, st.target, scopes)
            for f in ("body", "orelse", "finalbody"):
                b = getattr(st, f, None)
                if isinstance(b, list) and b and isinstance(b[0], ast.stmt):
                    self._block(b, scopes)
            for h in getattr(st, "handlers", []) or []:
                self._expr(h.type, scopes)
                self._block(h.body, scopes)
            for c in getattr(st, "cases", []) or []:
                self._expr(c.guard, scopes)
                self._block(c.body, scopes)


def unbound_globals(tree) -> Tuple[List[Tuple[str, ast.AST]], Set[str], int]:
    sc = ScopeChecker(tree)
    un = sc.run()
    return un, sc.module_bound, sc.global_reads


def module_bindings(tree) -> List[Tuple[str, ast.AST]]:
    """(name, binding statement) for every module-level binding, flow-insensitively (inside if/try/with too)"""
    out: List[Tuple[str, ast.AST]] = []

    def visit(body):
        for st in body:
            names: Set[str] = set()
            bound_in_block([st], names, descend_compound=False)
            for n in names:
                out.append((n, st))
            if isinstance(st, (ast.FunctionDef, ast.AsyncFunctionDef, ast.ClassDef)):
                continue
            for f in ("body", "orelse", "finalbody"):
                b = getattr(st, f, None)
                if isinstance(b, list) and b and isinstance(b[0], ast.stmt):
                    visit(b)
            for h in getattr(st, "handlers", []) or []:
                visit(h.body)
    visit(tree.body)
    return out


def dunder_all(tree) -> List[Tuple[str, ast.AST]]:
    out = []
    for st in tree.body:
        if isinstance(st, ast.Assign) and any(isinstance(t, ast.Name) and t.id == "__all__" for t in st.targets):
            if isinstance(st.value, (ast.Tuple, ast.List)):
                for e in st.value.elts:
                    if isinstance(e, ast.Constant) and isinstance(e.value, str):
                        out.append((e.value, e))
    return out
