"""Constant folding of module-level tables (Engine P extension).

A table such as ``gapic.schema.mixins.MIXINS_MAP`` may be written as a literal, as a comprehension over another module-level
literal, or derived from the descriptors of the *_pb2 modules it imports (third-party data shipped with the environment).
``fold`` evaluates the defining expression with ``vlib.pyeval.Evaluator`` on

  * other module-level assignments of the same module (folded recursively),
  * dict models of imported ``*_pb2`` modules (``pb2_model``: services, methods, message descriptors - library data only),
  * module-level helper functions of the same module, through their single-expression normal form (Engine N), and
  * constructor models supplied by the caller (e.g. ``wrappers.MixinMethod`` -> a plain dict).

Nothing of the repository is imported or executed; a construction that leaves the evaluator's domain folds to UNKNOWN and the
caller reports a vanished anchor (exit 2).
"""
from __future__ import annotations

import ast
import importlib
from typing import Any, Callable, Dict

from .pyeval import Evaluator, UNKNOWN

_PB2_CACHE: Dict[str, Any] = {}


def _msg_model(d) -> dict:
    return {"name": d.name, "full_name": d.full_name, "file": {"name": d.file.name, "package": d.file.package},
            "fields_by_name": {f.name: {"name": f.name} for f in d.fields}}


def pb2_model(modname: str):
    """dict model of an installed protobuf module: DESCRIPTOR.services_by_name / message classes with their DESCRIPTOR"""
    if modname in _PB2_CACHE:
        return _PB2_CACHE[modname]
    try:
        pb = importlib.import_module(modname)
        fd = pb.DESCRIPTOR
    except Exception:
        _PB2_CACHE[modname] = UNKNOWN
        return UNKNOWN
    services = {}
    for svc in fd.services_by_name.values():
        methods = [{"name": me.name, "full_name": me.full_name, "input_type": _msg_model(me.input_type), "output_type": _msg_model(me.output_type),
                    "client_streaming": me.client_streaming, "server_streaming": me.server_streaming} for me in svc.methods]
        services[svc.name] = {"name": svc.name, "full_name": svc.full_name, "methods": methods, "methods_by_name": {x["name"]: x for x in methods}}
    model = {"DESCRIPTOR": {"name": fd.name, "package": fd.package, "services_by_name": services,
                            "message_types_by_name": {n: _msg_model(d) for n, d in fd.message_types_by_name.items()}}}
    for n, d in fd.message_types_by_name.items():
        model[n] = {"DESCRIPTOR": _msg_model(d)}
    _PB2_CACHE[modname] = model
    return model


def fold(m, module_name: str, name: str, ctors: Dict[str, Callable] = None, depth: int = 0):
    """value of the module-level name `name` of `module_name`, or UNKNOWN"""
    from .pymodel import nreturn
    mod = m.module(module_name)
    ctors = ctors or {}
    folding = set()
    cache: Dict[str, Any] = {}

    def resolve(nm: str):
        if nm in cache:
            return cache[nm]
        if nm in folding:
            return UNKNOWN
        val = UNKNOWN
        if nm in mod.assigns:
            folding.add(nm)
            try:
                val = make().ev(mod.assigns[nm])
            finally:
                folding.discard(nm)
        elif nm in mod.imports and mod.imports[nm].split(".")[-1].endswith("_pb2"):
            val = pb2_model(mod.imports[nm])
        cache[nm] = val
        return val

    class _Env(dict):
        def __contains__(self, k):
            if dict.__contains__(self, k):
                return True
            if isinstance(k, str) and "." not in k and (k in mod.assigns or k in mod.imports):
                v = resolve(k)
                if v is not UNKNOWN:
                    dict.__setitem__(self, k, v)
                    return True
            return False

    def call_hook(ev: Evaluator, d: str, node: ast.Call):
        if d in ctors:
            args = [ev.ev(a) for a in node.args]
            kws = {k.arg: ev.ev(k.value) for k in node.keywords if k.arg}
            if any(a is UNKNOWN for a in args) or any(v is UNKNOWN for v in kws.values()):
                return UNKNOWN
            return ctors[d](*args, **kws)
        q = f"{module_name}.{d}"
        if d and "." not in d and q in m.functions:
            fi = m.functions[q]
            e = nreturn(m, fi)
            if e is None:
                return UNKNOWN
            params = [a.arg for a in fi.node.args.args]
            vals = [ev.ev(a) for a in node.args]
            if len(vals) > len(params) or node.keywords:
                return UNKNOWN
            sub = make()
            for p_, v in zip(params, vals):
                if v is UNKNOWN:
                    return UNKNOWN
                dict.__setitem__(sub.env, p_, v)
            return sub.ev(e)
        return None

    def make():
        ev = Evaluator(_Env())
        ev.call_hook = lambda d, node, _ev=ev: call_hook(_ev, d, node)
        return ev

    return resolve(name)
