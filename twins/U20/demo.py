#!/usr/bin/env python
"""Differential demo for the U20 refactoring (property C20: comment wrapping,
rst conversion, whitespace post-processing, comment selection).

Usage:  /venv/bin/python demo.py <path-to-a-checkout-with-the-change>

A pristine export of <checkout>'s HEAD is created with `git archive`; then the
generator is run on several API descriptions with the pristine tree and with
the working tree of <checkout> (which carries the uncommitted refactoring).
Every run happens in its own subprocess in which ONLY the tree under test can
provide the `gapic` package (the editable install of the venv is removed from
the import machinery, and this is asserted).  All output files are compared
byte for byte (names and contents).  On top of that the four refactored
functions (`wrap`, `rst`, `fix_whitespace`, `Metadata.doc`) are called directly
with a deterministic corpus in both trees and the results compared.

Exit 0 + one summary line when everything is identical; exit 1 and a list of
the differing files otherwise.
"""

import hashlib
import os
import pickle
import shutil
import subprocess
import sys
import tempfile

from google.api import annotations_pb2, client_pb2, field_behavior_pb2, resource_pb2
from google.longrunning import operations_pb2
from google.protobuf import descriptor_pb2 as dp
from google.protobuf import duration_pb2, empty_pb2, field_mask_pb2

F = dp.FieldDescriptorProto

# ---------------------------------------------------------------------------
# Comment corpus.  Each entry pokes at one thing that wrap()/rst() look at.
# ---------------------------------------------------------------------------
S72 = "Seventy-something columns of perfectly ordinary prose that has to be re-flowed by the filter"
COMMENTS = [
    " Tiny.\n",
    " " + S72 + " and more, " + S72 + ".\n " + S72 + ".\n",
    " The first line ends with a colon:\n and the text goes on right below it.\n",
    " " + S72 + " " + S72 + ":\n continuation after an over-long colon line.\n\n Next paragraph.\n",
    " Choose one of:\n - alpha " + S72 + " " + S72 + "\n - beta\n + gamma\n 1. one " + S72 + " " + S72
    + "\n 10. ten\n",
    " " + S72 + " " + S72 + "\n - a list straight after a long first line\n - and its sibling\n",
    " " + S72 + " " + S72 + "\n 3. numbered list straight after a long first line\n",
    " " + S72 + " " + S72 + "\n second line that is joined to the first one.\n third.\n",
    " Markdown *here*, `there`, snake_case, [a link](https://example.org/a-b) | and a pipe.\n " + S72 + "\n",
    ' Plain text with """ inside\n and a second line.\n',
    ' The value is "quoted"\n',
    ' Multi-line that ends in a quote:\n see "this"\n',
    " Trailing backslash \\\n",
    ' Backslash then quote \\"\n',
    " Tab\tseparated\twords and   several    blanks.\n\tline led by a tab.\n",
    " https://example.org/an/unbreakable/url-with-hyphens/" + "z" * 80 + "\n and a word\n",
    "\n\n Starts with blank lines.\n\n\n\n Ends after a gap.\n",
    " one\n two\n three: \n four:\n five " + S72 + " " + S72 + "\n six\n",
    " Enum-like:\n  A: first\n  B: second:\n  C\n",
    " -\n - \n -x\n 1.\n 1. \n 1.x\n + \n",
    " Unicode: caf\u00e9 \u2014 \u201cquoted\u201d \u00a0 nbsp \u3000 wide.\n",
    "  \n",
    " x\n",
    " Ends with colon:\n",
]


class Comments:
    """Adds SourceCodeInfo locations, cycling through COMMENTS.

    mode: leading | trailing | detached | mixed | none
    """

    KINDS = ("leading", "trailing", "detached", "blank-leading+trailing", "absent",
             "all-three", "empty-location")

    def __init__(self, fdp, mode, start):
        self.fdp, self.mode, self.n = fdp, mode, start

    def __call__(self, *path):
        if self.mode == "none":
            return
        text = COMMENTS[self.n % len(COMMENTS)]
        kind = self.mode
        if kind == "mixed":
            kind = self.KINDS[(self.n // 3) % len(self.KINDS)]
        self.n += 1
        if kind == "absent":
            return
        loc = self.fdp.source_code_info.location.add(path=list(path))
        if kind == "leading":
            loc.leading_comments = text
        elif kind == "trailing":
            loc.trailing_comments = text
        elif kind == "detached":
            loc.leading_detached_comments.extend([text, " Another detached block.\n"])
        elif kind == "blank-leading+trailing":
            # A whitespace-only leading comment is still "the best comment".
            loc.leading_comments = " \n"
            loc.trailing_comments = text
        elif kind == "all-three":
            loc.leading_comments = text
            loc.trailing_comments = " (trailing, must be ignored)\n"
            loc.leading_detached_comments.append(" (detached, must be ignored)\n")
        # "empty-location": a location without any comment at all.


def fld(name, number, type_=F.TYPE_STRING, *, repeated=False, type_name=None, oneof=None,
        required=False, ref=None, optional=False):
    parts = name.split("_")
    f = F(name=name, number=number, type=type_,
          label=F.LABEL_REPEATED if repeated else F.LABEL_OPTIONAL,
          json_name=parts[0] + "".join(p.title() for p in parts[1:]))
    if type_name:
        f.type_name = type_name
    if oneof is not None:
        f.oneof_index = oneof
    if optional:
        f.proto3_optional = True
    if required:
        f.options.Extensions[field_behavior_pb2.field_behavior].append(field_behavior_pb2.REQUIRED)
    if ref:
        f.options.Extensions[resource_pb2.resource_reference].type = ref
    return f


def msg(fdp, c, name, fields, *, oneofs=(), maps=(), nested=(), enums=(), resource=None):
    i = len(fdp.message_type)
    m = fdp.message_type.add(name=name)
    c(4, i)
    for j, f in enumerate(fields):
        m.field.append(f)
        c(4, i, 2, j)
    for j, o in enumerate(oneofs):
        m.oneof_decl.add(name=o)
        c(4, i, 8, j)
    k = 0
    for entry_name, value_field in maps:
        e = m.nested_type.add(name=entry_name)
        e.options.map_entry = True
        e.field.extend([fld("key", 1), value_field])
        k += 1
    for nname, nfields in nested:
        n = m.nested_type.add(name=nname)
        c(4, i, 3, k)
        for j, nf in enumerate(nfields):
            n.field.append(nf)
            c(4, i, 3, k, 2, j)
        k += 1
    for j, (ename, values) in enumerate(enums):
        e = m.enum_type.add(name=ename)
        c(4, i, 4, j)
        for v, vname in enumerate(values):
            e.value.add(name=vname, number=v)
            c(4, i, 4, j, 2, v)
    if resource:
        r = m.options.Extensions[resource_pb2.resource]
        r.type = resource[0]
        r.pattern.extend(resource[1:])
    return m


def enum(fdp, c, name, values):
    i = len(fdp.enum_type)
    e = fdp.enum_type.add(name=name)
    c(5, i)
    for v, vname in enumerate(values):
        e.value.add(name=vname, number=v)
        c(5, i, 2, v)


def svc(fdp, c, name, host, methods, scopes=None):
    i = len(fdp.service)
    s = fdp.service.add(name=name)
    c(6, i)
    s.options.Extensions[client_pb2.default_host] = host
    if scopes:
        s.options.Extensions[client_pb2.oauth_scopes] = scopes
    for j, spec in enumerate(methods):
        m = s.method.add(name=spec["name"], input_type=spec["i"], output_type=spec["o"],
                         client_streaming=spec.get("cs", False),
                         server_streaming=spec.get("ss", False))
        c(6, i, 2, j)
        if "http" in spec:
            verb, uri, body = spec["http"]
            rule = m.options.Extensions[annotations_pb2.http]
            setattr(rule, verb, uri)
            if body:
                rule.body = body
            for verb2, uri2, body2 in spec.get("more_http", ()):
                extra = rule.additional_bindings.add()
                setattr(extra, verb2, uri2)
                if body2:
                    extra.body = body2
        for sig in spec.get("sigs", ()):
            m.options.Extensions[client_pb2.method_signature].append(sig)
        if "lro" in spec:
            info = m.options.Extensions[operations_pb2.operation_info]
            info.response_type, info.metadata_type = spec["lro"]
        if spec.get("deprecated"):
            m.options.deprecated = True


WELL_KNOWN = (annotations_pb2, client_pb2, field_behavior_pb2, resource_pb2, operations_pb2,
              empty_pb2, field_mask_pb2, duration_pb2)


def dependencies():
    seen, out = set(), []

    def visit(fd):
        if fd.name in seen:
            return
        seen.add(fd.name)
        for d in fd.dependencies:
            visit(d)
        out.append(dp.FileDescriptorProto.FromString(fd.serialized_pb))

    for mod in WELL_KNOWN:
        visit(mod.DESCRIPTOR)
    return out


def proto_file(name, package, extra=()):
    fdp = dp.FileDescriptorProto(name=name, package=package, syntax="proto3")
    fdp.dependency.extend([m.DESCRIPTOR.name for m in WELL_KNOWN] + list(extra))
    return fdp


# ---------------------------------------------------------------------------
# API descriptions
# ---------------------------------------------------------------------------
def api_notebook(mode, start):
    """Resources, paging, LRO, map / repeated / oneof / optional, reserved words, flattening."""
    pkg = "example.notebook.v1"
    P = "." + pkg
    fdp = proto_file("example/notebook/v1/notebook.proto", pkg)
    c = Comments(fdp, mode, start)
    c(12)
    enum(fdp, c, "Colour", ["COLOUR_UNSPECIFIED", "RED", "GREEN"])
    msg(fdp, c, "Note", [
        fld("name", 1),
        fld("import", 2),
        fld("not", 3, F.TYPE_BOOL),
        fld("lines", 4, repeated=True),
        fld("attrs", 5, F.TYPE_MESSAGE, repeated=True, type_name=P + ".Note.AttrsEntry"),
        fld("colour", 6, F.TYPE_ENUM, type_name=P + ".Colour"),
        fld("plain", 7, oneof=0),
        fld("rich", 8, F.TYPE_MESSAGE, type_name=P + ".Note.Rich", oneof=0),
        fld("ttl", 9, F.TYPE_MESSAGE, type_name=".google.protobuf.Duration"),
        fld("nickname", 10, oneof=1, optional=True),
        fld("blob", 11, F.TYPE_BYTES),
        fld("weight", 12, F.TYPE_FLOAT),
        fld("counts", 13, F.TYPE_MESSAGE, repeated=True, type_name=P + ".Note.CountsEntry"),
    ], oneofs=["body", "_nickname"],
        maps=[("AttrsEntry", fld("value", 2)), ("CountsEntry", fld("value", 2, F.TYPE_INT32))],
        nested=[("Rich", [fld("html", 1), fld("style", 2, F.TYPE_ENUM, type_name=P + ".Note.Style")])],
        enums=[("Style", ["STYLE_UNSPECIFIED", "BOLD", "ITALIC"])],
        resource=("notebook.example.com/Note", "notebooks/{notebook}/notes/{note}"))
    msg(fdp, c, "Notebook", [fld("name", 1), fld("title", 2)],
        resource=("notebook.example.com/Notebook", "notebooks/{notebook}"))
    msg(fdp, c, "GetNoteRequest", [fld("name", 1, required=True, ref="notebook.example.com/Note")])
    msg(fdp, c, "CreateNoteRequest", [
        fld("parent", 1, required=True, ref="notebook.example.com/Notebook"),
        fld("note", 2, F.TYPE_MESSAGE, type_name=P + ".Note", required=True),
        fld("note_id", 3)])
    msg(fdp, c, "UpdateNoteRequest", [
        fld("note", 1, F.TYPE_MESSAGE, type_name=P + ".Note", required=True),
        fld("update_mask", 2, F.TYPE_MESSAGE, type_name=".google.protobuf.FieldMask")])
    msg(fdp, c, "DeleteNoteRequest", [fld("name", 1, required=True, ref="notebook.example.com/Note")])
    msg(fdp, c, "ListNotesRequest", [
        fld("parent", 1, required=True, ref="notebook.example.com/Notebook"),
        fld("page_size", 2, F.TYPE_INT32), fld("page_token", 3), fld("order_by", 4)])
    msg(fdp, c, "ListNotesResponse", [
        fld("notes", 1, F.TYPE_MESSAGE, repeated=True, type_name=P + ".Note"),
        fld("next_page_token", 2), fld("unreachable", 3, repeated=True)])
    msg(fdp, c, "ExportNotesRequest", [fld("parent", 1, required=True), fld("uri", 2)])
    msg(fdp, c, "ExportNotesResponse", [fld("written", 1, F.TYPE_INT64)])
    msg(fdp, c, "ExportNotesMetadata", [fld("percent", 1, F.TYPE_DOUBLE)])
    svc(fdp, c, "NotebookService", "notebook.example.com", [
        dict(name="GetNote", i=P + ".GetNoteRequest", o=P + ".Note",
             http=("get", "/v1/{name=notebooks/*/notes/*}", None), sigs=["name"]),
        dict(name="CreateNote", i=P + ".CreateNoteRequest", o=P + ".Note",
             http=("post", "/v1/{parent=notebooks/*}/notes", "note"),
             sigs=["parent,note,note_id", "parent,note"]),
        dict(name="UpdateNote", i=P + ".UpdateNoteRequest", o=P + ".Note",
             http=("patch", "/v1/{note.name=notebooks/*/notes/*}", "note"), sigs=["note,update_mask"]),
        dict(name="DeleteNote", i=P + ".DeleteNoteRequest", o=".google.protobuf.Empty",
             http=("delete", "/v1/{name=notebooks/*/notes/*}", None), sigs=["name"], deprecated=True),
        dict(name="ListNotes", i=P + ".ListNotesRequest", o=P + ".ListNotesResponse",
             http=("get", "/v1/{parent=notebooks/*}/notes", None), sigs=["parent"]),
        dict(name="ExportNotes", i=P + ".ExportNotesRequest", o=".google.longrunning.Operation",
             http=("post", "/v1/{parent=notebooks/*}/notes:export", "*"),
             more_http=[("post", "/v1/{parent=folders/*}/notes:export", "*")],
             lro=("ExportNotesResponse", "ExportNotesMetadata")),
    ], scopes="https://www.googleapis.com/auth/cloud-platform")
    return pkg, [fdp]


def api_radio(mode, start=5):
    """Unary + the three streaming shapes; no resources, no LRO."""
    pkg = "example.radio.v2alpha"
    P = "." + pkg
    fdp = proto_file("example/radio/v2alpha/radio.proto", pkg)
    c = Comments(fdp, mode, start)
    msg(fdp, c, "Frame", [
        fld("payload", 1, F.TYPE_BYTES), fld("global", 2), fld("seq", 3, F.TYPE_UINT32),
        fld("tags", 4, F.TYPE_MESSAGE, repeated=True, type_name=P + ".Frame.TagsEntry")],
        maps=[("TagsEntry", fld("value", 2, F.TYPE_BOOL))])
    msg(fdp, c, "Ack", [fld("seq", 1, F.TYPE_UINT32), fld("ok", 2, F.TYPE_BOOL)])
    svc(fdp, c, "Radio", "radio.example.com", [
        dict(name="Ping", i=P + ".Frame", o=P + ".Ack", http=("post", "/v2alpha/ping", "*"),
             sigs=["payload", "payload,global"]),
        dict(name="Tune", i=P + ".Frame", o=P + ".Ack", ss=True, http=("post", "/v2alpha/tune", "*")),
        dict(name="Upload", i=P + ".Frame", o=P + ".Ack", cs=True),
        dict(name="Duplex", i=P + ".Frame", o=P + ".Ack", cs=True, ss=True),
    ])
    return pkg, [fdp]


def api_depot(mode):
    """Two proto files, one in a sub-package; two services; cross-file types; multi-pattern resource."""
    pkg = "acme.depot.v3"
    P = "." + pkg
    shared = proto_file("acme/depot/v3/shared/units.proto", pkg + ".shared")
    cs = Comments(shared, mode, 9)
    enum(shared, cs, "Unit", ["UNIT_UNSPECIFIED", "KILO", "POUND"])
    msg(shared, cs, "Quantity", [fld("amount", 1, F.TYPE_DOUBLE),
                                 fld("unit", 2, F.TYPE_ENUM, type_name=P + ".shared.Unit")])
    main = proto_file("acme/depot/v3/depot.proto", pkg, ["acme/depot/v3/shared/units.proto"])
    c = Comments(main, mode, 13)
    c(12)
    msg(main, c, "Crate", [
        fld("name", 1), fld("load", 2, F.TYPE_MESSAGE, type_name=P + ".shared.Quantity"),
        fld("class", 3), fld("inner", 4, F.TYPE_MESSAGE, repeated=True, type_name=P + ".Crate")],
        resource=("depot.acme.com/Crate", "crates/{crate}", "depots/{depot}/crates/{crate}"))
    msg(main, c, "GetCrateRequest", [
        fld("name", 1, required=True, ref="depot.acme.com/Crate"),
        fld("detail", 2, F.TYPE_ENUM, type_name=P + ".GetCrateRequest.Detail")],
        enums=[("Detail", ["DETAIL_UNSPECIFIED", "SHORT", "LONG"])])
    msg(main, c, "ListCratesRequest", [
        fld("page_size", 1, F.TYPE_INT32), fld("page_token", 2),
        fld("unit", 3, F.TYPE_ENUM, type_name=P + ".shared.Unit")])
    msg(main, c, "ListCratesResponse", [
        fld("crates", 1, F.TYPE_MESSAGE, repeated=True, type_name=P + ".Crate"),
        fld("next_page_token", 2)])
    msg(main, c, "Shipment", [fld("id", 1), fld("total", 2, F.TYPE_MESSAGE,
                                                type_name=P + ".shared.Quantity")])
    svc(main, c, "Inventory", "depot.acme.com", [
        dict(name="GetCrate", i=P + ".GetCrateRequest", o=P + ".Crate",
             http=("get", "/v3/{name=crates/*}", None),
             more_http=[("get", "/v3/{name=depots/*/crates/*}", None)], sigs=["name"]),
        dict(name="ListCrates", i=P + ".ListCratesRequest", o=P + ".ListCratesResponse",
             http=("get", "/v3/crates", None)),
    ])
    svc(main, c, "Shipping", "shipping.acme.com:8443", [
        dict(name="Ship", i=P + ".Shipment", o=P + ".Shipment", http=("post", "/v3/shipments", "*"),
             sigs=["id,total"]),
        dict(name="Recall", i=P + ".Shipment", o=".google.protobuf.Empty",
             http=("post", "/v3/shipments/{id}:recall", "*")),
    ])
    return pkg, [shared, main]


def cases():
    return [
        ("notebook/leading/default-opts", api_notebook("leading", 0), ""),
        ("notebook/leading-shifted/grpc+rest", api_notebook("leading", 7), "transport=grpc+rest,metadata"),
        ("notebook/mixed/no-snippets+numeric", api_notebook("mixed", 3),
         "autogen-snippets=false,transport=grpc+rest,rest-numeric-enums"),
        ("notebook/trailing/rest-only", api_notebook("trailing", 14), "transport=rest,autogen-snippets=false"),
        ("radio/no-source-info/grpc", api_radio("none"), "transport=grpc"),
        ("radio/detached/grpc+rest", api_radio("detached"), "transport=grpc+rest"),
        ("depot/mixed/rest+numeric", api_depot("mixed"), "transport=rest,rest-numeric-enums"),
        ("depot/leading/old-naming", api_depot("leading"),
         "old-naming,python-gapic-namespace=acme,python-gapic-name=warehouse,warehouse-package-name=acme-warehouse"),
    ]


# ---------------------------------------------------------------------------
# Worker: runs in a subprocess, ONE tree only.
# ---------------------------------------------------------------------------
WORKER = r'''
import os, pickle, random, sys, warnings
tree, job_path, out_path = sys.argv[1:4]
tree = os.path.realpath(tree)
warnings.simplefilter("ignore")

# -- make `tree` the only possible provider of `gapic` -----------------------
sys.meta_path[:] = [f for f in sys.meta_path if "__editable__" not in (getattr(f, "__module__", "") or "")
                    and "__editable__" not in getattr(f, "__name__", "")]
sys.path_hooks[:] = [h for h in sys.path_hooks if "__editable__" not in (getattr(h, "__module__", "") or "")]
kept = []
for entry in sys.path:
    if "__editable__" in entry:
        continue
    probe = os.path.realpath(entry or os.getcwd())
    if os.path.isdir(os.path.join(probe, "gapic")):
        continue
    kept.append(entry)
sys.path[:] = [tree] + kept
sys.path_importer_cache.clear()
for name in [n for n in sys.modules if n == "gapic" or n.startswith("gapic.")]:
    del sys.modules[name]

import pypandoc
def _convert_text(text, to, format=None, extra_args=()):
    # pandoc is not installed: deterministic stand-in, the same for both trees.
    body = text.replace("`", "``").replace("\n\n\n", "\n\n")
    return "\n " + body + "\n.. converted:: %s %s %s\n\n" % (to, format, " ".join(extra_args))
pypandoc.convert_text = _convert_text

from google.protobuf import descriptor_pb2
from gapic.schema import api as api_mod, metadata
from gapic.generator import generator, formatter
from gapic import utils
from gapic.utils import Options, lines, rst as rst_filter, wrap as wrap_filter
# (`gapic.utils.rst` the attribute is the function; fetch the module itself.)
assert sys.modules["gapic.utils.rst"].pypandoc.convert_text is _convert_text

job = pickle.load(open(job_path, "rb"))
result = {}
for case in job:
    fds = descriptor_pb2.FileDescriptorSet.FromString(case["fds"])
    opts = Options.build(case["opts"])
    for tpl in opts.templates:
        assert os.path.realpath(tpl).startswith(os.path.join(tree, "gapic") + os.sep), tpl
    schema = api_mod.API.build(list(fds.file), package=case["package"], opts=opts)
    response = generator.Generator(opts).get_response(schema, opts)
    files = {}
    for f in response.file:
        assert f.name not in files, f.name
        files[f.name] = f.content
    assert files, case["name"]
    result[case["name"]] = files

# -- the refactored functions, called directly -------------------------------
rng = random.Random(2020)
WORDS = ["a", "of", "the", "words", "hyphen-ated-word", "w" * 35, "u" * 90, "-", "+", "7.", "42.", "key:",
         "end:", "`c`", "*b*", "s_c", "[x]", "|", '"', '"""', '""', "\\", "\\\\", "caf\u00e9", "\u3000",
         "\x0b", "http://h/p-q"]
GAPS = [" ", " ", " ", "  ", "\t", "\n", "\n", "\n ", "\n\n", "\n\n\n", ":\n", " \n", "\n- ", "\n+ ", "\n2. ",
        "\n   ", ":\n\n", ":\n:\n"]
def some_text():
    s = rng.choice(["", "", " ", "\n", "- ", "+ ", "9. ", ":"])
    for _ in range(rng.choice([0, 1, 2, 4, 9, 25, 50])):
        s += rng.choice(WORDS) + rng.choice(GAPS)
    return s
direct = []
def record(fn, *a, **kw):
    try:
        value = fn(*a, **kw)
    except Exception as exc:   # the same failure is the same behaviour
        value = "RAISED %s: %s" % (type(exc).__name__, exc)
    direct.append(repr(value))

for _ in range(5000):
    t = some_text()
    width = rng.choice([1, 3, 8, 16, 33, 72, 80, 120])
    indent = rng.choice([0, 0, 1, 4, 8, 16])
    offset = rng.choice([None, None, 0, 3, indent, indent + 3, width - 1, width, width + 7])
    record(wrap_filter, t, width, offset=offset, indent=indent)
    record(wrap_filter, t, width=width, indent=indent)
    record(rst_filter, t, width, indent, rng.choice([None, True, False]))
    record(rst_filter, t, width=width, indent=indent)
    record(rst_filter, t)
for t in ["", " ", "\n", "\n\n", "x", ":", ":\n", "a:\nb", "a:\n:\nb", '"', '"""', 'a"', "a\\", 'a\\"', '\\"""',
          "- ", "- a\n- b", "1. a\n2. b", "a\n- b", "a " * 60, ("a " * 60 + "\n") * 3, "a\n" * 5, "\ta\n\tb"]:
    for width, indent in [(72, 0), (80, 8), (10, 2), (1, 0), (0, 0), (5, 9)]:
        record(wrap_filter, t, width, indent=indent)
        record(wrap_filter, t, width, offset=0, indent=indent)
        record(rst_filter, t, width, indent)
        record(rst_filter, t, width, indent, True)
        record(rst_filter, t, width, indent, False)

CODE = ["class A:", "def f():", "@wraps", "# note", "_private = 1", "value = 1", "    def m(self):", "    @prop",
        "        return 1", "    # inner", "    _z = 2", '    """Doc', '    """', "", "", " ", "    ", "\t",
        "            ", "  two", "\x0c", "pass   ", 't = """', '   """', "__all__ = (", ")"]
for _ in range(4000):
    src = "".join(rng.choice(CODE) + rng.choice(["\n", "\n", "\n\n", " \n", "   \n", "\n\n\n\n", "\r\n", "\t\n", ""])
                  for _ in range(rng.choice([0, 1, 2, 6, 15, 30])))
    record(formatter.fix_whitespace, src)
for src in ["", "\n", " ", "x", "x\n\n\n", "\n\n\nclass A: pass", "a\n\n\n\n\ndef f(): pass\n\n\n\n    x\n"]:
    record(formatter.fix_whitespace, src)
for files in result.values():
    for name in sorted(files):
        record(formatter.fix_whitespace, files[name])
        record(formatter.fix_whitespace, files[name].replace("\n", " \n\n\n\n"))

for _ in range(3000):
    loc = descriptor_pb2.SourceCodeInfo.Location()
    if rng.random() < .5:
        loc.leading_comments = rng.choice(["", " ", "\n", " \n ", some_text()])
    if rng.random() < .5:
        loc.trailing_comments = rng.choice(["", " ", "\n", "\t", some_text()])
    for _ in range(rng.choice([0, 0, 1, 2, 4])):
        loc.leading_detached_comments.append(rng.choice(["", " ", "\n", some_text()]))
    record(lambda: metadata.Metadata(documentation=loc).doc)
record(lambda: metadata.Metadata().doc)
record(lambda: metadata.Metadata(documentation=utils.doc("  via utils.doc \n")).doc)

# -- provenance: every gapic module and the templates come from `tree` --------
loaded = [m for n, m in sorted(sys.modules.items()) if n == "gapic" or n.startswith("gapic.")]
assert len(loaded) > 20, len(loaded)
for m in loaded:
    where = getattr(m, "__file__", None)
    if where is None:   # namespace package
        assert [os.path.realpath(p) for p in m.__path__] == [os.path.join(tree, *m.__name__.split("."))], (m, list(m.__path__))
    else:
        assert os.path.realpath(where).startswith(tree + os.sep), (m.__name__, where)

result["<direct calls>"] = {"call %06d" % i: v for i, v in enumerate(direct)}
pickle.dump(result, open(out_path, "wb"))
'''


def main():
    if len(sys.argv) != 2:
        print(__doc__)
        return 2
    checkout = os.path.realpath(sys.argv[1])
    tmp = tempfile.mkdtemp(prefix="twin-U20-demo-")
    try:
        pristine = os.path.join(tmp, "pristine")
        os.mkdir(pristine)
        archive = subprocess.Popen(["git", "-C", checkout, "archive", "HEAD"], stdout=subprocess.PIPE)
        subprocess.check_call(["tar", "-x", "-C", pristine], stdin=archive.stdout)
        archive.stdout.close()
        if archive.wait() != 0:
            raise RuntimeError("git archive failed")

        deps = dependencies()
        job = []
        for name, (pkg, fdps), opts in cases():
            fds = dp.FileDescriptorSet(file=deps + fdps)
            job.append({"name": name, "package": pkg, "opts": opts,
                        "fds": fds.SerializeToString(deterministic=True)})
        job_path = os.path.join(tmp, "job.pickle")
        with open(job_path, "wb") as fh:
            pickle.dump(job, fh)
        worker = os.path.join(tmp, "worker.py")
        with open(worker, "w") as fh:
            fh.write(WORKER)

        env = dict(os.environ, PYTHONHASHSEED="0", PYTHONDONTWRITEBYTECODE="1")
        env.pop("PYTHONPATH", None)
        workdir = os.path.join(tmp, "cwd")
        os.mkdir(workdir)
        running = []
        for label, tree in (("pristine", pristine), ("changed", checkout)):
            out = os.path.join(tmp, label + ".pickle")
            running.append((label, out, subprocess.Popen(
                [sys.executable, worker, tree, job_path, out], cwd=workdir, env=env)))
        outputs = {}
        failed = False
        for label, out, proc in running:
            if proc.wait() != 0:
                print("FAIL: the run with the %s tree exited with %d" % (label, proc.returncode))
                failed = True
                continue
            with open(out, "rb") as fh:
                outputs[label] = pickle.load(fh)
        if failed:
            return 1

        a, b = outputs["pristine"], outputs["changed"]
        problems = []
        expected = {c["name"] for c in job} | {"<direct calls>"}
        if set(a) != expected or set(b) != expected:
            problems.append("internal: a run did not produce all cases")
        total = 0
        digest = hashlib.sha256()
        for case in sorted(set(a) | set(b)):
            fa, fb = a.get(case, {}), b.get(case, {})
            for fname in sorted(set(fa) | set(fb)):
                total += 1
                if fname not in fb:
                    problems.append("%s: %s is missing with the change" % (case, fname))
                elif fname not in fa:
                    problems.append("%s: %s appears only with the change" % (case, fname))
                elif fa[fname].encode("utf-8") != fb[fname].encode("utf-8"):
                    problems.append("%s: %s differs" % (case, fname))
                else:
                    digest.update(("%s\0%s\0%s\0" % (case, fname, fa[fname])).encode("utf-8"))
        ndirect = len(a.get("<direct calls>", {}))
        if ndirect < 1000:
            problems.append("internal: too few direct calls recorded")
        if problems:
            print("DIFFERENT: %d problem(s) in %d compared outputs" % (len(problems), total))
            for p in problems[:300]:
                print("  " + p)
            return 1
        print("IDENTICAL: %d API runs, %d generated files and %d direct wrap/rst/fix_whitespace/doc results "
              "are byte-for-byte equal (sha256 %s)" % (len(job), total - ndirect, ndirect, digest.hexdigest()[:16]))
        return 0
    finally:
        shutil.rmtree(tmp, ignore_errors=True)


if __name__ == "__main__":
    sys.exit(main())
