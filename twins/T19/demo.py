#!/venv/bin/python
"""Equivalence demo for the T19 refactoring (resource path helpers, C19).

Usage:  /venv/bin/python demo.py <checkout-with-the-change>

The checkout's working tree (with the uncommitted refactoring) is compared
with a pristine export of its HEAD.  Five API descriptions are generated with
both trees, each tree in its own subprocess, and every output file is compared
byte for byte.  In addition the three MessageType properties the helpers are
rendered from are evaluated for a list of adversarial patterns and compared.

Exit 0 when everything is identical, 1 otherwise.
"""
import os
import pickle
import shutil
import subprocess
import sys
import tempfile

# --------------------------------------------------------------------------
# Child mode: run the generator of ONE tree on all cases.
# --------------------------------------------------------------------------

PATTERNS = [
    "",
    "*",
    "**",
    "{a}",
    "{a=**}",
    "a",
    "as/{a}",
    "as/{a}/bs/{b}",
    "as/{a}/bs/{b}/cs/{c}/ds/{d}/es/{e}/fs/{f}",
    "as/{a}/bs/{b=**}",
    "as/{a=**}/bs/{b}",
    "as/{a}-{b}/cs/{c}%{d}_{e}",
    "as/{a}~{b}.{c}",
    "as/{a}/singleton",
    "projects/{project}/locations/{location}/settings",
    "a.b/{x}/c+d/{y}",
    "a(b)[c]/{x}|{y}^$",
    "sp ace/{x}/t\\d/{y}",
    "as/{my-var}/bs/{b_2}",
    "as/{from}/bs/{class}",
    "as/{a}/as/{a}",
    "as/{a=*}/bs/{b}",
    "as/{}/bs/{b}",
    "as/{a b}/bs/{b}",
    "{a}{b}",
    "{a}/{b}/{c}",
    "/{a}/",
    "as/{a}/*",
    "as/*/bs/{b}",
    "été/{x}",
    "as/{{a}}",
    "as/{a=**}{b=**}",
]


def child(tree, cases_path, out_path):
    sys.path.insert(0, tree)
    sys.dont_write_bytecode = True

    import pypandoc

    def fake_convert_text(text, to, format=None, extra_args=(), **kw):
        # pandoc is not installed; identical stub for both trees.
        return "PANDOC[%s|%s]: %s" % (format, ",".join(extra_args), text)

    pypandoc.convert_text = fake_convert_text

    from gapic.generator import Generator
    from gapic.schema import wrappers
    from gapic.schema.api import API
    from gapic.utils import Options
    from google.protobuf import descriptor_pb2

    import gapic.generator.generator as generator_module

    for mod in (wrappers, generator_module):
        # `gapic` itself is a namespace package without a __file__.
        assert os.path.realpath(mod.__file__).startswith(
            os.path.realpath(tree) + os.sep
        ), (mod.__file__, tree)

    with open(cases_path, "rb") as f:
        cases = pickle.load(f)

    results = {}
    for name, blobs, package, optstr in cases:
        fds = [descriptor_pb2.FileDescriptorProto.FromString(b) for b in blobs]
        opts = Options.build(optstr)
        api = API.build(fds, package=package, opts=opts)
        res = Generator(opts).get_response(api, opts)
        files = {}
        for out in res.file:
            assert out.name not in files, ("duplicate output", name, out.name)
            files[out.name] = out.content.encode("utf-8")
        results[name] = files

    # Direct evaluation of the schema properties on adversarial patterns.
    props = {}
    for i, pattern in enumerate(PATTERNS):
        for type_name in ("example.com/Thing", "Bare", "a.b/c/HTTPThingV2"):
            mt = wrappers.CommonResource(type_name, pattern).message_type
            props["%02d/%s" % (i, type_name)] = repr(
                (
                    pattern,
                    mt.resource_path,
                    mt.resource_type,
                    mt.resource_type_full_path,
                    list(mt.resource_path_args),
                    mt.resource_path_formatted,
                    mt.path_regex_str,
                )
            ).encode("utf-8")
    plain = wrappers.MessageType(
        message_pb=descriptor_pb2.DescriptorProto(name="Plain"),
        fields={},
        nested_enums={},
        nested_messages={},
    )
    props["plain"] = repr(
        (
            plain.resource_path,
            plain.resource_type,
            list(plain.resource_path_args),
            plain.resource_path_formatted,
            plain.path_regex_str,
        )
    ).encode("utf-8")
    results["__props__"] = props

    with open(out_path, "wb") as f:
        pickle.dump(results, f)


# --------------------------------------------------------------------------
# Parent mode: build the descriptors.
# --------------------------------------------------------------------------


def build_cases():
    from google.api import annotations_pb2, client_pb2, resource_pb2
    from google.api import field_behavior_pb2  # noqa: F401 (registers the file)
    from google.protobuf import empty_pb2  # noqa: F401 (registers the file)
    from google.longrunning import operations_pb2
    from google.protobuf import descriptor_pb2, descriptor_pool

    FD = descriptor_pb2.FieldDescriptorProto
    T_STRING, T_INT32, T_BOOL = FD.TYPE_STRING, FD.TYPE_INT32, FD.TYPE_BOOL
    T_MESSAGE, T_ENUM = FD.TYPE_MESSAGE, FD.TYPE_ENUM
    OPT, REP = FD.LABEL_OPTIONAL, FD.LABEL_REPEATED

    def well_known(names):
        """FileDescriptorProtos of `names` and their transitive deps, in
        dependency order."""
        pool = descriptor_pool.Default()
        seen, order = set(), []

        def visit(n):
            if n in seen:
                return
            seen.add(n)
            fdesc = pool.FindFileByName(n)
            for d in fdesc.dependencies:
                visit(d.name)
            fdp = descriptor_pb2.FileDescriptorProto()
            fdesc.CopyToProto(fdp)
            order.append(fdp)

        for n in names:
            visit(n)
        return order

    def field(name, number, type_=T_STRING, label=OPT, type_name=None,
              ref=None, child_ref=None, oneof=None, optional=False):
        f = FD(name=name, number=number, type=type_, label=label)
        if type_name:
            f.type_name = type_name
        if ref is not None:
            f.options.Extensions[resource_pb2.resource_reference].type = ref
        if child_ref is not None:
            f.options.Extensions[
                resource_pb2.resource_reference
            ].child_type = child_ref
        if oneof is not None:
            f.oneof_index = oneof
        if optional:
            f.proto3_optional = True
        return f

    def message(name, fields=(), resource=None, patterns=(), nested=(),
                oneofs=(), enums=()):
        m = descriptor_pb2.DescriptorProto(name=name)
        m.field.extend(fields)
        m.nested_type.extend(nested)
        m.enum_type.extend(enums)
        for o in oneofs:
            m.oneof_decl.add(name=o)
        if resource is not None:
            r = m.options.Extensions[resource_pb2.resource]
            r.type = resource
            r.pattern.extend(patterns)
        return m

    def map_entry(name, value_type=T_STRING, value_type_name=None):
        m = descriptor_pb2.DescriptorProto(name=name)
        m.options.map_entry = True
        m.field.append(field("key", 1))
        m.field.append(field("value", 2, value_type, type_name=value_type_name))
        return m

    def method(name, inp, out, http=None, sig=(), lro=None,
               cstream=False, sstream=False):
        m = descriptor_pb2.MethodDescriptorProto(
            name=name, input_type=inp, output_type=out,
            client_streaming=cstream, server_streaming=sstream,
        )
        if http:
            verb, uri, body = http
            rule = m.options.Extensions[annotations_pb2.http]
            setattr(rule, verb, uri)
            if body:
                rule.body = body
        for s in sig:
            m.options.Extensions[client_pb2.method_signature].append(s)
        if lro:
            info = m.options.Extensions[operations_pb2.operation_info]
            info.response_type, info.metadata_type = lro
        return m

    def service(name, methods, host=None, scopes=None):
        s = descriptor_pb2.ServiceDescriptorProto(name=name)
        s.method.extend(methods)
        if host:
            s.options.Extensions[client_pb2.default_host] = host
        if scopes:
            s.options.Extensions[client_pb2.oauth_scopes] = scopes
        return s

    def file_(name, package, deps, messages=(), services=(), enums=(),
              resource_defs=()):
        f = descriptor_pb2.FileDescriptorProto(
            name=name, package=package, syntax="proto3"
        )
        f.dependency.extend(deps)
        f.message_type.extend(messages)
        f.service.extend(services)
        f.enum_type.extend(enums)
        for type_name, patterns in resource_defs:
            r = f.options.Extensions[resource_pb2.resource_definition].add()
            r.type = type_name
            r.pattern.extend(patterns)
        return f

    api_deps = [
        "google/api/annotations.proto",
        "google/api/client.proto",
        "google/api/resource.proto",
        "google/api/field_behavior.proto",
    ]
    lro_deps = api_deps + [
        "google/longrunning/operations.proto",
        "google/protobuf/empty.proto",
    ]

    cases = []

    # ---------------------------------------------------------------- case 1
    # Message resources of every shape, file-level definitions, references
    # by type and child_type, common + wildcard references, LRO, paging.
    pkg = "google.example.library.v1"
    P = "." + pkg + "."
    lib = file_(
        "google/example/library/v1/library.proto", pkg, lro_deps,
        resource_defs=[
            ("library.example.com/Shelf",
             ["publishers/{publisher}/shelves/{shelf}", "shelves/{shelf}"]),
            ("library.example.com/Unused", ["unused/{unused}"]),
            ("library.example.com/Vault", ["vaults/{vault}/items/{item=**}"]),
        ],
        messages=[
            message("Book", resource="library.example.com/Book", patterns=[
                "publishers/{publisher}/shelves/{shelf}/books/{book}",
                "books/{book}"],
                fields=[
                    field("name", 1),
                    field("shelf", 2, ref="library.example.com/Shelf"),
                    field("project", 3,
                          ref="cloudresourcemanager.googleapis.com/Project"),
                    field("anything", 4, ref="*"),
                    field("tags", 5, label=REP),
                ]),
            message("Archive", resource="library.example.com/Archive",
                    patterns=["archives/{archive}/blobs/{blob=**}"],
                    fields=[field("name", 1),
                            field("vault", 2, ref="library.example.com/Vault")]),
            message("Edition", resource="library.example.com/Edition",
                    patterns=[
                        "books/{book}/editions/{year}-{month}_{day}~{rev}.{fmt}"],
                    fields=[field("name", 1)]),
            message("Settings", resource="library.example.com/Settings",
                    patterns=["projects/{project}/locations/{location}/settings"],
                    fields=[field("name", 1)]),
            message("Wild", resource="library.example.com/Anything",
                    patterns=["*"], fields=[field("name", 1)]),
            message("Orphan", resource="library.example.com/Orphan",
                    patterns=["orphans/{orphan}"], fields=[field("name", 1)]),
            message("GetBookRequest", fields=[
                field("name", 1, ref="library.example.com/Book")]),
            message("ListBooksRequest", fields=[
                field("parent", 1, child_ref="library.example.com/Book"),
                field("page_size", 2, T_INT32),
                field("page_token", 3)]),
            message("ListBooksResponse", fields=[
                field("books", 1, T_MESSAGE, REP, P + "Book"),
                field("next_page_token", 2)]),
            message("ArchiveBookRequest", fields=[
                field("name", 1, ref="library.example.com/Book"),
                field("orphan", 2, ref="library.example.com/Orphan")]),
            message("ArchiveBookResponse", fields=[
                field("archive", 1, T_MESSAGE, OPT, P + "Archive"),
                field("settings", 2, ref="library.example.com/Settings")]),
            message("ArchiveMetadata", fields=[
                field("progress", 1, T_INT32)]),
            message("GetEditionRequest", fields=[field("name", 1)]),
            message("GetWildRequest", fields=[
                field("name", 1, ref="library.example.com/Anything"),
                field("missing", 2, ref="library.example.com/DoesNotExist")]),
        ],
        services=[service(
            "Library", host="library.example.com",
            scopes="https://www.googleapis.com/auth/cloud-platform,"
                   "https://www.googleapis.com/auth/library",
            methods=[
                method("GetBook", P + "GetBookRequest", P + "Book",
                       http=("get", "/v1/{name=publishers/*/shelves/*/books/*}",
                             None), sig=["name"]),
                method("ListBooks", P + "ListBooksRequest",
                       P + "ListBooksResponse",
                       http=("get", "/v1/{parent=publishers/*/shelves/*}/books",
                             None), sig=["parent"]),
                method("ArchiveBook", P + "ArchiveBookRequest",
                       ".google.longrunning.Operation",
                       http=("post", "/v1/{name=books/*}:archive", "*"),
                       lro=("ArchiveBookResponse", "ArchiveMetadata")),
                method("GetEdition", P + "GetEditionRequest", P + "Edition",
                       http=("get", "/v1/{name=books/*/editions/*}", None)),
                method("GetWild", P + "GetWildRequest", P + "Wild",
                       http=("get", "/v1/{name=**}", None)),
            ])],
    )
    cases.append(("library-default", well_known(lro_deps) + [lib], pkg, ""))

    # ---------------------------------------------------------------- case 2
    # Reserved-word-ish names, odd type names, hyphenated variables, regex
    # metacharacters in the literal text, six variables.  REST only.
    pkg = "example.kw.v1"
    P = "." + pkg + "."
    state = descriptor_pb2.EnumDescriptorProto(name="State")
    state.value.add(name="STATE_UNSPECIFIED", number=0)
    state.value.add(name="ACTIVE", number=1)
    kw = file_(
        "example/kw/v1/import.proto", pkg, api_deps,
        enums=[state],
        resource_defs=[("Bare", ["bares/{bare}"])],
        messages=[
            message("Class", resource="kw.example.com/Class",
                    patterns=["classes/{class_}/defs/{def_id}"],
                    fields=[field("name", 1),
                            field("state", 2, T_ENUM, OPT, P + "State"),
                            field("bare", 3, ref="Bare")]),
            message("Global", resource="kw.example.com/Global",
                    patterns=["a.b/{x}/c+d/{y}"], fields=[field("name", 1)]),
            message("HTTPServerV2", resource="kw.example.com/HTTPServerV2",
                    patterns=["servers/{my-server}/ports/{port_2}"],
                    fields=[field("name", 1)]),
            message("Deep", resource="kw.example.com/deep/Nested/TypeName",
                    patterns=["as/{a}/bs/{b}/cs/{c}/ds/{d}/es/{e}/fs/{f}"],
                    fields=[field("name", 1)]),
            message("From", resource="kw.example.com/From",
                    patterns=["froms/{from}"], fields=[field("name", 1)]),
            message("GetRequest", fields=[
                field("name", 1, ref="kw.example.com/Class"),
                field("global", 2, ref="kw.example.com/Global"),
                field("server", 3, ref="kw.example.com/HTTPServerV2"),
                field("deep", 4, child_ref="kw.example.com/deep/Nested/TypeName"),
                field("state", 5, T_ENUM, OPT, P + "State"),
                field("from", 6, ref="kw.example.com/From"),
            ]),
        ],
        services=[service(
            "Import", host="kw.example.com",
            methods=[
                method("Get", P + "GetRequest", P + "Class",
                       http=("get", "/v1/{name=classes/*/defs/*}", None),
                       sig=["name", "name,state"]),
                method("Update", P + "Class", P + "Class",
                       http=("patch", "/v1/{name=classes/*/defs/*}", "*")),
            ])],
    )
    cases.append(("reserved-rest", well_known(api_deps) + [kw], pkg,
                  "transport=rest,rest-numeric-enums"))

    # ---------------------------------------------------------------- case 3
    # Several files, a sub-package, two services, resources reached only
    # through nested / map / repeated / oneof fields, the same resource type
    # declared by two messages, streaming.  No snippets.
    pkg = "example.multi.v1"
    P = "." + pkg + "."
    common = file_(
        "example/multi/v1/common.proto", pkg, api_deps,
        resource_defs=[("multi.example.com/Zone", ["zones/{zone}"])],
        messages=[
            message("Leaf", resource="multi.example.com/Leaf",
                    patterns=["trees/{tree}/leaves/{leaf}"],
                    fields=[field("name", 1)]),
            message("Twig", resource="multi.example.com/Twig",
                    patterns=["trees/{tree}/twigs/{twig=**}"],
                    fields=[field("name", 1),
                            field("zone", 2, ref="multi.example.com/Zone")]),
            message("Bud", resource="multi.example.com/Bud",
                    patterns=["buds/{bud}"], fields=[field("name", 1)]),
            message("Fruit", resource="multi.example.com/Fruit",
                    patterns=["fruits/{fruit}"], fields=[field("name", 1)]),
            message("Outer", nested=[
                message("Inner", fields=[
                    field("leaf", 1, T_MESSAGE, OPT, P + "Leaf"),
                    field("fruit_name", 2, ref="multi.example.com/Fruit")]),
                map_entry("TwigsEntry", T_MESSAGE, P + "Twig"),
                map_entry("LabelsEntry"),
            ], oneofs=["kind"], fields=[
                field("inner", 1, T_MESSAGE, OPT, P + "Outer.Inner"),
                field("twigs", 2, T_MESSAGE, REP, P + "Outer.TwigsEntry"),
                field("labels", 3, T_MESSAGE, REP, P + "Outer.LabelsEntry"),
                field("bud", 4, T_MESSAGE, OPT, P + "Bud", oneof=0),
                field("text", 5, oneof=0),
                field("inners", 6, T_MESSAGE, REP, P + "Outer.Inner"),
            ]),
        ],
    )
    svc = file_(
        "example/multi/v1/trees.proto", pkg,
        api_deps + ["example/multi/v1/common.proto"],
        messages=[
            message("Query", fields=[
                field("outer", 1, T_MESSAGE, OPT, P + "Outer"),
                field("maybe", 2, optional=True, oneof=0)],
                oneofs=["_maybe"]),
            message("Empty"),
        ],
        services=[service(
            "Trees", host="multi.example.com",
            methods=[
                method("Walk", P + "Query", P + "Outer",
                       http=("post", "/v1/trees:walk", "*")),
                method("Watch", P + "Query", P + "Leaf", sstream=True,
                       http=("post", "/v1/trees:watch", "*")),
                method("Upload", P + "Twig", P + "Empty", cstream=True),
                method("Chat", P + "Query", P + "Query",
                       cstream=True, sstream=True),
            ])],
    )
    AP = "." + pkg + ".admin."
    admin = file_(
        "example/multi/v1/admin/admin.proto", pkg + ".admin",
        api_deps + ["example/multi/v1/common.proto"],
        messages=[
            # Same resource type as example.multi.v1.Leaf, other pattern.
            message("LeafCopy", resource="multi.example.com/Leaf",
                    patterns=["copies/{copy}"], fields=[field("name", 1)]),
            message("PruneRequest", fields=[
                field("leaf", 1, T_MESSAGE, OPT, P + "Leaf"),
                field("copy", 2, T_MESSAGE, OPT, AP + "LeafCopy"),
                field("zone", 3, ref="multi.example.com/Zone")]),
            message("PruneResponse", fields=[
                field("folder", 1,
                      ref="cloudresourcemanager.googleapis.com/Folder")]),
        ],
        services=[service(
            "Admin", host="multi.example.com",
            methods=[
                method("Prune", AP + "PruneRequest", AP + "PruneResponse",
                       http=("post", "/v1/admin:prune", "*")),
            ])],
    )
    cases.append(("multi-subpackage-nosnippets",
                  well_known(api_deps) + [common, svc, admin], pkg,
                  "autogen-snippets=false"))

    # ---------------------------------------------------------------- case 4
    # No annotations at all: only the five common resources are rendered.
    pkg = "example.bare.v1"
    P = "." + pkg + "."
    bare = file_(
        "example/bare/v1/bare.proto", pkg, [],
        messages=[
            message("Ping", fields=[field("text", 1)]),
            message("Pong"),
        ],
        services=[
            service("Bare", methods=[method("Ping", P + "Ping", P + "Pong")]),
            service("Hollow", methods=[]),
        ],
    )
    cases.append(("bare-grpc", [bare], pkg, "transport=grpc"))

    # ---------------------------------------------------------------- case 5
    # The library API again, gRPC only and with the service yaml-less
    # "old-naming" layout, to reach the other option paths.
    lib2 = descriptor_pb2.FileDescriptorProto()
    lib2.CopyFrom(lib)
    cases.append(("library-grpc-oldnaming", well_known(lro_deps) + [lib2],
                  "google.example.library.v1",
                  "transport=grpc,old-naming,autogen-snippets=false"))

    return [
        (name, [fd.SerializeToString(deterministic=True) for fd in fds],
         package, optstr)
        for name, fds, package, optstr in cases
    ]


def main(argv):
    if len(argv) != 2:
        print(__doc__)
        return 2
    checkout = os.path.abspath(argv[1])
    tmp = tempfile.mkdtemp(prefix="twin-demo-T19-")
    try:
        base = os.path.join(tmp, "base")
        os.mkdir(base)
        archive = subprocess.Popen(
            ["git", "-C", checkout, "archive", "HEAD"], stdout=subprocess.PIPE
        )
        subprocess.check_call(["tar", "-x", "-C", base], stdin=archive.stdout)
        archive.stdout.close()
        if archive.wait() != 0:
            raise RuntimeError("git archive failed")

        cases_path = os.path.join(tmp, "cases.pkl")
        with open(cases_path, "wb") as f:
            pickle.dump(build_cases(), f)

        env = dict(os.environ)
        env["PYTHONHASHSEED"] = "0"
        env["PYTHONDONTWRITEBYTECODE"] = "1"
        env.pop("PYTHONPATH", None)
        outs = {}
        for label, tree in (("changed", checkout), ("base", base)):
            out_path = os.path.join(tmp, label + ".pkl")
            subprocess.check_call(
                [sys.executable, os.path.abspath(__file__), "--child", tree,
                 cases_path, out_path],
                env=env, cwd=tmp,
            )
            with open(out_path, "rb") as f:
                outs[label] = pickle.load(f)

        diffs = []
        nfiles = 0
        helper_lines = 0
        for case in sorted(set(outs["changed"]) | set(outs["base"])):
            a = outs["changed"].get(case, {})
            b = outs["base"].get(case, {})
            for fname in sorted(set(a) | set(b)):
                nfiles += 1
                if fname not in a:
                    diffs.append("%s: %s only in base" % (case, fname))
                elif fname not in b:
                    diffs.append("%s: %s only in changed" % (case, fname))
                elif a[fname] != b[fname]:
                    diffs.append("%s: %s differs" % (case, fname))
                elif fname.endswith("client.py"):
                    helper_lines += a[fname].count(b"_path(")
        ncases = len(outs["base"]) - 1
        if ncases < 4 or helper_lines < 50:
            diffs.append("demo too weak: %d cases, %d helper lines"
                         % (ncases, helper_lines))
        if diffs:
            print("DIFFERENT: %d problem(s)" % len(diffs))
            for d in diffs:
                print("  " + d)
            return 1
        print("IDENTICAL: %d API cases + %d property probes, %d outputs "
              "compared byte for byte (%d path-helper lines)"
              % (ncases, len(outs["base"]["__props__"]), nfiles, helper_lines))
        return 0
    finally:
        shutil.rmtree(tmp, ignore_errors=True)


if __name__ == "__main__":
    if len(sys.argv) > 1 and sys.argv[1] == "--child":
        child(*sys.argv[2:5])
        sys.exit(0)
    sys.exit(main(sys.argv))
