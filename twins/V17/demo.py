#!/venv/bin/python
"""Differential check for the V17 refactoring (property C17, mixin RPCs).

Usage:  /venv/bin/python demo.py <path-to-a-checkout-with-the-change>

* exports the checkout's HEAD (pristine tree) with `git archive`,
* builds several API descriptions + service YAMLs in Python (no protoc),
* runs the generator on each of them with BOTH trees, each in its own
  subprocess (the tree under test is first on sys.path and every other
  provider of the `gapic` package is removed),
* compares all output files byte for byte.

Exit 0 and a one-line summary if everything is identical, exit 1 otherwise.
"""
import json
import os
import pickle
import shutil
import subprocess
import sys
import tempfile

from google.protobuf import descriptor_pb2 as dpb

# ---------------------------------------------------------------------------
# Worker: runs inside a subprocess, once per tree.
# ---------------------------------------------------------------------------
WORKER = r'''
import os, pickle, sys

tree = os.path.realpath(sys.argv[1])
inp, outp = sys.argv[2], sys.argv[3]


def _under_tree(p):
    return os.path.realpath(p).startswith(tree + os.sep)


# 1. drop every import finder / path entry that could provide `gapic`
#    (the venv has an editable install of another checkout).
for finder in list(sys.meta_path):
    mod = getattr(finder, "__module__", "") or ""
    name = getattr(finder, "__name__", type(finder).__name__)
    if "editable" in mod.lower() or "editable" in name.lower():
        sys.meta_path.remove(finder)
clean = []
for entry in sys.path:
    if "__editable__" in entry or "__path_hook__" in entry:
        continue
    probe = entry or os.getcwd()
    if os.path.isdir(os.path.join(probe, "gapic")) or os.path.isfile(
        os.path.join(probe, "gapic.py")
    ):
        continue
    clean.append(entry)
sys.path[:] = [tree] + clean
sys.path_hooks[:] = [
    h for h in sys.path_hooks if "editable" not in (getattr(h, "__module__", "") or "").lower()
]
sys.path_importer_cache.clear()
for name in [m for m in sys.modules if m == "gapic" or m.startswith("gapic.")]:
    del sys.modules[name]

# 2. pandoc is not installed: stub it identically for both runs.
import pypandoc


def _convert_text(text, to, format=None, extra_args=(), **kw):
    return text


pypandoc.convert_text = _convert_text

from google.protobuf import descriptor_pb2
# make sure the extensions used by the descriptors are registered
from google.api import annotations_pb2, client_pb2, field_behavior_pb2, resource_pb2  # noqa
from google.api import routing_pb2, field_info_pb2  # noqa
from google.longrunning import operations_pb2  # noqa

import gapic
from gapic.schema import api as gapic_api
from gapic.generator import generator as gapic_generator
from gapic.utils import Options

# `gapic` itself is a namespace package (no __init__.py): it has no __file__,
# so check every portion of its __path__ instead.
assert list(gapic.__path__) and all(_under_tree(p) for p in gapic.__path__), list(gapic.__path__)

with open(inp, "rb") as f:
    cases = pickle.load(f)

results = {}
for case in cases:
    fds = [descriptor_pb2.FileDescriptorProto.FromString(b) for b in case["fds"]]
    opts = Options.build(case["opts"])
    for t in opts.templates:
        assert _under_tree(t), ("template dir outside tree", t)
    api = gapic_api.API.build(fds, package=case["package"], opts=opts)
    gen = gapic_generator.Generator(opts)
    for sp in gen._env.loader.searchpath:
        assert _under_tree(sp), ("loader searchpath outside tree", sp)
    resp = gen.get_response(api, opts)
    files = {}
    for out in resp.file:
        assert out.name not in files, ("duplicate output file", out.name)
        files[out.name] = out.content
    # a few facts the driver uses to check that the inputs really exercise the code
    facts = {
        "mixin_api_methods": sorted(api.mixin_api_methods),
        "has_iam_overrides": bool(api._has_iam_overrides),
        "has_iam_mixin": bool(api.has_iam_mixin),
        "add_iam_methods": bool(opts.add_iam_methods),
    }
    results[case["name"]] = {"files": files, "facts": facts}

# 3. every gapic module must come from the tree under test.
loaded = {
    n: m
    for n, m in sys.modules.items()
    if (n == "gapic" or n.startswith("gapic.")) and m is not None
}
assert len(loaded) > 10, "no gapic modules loaded?"
for n, m in loaded.items():
    fn = getattr(m, "__file__", None)
    where = [fn] if fn else list(getattr(m, "__path__", []))
    assert where and all(_under_tree(w) for w in where), (
        "gapic module from outside tree", n, where)

with open(outp, "wb") as f:
    pickle.dump({"results": results, "modules": len(loaded)}, f)
'''

# ---------------------------------------------------------------------------
# Descriptor construction helpers
# ---------------------------------------------------------------------------
from google.api import annotations_pb2, client_pb2, field_behavior_pb2, resource_pb2  # noqa: E402
from google.api import http_pb2  # noqa: E402
from google.cloud.location import locations_pb2  # noqa: E402,F401
from google.iam.v1 import iam_policy_pb2, policy_pb2  # noqa: E402
from google.longrunning import operations_pb2  # noqa: E402
from google.protobuf import empty_pb2, field_mask_pb2, timestamp_pb2  # noqa: E402

F = dpb.FieldDescriptorProto


def _closure(file_descs):
    """Topologically sorted FileDescriptorProtos for the given pool files."""
    seen, order = set(), []

    def visit(fd):
        if fd.name in seen:
            return
        seen.add(fd.name)
        for dep in fd.dependencies:
            visit(dep)
        order.append(dpb.FileDescriptorProto.FromString(fd.serialized_pb))

    for fd in file_descs:
        visit(fd)
    return order


DEP_MODULES = [
    annotations_pb2,
    client_pb2,
    field_behavior_pb2,
    resource_pb2,
    operations_pb2,
    iam_policy_pb2,
    policy_pb2,
    empty_pb2,
    field_mask_pb2,
    timestamp_pb2,
]
DEPS = _closure([m.DESCRIPTOR for m in DEP_MODULES])
DEP_NAMES = [d.name for d in DEPS]


def field(name, number, type_, label=F.LABEL_OPTIONAL, type_name=None, **kw):
    f = F(name=name, number=number, type=type_, label=label, json_name=None, **kw)
    if type_name:
        f.type_name = type_name
    return f


def s(name, number, **kw):
    return field(name, number, F.TYPE_STRING, **kw)


def msg(name, number, type_name, **kw):
    return field(name, number, F.TYPE_MESSAGE, type_name=type_name, **kw)


def message(name, fields, nested=(), oneofs=(), enums=()):
    m = dpb.DescriptorProto(name=name)
    m.field.extend(fields)
    m.nested_type.extend(nested)
    m.enum_type.extend(enums)
    for o in oneofs:
        m.oneof_decl.add(name=o)
    return m


def map_entry(name):
    e = message(name, [s("key", 1), s("value", 2)])
    e.options.map_entry = True
    return e


def http(verb, path, body=None, additional=()):
    rule = http_pb2.HttpRule(**{verb: path})
    if body is not None:
        rule.body = body
    for v, p, b in additional:
        extra = rule.additional_bindings.add(**{v: p})
        if b is not None:
            extra.body = b
    return rule


def method(name, inp, out, rule=None, sig=None, cs=False, ss=False, lro=None):
    m = dpb.MethodDescriptorProto(
        name=name, input_type=inp, output_type=out, client_streaming=cs, server_streaming=ss
    )
    if rule is not None:
        m.options.Extensions[annotations_pb2.http].CopyFrom(rule)
    for sg in sig or ():
        m.options.Extensions[client_pb2.method_signature].append(sg)
    if lro:
        info = m.options.Extensions[operations_pb2.operation_info]
        info.response_type, info.metadata_type = lro
    return m


def service(name, methods, host="library.example.com"):
    svc = dpb.ServiceDescriptorProto(name=name)
    svc.method.extend(methods)
    svc.options.Extensions[client_pb2.default_host] = host
    svc.options.Extensions[client_pb2.oauth_scopes] = (
        "https://www.googleapis.com/auth/cloud-platform"
    )
    return svc


def library_file(pkg="google.example.v1", fname="google/example/v1/library.proto",
                 own_iam=False, streaming=True, lro=True, second_service=False,
                 reserved=False):
    """A library-like API with paging, LRO, streaming, maps, oneofs, enums."""
    P = "." + pkg
    fd = dpb.FileDescriptorProto(name=fname, package=pkg, syntax="proto3")
    fd.dependency.extend(DEP_NAMES)

    genre = dpb.EnumDescriptorProto(name="Genre")
    for i, n in enumerate(["GENRE_UNSPECIFIED", "FICTION", "SCIENCE"]):
        genre.value.add(name=n, number=i)
    fd.enum_type.append(genre)

    book_fields = [
        s("name", 1),
        s("title", 2),
        field("labels", 3, F.TYPE_MESSAGE, F.LABEL_REPEATED, P + ".Book.LabelsEntry"),
        s("tags", 4, label=F.LABEL_REPEATED),
        field("page_count", 5, F.TYPE_INT32, oneof_index=0),
        s("isbn", 6, oneof_index=0),
        field("genre", 7, F.TYPE_ENUM, type_name=P + ".Genre"),
        msg("create_time", 8, ".google.protobuf.Timestamp"),
    ]
    if reserved:
        book_fields += [s("class", 9), s("from", 10), field("import", 11, F.TYPE_BOOL)]
    book = message("Book", book_fields, nested=[map_entry("LabelsEntry")], oneofs=["ident"])
    res = book.options.Extensions[resource_pb2.resource]
    res.type = "library.example.com/Book"
    res.pattern.append("shelves/{shelf}/books/{book}")
    fd.message_type.append(book)

    name_f = s("name", 1)
    name_f.options.Extensions[field_behavior_pb2.field_behavior].append(
        field_behavior_pb2.REQUIRED
    )
    name_f.options.Extensions[resource_pb2.resource_reference].type = "library.example.com/Book"
    fd.message_type.append(message("GetBookRequest", [name_f]))
    fd.message_type.append(
        message(
            "ListBooksRequest",
            [s("parent", 1), field("page_size", 2, F.TYPE_INT32), s("page_token", 3),
             s("filter", 4)],
        )
    )
    fd.message_type.append(
        message(
            "ListBooksResponse",
            [msg("books", 1, P + ".Book", label=F.LABEL_REPEATED), s("next_page_token", 2)],
        )
    )
    fd.message_type.append(
        message(
            "CreateBookRequest",
            [s("parent", 1), msg("book", 2, P + ".Book"), s("book_id", 3)],
        )
    )
    fd.message_type.append(
        message("UpdateBookRequest", [msg("book", 1, P + ".Book"),
                                      msg("update_mask", 2, ".google.protobuf.FieldMask")])
    )
    fd.message_type.append(message("DeleteBookRequest", [s("name", 1)]))
    fd.message_type.append(message("OperationMetadata", [s("verb", 1)]))
    fd.message_type.append(message("ChatMessage", [s("text", 1), s("name", 2)]))

    methods = [
        method("GetBook", P + ".GetBookRequest", P + ".Book",
               http("get", "/v1/{name=shelves/*/books/*}"), sig=["name"]),
        method("ListBooks", P + ".ListBooksRequest", P + ".ListBooksResponse",
               http("get", "/v1/{parent=shelves/*}/books"), sig=["parent"]),
        method("UpdateBook", P + ".UpdateBookRequest", P + ".Book",
               http("patch", "/v1/{book.name=shelves/*/books/*}", "book"),
               sig=["book,update_mask"]),
        method("DeleteBook", P + ".DeleteBookRequest", ".google.protobuf.Empty",
               http("delete", "/v1/{name=shelves/*/books/*}"), sig=["name"]),
    ]
    if lro:
        methods.append(
            method("CreateBook", P + ".CreateBookRequest", ".google.longrunning.Operation",
                   http("post", "/v1/{parent=shelves/*}/books", "book"),
                   sig=["parent,book,book_id"], lro=("Book", "OperationMetadata"))
        )
    else:
        methods.append(
            method("CreateBook", P + ".CreateBookRequest", P + ".Book",
                   http("post", "/v1/{parent=shelves/*}/books", "book"))
        )
    if streaming:
        methods.append(
            method("StreamBooks", P + ".ListBooksRequest", P + ".Book",
                   http("get", "/v1/{parent=shelves/*}/books:stream"), ss=True)
        )
        methods.append(method("Chat", P + ".ChatMessage", P + ".ChatMessage", cs=True, ss=True))
        methods.append(method("Upload", P + ".ChatMessage", P + ".ChatMessage", cs=True))
    if own_iam:
        # the API defines IAM RPCs itself -> the IAM mixin has to yield
        methods.append(
            method("SetIamPolicy", ".google.iam.v1.SetIamPolicyRequest", ".google.iam.v1.Policy",
                   http("post", "/v1/{resource=shelves/*}:setIamPolicy", "*"))
        )
        methods.append(
            method("GetIamPolicy", ".google.iam.v1.GetIamPolicyRequest", ".google.iam.v1.Policy",
                   http("get", "/v1/{resource=shelves/*}:getIamPolicy"))
        )
    fd.service.append(service("Library", methods))
    if second_service:
        fd.service.append(
            service(
                "Catalog",
                [
                    method("LookupBook", P + ".GetBookRequest", P + ".Book",
                           http("get", "/v1/{name=catalog/*}")),
                    method("Import", P + ".ListBooksRequest", P + ".ListBooksResponse",
                           http("post", "/v1/catalog:import", "*")),
                ],
                host="catalog.example.com",
            )
        )
    return fd


def sub_file(pkg="google.example.v1", sub="admin"):
    """A second proto in a sub-package with its own service."""
    full = "%s.%s" % (pkg, sub)
    P = "." + full
    fd = dpb.FileDescriptorProto(
        name="%s/%s.proto" % (full.replace(".", "/"), sub), package=full, syntax="proto3"
    )
    fd.dependency.extend(DEP_NAMES)
    fd.message_type.append(message("PurgeRequest", [s("parent", 1), field("force", 2, F.TYPE_BOOL)]))
    fd.message_type.append(message("PurgeResponse", [field("purged", 1, F.TYPE_INT64)]))
    fd.service.append(
        service(
            "Admin",
            [method("Purge", P + ".PurgeRequest", P + ".PurgeResponse",
                    http("post", "/v1/{parent=shelves/*}:purge", "*"))],
            host="admin.example.com",
        )
    )
    return fd


# ---------------------------------------------------------------------------
# Service YAMLs
# ---------------------------------------------------------------------------
OPS_RULES = [
    {"selector": "google.longrunning.Operations.ListOperations",
     "get": "/v1/{name=projects/*/locations/*}/operations"},
    {"selector": "google.longrunning.Operations.GetOperation",
     "get": "/v1/{name=projects/*/locations/*/operations/*}",
     "additional_bindings": [{"get": "/v1/{name=shelves/*/operations/*}"}]},
    {"selector": "google.longrunning.Operations.DeleteOperation",
     "delete": "/v1/{name=projects/*/locations/*/operations/*}"},
    {"selector": "google.longrunning.Operations.CancelOperation",
     "post": "/v1/{name=projects/*/locations/*/operations/*}:cancel", "body": "*"},
    {"selector": "google.longrunning.Operations.WaitOperation",
     "post": "/v1/{name=projects/*/locations/*/operations/*}:wait", "body": "*"},
]
IAM_RULES = [
    {"selector": "google.iam.v1.IAMPolicy.SetIamPolicy",
     "post": "/v1/{resource=shelves/*}:setIamPolicy", "body": "*",
     "additional_bindings": [
         {"post": "/v1/{resource=shelves/*/books/*}:setIamPolicy", "body": "*"}]},
    {"selector": "google.iam.v1.IAMPolicy.GetIamPolicy",
     "get": "/v1/{resource=shelves/*}:getIamPolicy",
     "additional_bindings": [{"get": "/v1/{resource=shelves/*/books/*}:getIamPolicy"}]},
    {"selector": "google.iam.v1.IAMPolicy.TestIamPermissions",
     "post": "/v1/{resource=shelves/*}:testIamPermissions", "body": "*"},
]
LOC_RULES = [
    {"selector": "google.cloud.location.Locations.ListLocations",
     "get": "/v1/{name=projects/*}/locations"},
    {"selector": "google.cloud.location.Locations.GetLocation",
     "get": "/v1/{name=projects/*/locations/*}"},
]
OPS, IAM, LOC = (
    "google.longrunning.Operations",
    "google.iam.v1.IAMPolicy",
    "google.cloud.location.Locations",
)


def yaml_cfg(apis, rules, name="library.example.com"):
    cfg = {
        "type": "google.api.Service",
        "config_version": 3,
        "name": name,
        "title": "Example Library API",
        "apis": [{"name": "google.example.v1.Library"}] + [{"name": a} for a in apis],
    }
    if rules is not None:
        cfg["http"] = {"rules": rules}
    return cfg


def build_cases(tmp):
    """(name, [FileDescriptorProto], package, option string) tuples."""

    def yaml_path(case, cfg):
        # JSON is a subset of YAML; yaml.load in Options.build reads it fine.
        p = os.path.join(tmp, case + "_service.yaml")
        with open(p, "w") as f:
            json.dump(cfg, f, indent=1, sort_keys=True)
        return p

    cases = []

    def add(name, files, opts, cfg=None, package="google.example.v1"):
        if cfg is not None:
            opts = (opts + "," if opts else "") + "service-yaml=" + yaml_path(name, cfg)
        cases.append(
            {
                "name": name,
                "fds": [d.SerializeToString() for d in DEPS + files],
                "package": package,
                "opts": opts,
            }
        )

    # 1. no service yaml at all, default transport
    add("plain_grpc", [library_file()], "")
    # 2. all three mixin APIs with full rule sets, both transports
    add("all_mixins_grpc_rest", [library_file(second_service=True)], "transport=grpc+rest",
        yaml_cfg([OPS, IAM, LOC], OPS_RULES + IAM_RULES + LOC_RULES))
    # 3. API defines its own IAM RPCs -> IAM mixin yields; REST only, numeric enums,
    #    subset of the rules (only GetLocation, GetOperation, CancelOperation)
    add("iam_override_rest", [library_file(own_iam=True, streaming=False, reserved=True)],
        "transport=rest,rest-numeric-enums",
        yaml_cfg([IAM, LOC, OPS], IAM_RULES + [LOC_RULES[1], OPS_RULES[1], OPS_RULES[3]]))
    # 4. legacy option only, several services, no snippets
    add("legacy_add_iam", [library_file(second_service=True, lro=False)],
        "add-iam-methods,autogen-snippets=false")
    # 5. legacy option together with the IAM mixin + operations subset, sub-package,
    #    both transports.  (Snippets are off here because the unmodified generator's
    #    snippet index cannot handle a service that lives in a sub-package.)
    add("legacy_plus_mixins_subpkg", [library_file(), sub_file()],
        "add-iam-methods,transport=grpc+rest,metadata,autogen-snippets=false",
        yaml_cfg([IAM, OPS], [IAM_RULES[2], IAM_RULES[0], OPS_RULES[0], OPS_RULES[4]]))
    # 6. apis listed without any http rule (mixins "on" but nothing to expose)
    add("apis_without_rules", [library_file(streaming=False)], "transport=grpc+rest",
        yaml_cfg([OPS, IAM, LOC], None))
    # 7. rules present but the apis are not listed (nothing may be exposed);
    #    only locations listed with its two rules
    add("rules_without_apis", [library_file(lro=False, reserved=True)], "transport=grpc+rest",
        yaml_cfg([LOC], OPS_RULES + IAM_RULES + LOC_RULES))
    # 8. only IAM, single rule, gRPC only
    add("iam_only_one_rule", [library_file(streaming=False, lro=False)], "transport=grpc",
        yaml_cfg([IAM], [IAM_RULES[1]]))
    return cases


def run_worker(tree, worker, inp, outp, cwd):
    env = dict(os.environ)
    env.pop("PYTHONPATH", None)
    env["PYTHONDONTWRITEBYTECODE"] = "1"
    env["PYTHONHASHSEED"] = "0"
    return subprocess.Popen(
        [sys.executable, "-B", worker, tree, inp, outp],
        cwd=cwd, env=env, stdout=subprocess.PIPE, stderr=subprocess.STDOUT, text=True,
    )


def main(argv):
    if len(argv) != 2:
        print(__doc__)
        return 2
    checkout = os.path.realpath(argv[1])
    tmp = tempfile.mkdtemp(prefix="twin-demo-V17-")
    try:
        old_tree = os.path.join(tmp, "old")
        os.mkdir(old_tree)
        archive = subprocess.Popen(["git", "-C", checkout, "archive", "HEAD"],
                                   stdout=subprocess.PIPE)
        subprocess.check_call(["tar", "-x", "-C", old_tree], stdin=archive.stdout)
        archive.stdout.close()
        if archive.wait() != 0:
            print("git archive failed")
            return 1

        work = os.path.join(tmp, "work")
        os.mkdir(work)
        worker = os.path.join(work, "worker.py")
        with open(worker, "w") as f:
            f.write(WORKER)
        cases = build_cases(work)
        inp = os.path.join(work, "cases.pkl")
        with open(inp, "wb") as f:
            pickle.dump(cases, f)

        procs = {}
        for label, tree in (("old", old_tree), ("new", checkout)):
            outp = os.path.join(work, label + ".pkl")
            procs[label] = (run_worker(tree, worker, inp, outp, work), outp)
        data = {}
        for label, (proc, outp) in procs.items():
            out, _ = proc.communicate(timeout=600)
            if proc.returncode != 0:
                print("worker for %s tree failed:\n%s" % (label, out))
                return 1
            with open(outp, "rb") as f:
                data[label] = pickle.load(f)

        # sanity: the inputs really hit the interesting shapes
        facts = {n: r["facts"] for n, r in data["new"]["results"].items()}
        assert facts["plain_grpc"]["mixin_api_methods"] == []
        assert len(facts["all_mixins_grpc_rest"]["mixin_api_methods"]) == 10
        assert facts["iam_override_rest"]["has_iam_overrides"]
        assert facts["iam_override_rest"]["mixin_api_methods"] == [
            "CancelOperation", "GetLocation", "GetOperation"]
        assert facts["legacy_add_iam"]["add_iam_methods"]
        assert facts["legacy_plus_mixins_subpkg"]["has_iam_mixin"]
        assert facts["apis_without_rules"]["mixin_api_methods"] == []
        assert facts["rules_without_apis"]["mixin_api_methods"] == [
            "GetLocation", "ListLocations"]
        assert facts["iam_only_one_rule"]["mixin_api_methods"] == ["GetIamPolicy"]
        for n in facts:
            assert facts[n] == data["old"]["results"][n]["facts"], n

        diffs, total = [], 0
        for case in cases:
            name = case["name"]
            old_files = data["old"]["results"][name]["files"]
            new_files = data["new"]["results"][name]["files"]
            assert old_files, name
            # the legacy methods must really be in the output where expected
            client = [c for f_, c in new_files.items() if f_.endswith("library/client.py")]
            assert client, name
            legacy = facts[name]["add_iam_methods"]
            assert ("def set_iam_policy(" in client[0]) == (
                legacy or "SetIamPolicy" in facts[name]["mixin_api_methods"]
                or facts[name]["has_iam_overrides"]), name
            for fname in sorted(set(old_files) | set(new_files)):
                total += 1
                if fname not in old_files:
                    diffs.append("%s: %s only produced by the changed tree" % (name, fname))
                elif fname not in new_files:
                    diffs.append("%s: %s only produced by the pristine tree" % (name, fname))
                elif old_files[fname] != new_files[fname]:
                    diffs.append("%s: %s differs" % (name, fname))
        if diffs:
            print("DIFFERENT: %d of %d files differ" % (len(diffs), total))
            for d in diffs:
                print("  " + d)
            return 1
        print(
            "IDENTICAL: %d cases, %d output files compared byte for byte "
            "(%d/%d gapic modules loaded from old/new tree)"
            % (len(cases), total, data["old"]["modules"], data["new"]["modules"])
        )
        return 0
    finally:
        shutil.rmtree(tmp, ignore_errors=True)


if __name__ == "__main__":
    sys.exit(main(sys.argv))
