#!/usr/bin/env python
"""Twin check for W08 (property C08: LRO futures typed by operation_info).

Usage:  /venv/bin/python demo.py <checkout-with-the-change>

Creates a pristine export of the checkout's HEAD, builds several API
descriptions that exercise the refactored code (the first, types-only pass of
api.API.build including file-name sanitizing and prior_protos,
wrappers.OperationInfo.with_context, the if/elif chain after the rpc call in
_client_macros.j2 and the operations client of the grpc / grpc_asyncio
transports), runs the generator on each of them with BOTH trees in separate
processes, and compares all outputs byte for byte (names and contents, both
the formatted and the raw template renderings).
"""
import os
import pickle
import shutil
import subprocess
import sys
import tempfile

HERE = os.path.abspath(__file__)


# --------------------------------------------------------------------------
# Worker: runs inside a subprocess, with exactly one tree importable.
# --------------------------------------------------------------------------
def _isolate(tree):
    tree = os.path.realpath(tree)
    # Drop every import finder / path entry that could supply another `gapic`.
    sys.meta_path[:] = [
        f
        for f in sys.meta_path
        if "__editable__" not in getattr(f, "__module__", "")
        and "__editable__" not in getattr(type(f), "__module__", "")
        and "__editable__" not in repr(f)
    ]
    sys.path_hooks[:] = [h for h in sys.path_hooks if "__editable__" not in repr(h)]
    cleaned = []
    for entry in sys.path:
        if "__editable__" in entry:
            continue
        real = os.path.realpath(entry or os.getcwd())
        if real != tree and os.path.isdir(os.path.join(real, "gapic")):
            continue
        if real == tree:
            continue
        cleaned.append(entry)
    sys.path[:] = [tree] + cleaned
    sys.path_importer_cache.clear()
    for name in list(sys.modules):
        if name == "gapic" or name.startswith("gapic."):
            del sys.modules[name]
    return tree


def _fake_convert_text(text, to=None, format=None, extra_args=(), **kwargs):
    # pandoc is not installed: deterministic stand-in, identical for both runs.
    return text.replace("`", "``") if "``" not in text else text


def worker(tree, cases_path, out_path):
    tree = _isolate(tree)
    import pypandoc

    pypandoc.convert_text = _fake_convert_text

    from google.protobuf import descriptor_pb2
    import gapic
    from gapic import generator as gapic_generator
    from gapic.schema import api as gapic_api
    from gapic.utils import Options

    with open(cases_path, "rb") as f:
        cases = pickle.load(f)

    results = {}
    for case in cases:
        try:
            fds = []
            for blob in case["files"]:
                fd = descriptor_pb2.FileDescriptorProto()
                fd.ParseFromString(blob)
                fds.append(fd)
            opts = Options.build(case["opts"])
            prior_protos = None
            if case.get("prior_files"):
                # Build an earlier API first and hand its protos down, the way
                # API.build is used when several packages are generated.
                prior_fds = []
                for blob in case["prior_files"]:
                    fd = descriptor_pb2.FileDescriptorProto()
                    fd.ParseFromString(blob)
                    prior_fds.append(fd)
                prior_api = gapic_api.API.build(
                    prior_fds,
                    package=case["prior_package"],
                    opts=opts,
                )
                prior_protos = prior_api.all_protos
            api = gapic_api.API.build(
                fds,
                package=case["package"],
                opts=opts,
                prior_protos=prior_protos,
            )
            response = gapic_generator.Generator(opts).get_response(api, opts)
            files = {}
            for out in response.file:
                assert out.name not in files, "duplicate output %s" % out.name
                files[out.name] = out.content.encode("utf-8")
            # Second pass with the whitespace post-processor switched off, so
            # that the raw template output is compared as well (the formatter
            # would otherwise hide blank-line differences).
            from gapic.generator import formatter

            real_fix_whitespace = formatter.fix_whitespace
            formatter.fix_whitespace = lambda code: code
            try:
                raw = gapic_generator.Generator(opts).get_response(api, opts)
            finally:
                formatter.fix_whitespace = real_fix_whitespace
            for out in raw.file:
                files["raw:" + out.name] = out.content.encode("utf-8")
            results[case["name"]] = {
                "files": files,
                # the (possibly sanitized) names the API keys its protos on
                "proto_names": list(api.all_protos),
                "fd_names": [fd.name for fd in fds],
            }
        except Exception as exc:  # generation-time rejection is also compared
            results[case["name"]] = {"error": "%s: %s" % (type(exc).__name__, exc)}

    # Every gapic module and the template directory must come from `tree`.
    loaded = 0
    for name, mod in list(sys.modules.items()):
        if name == "gapic" or name.startswith("gapic."):
            origin = getattr(mod, "__file__", None)
            # `gapic` itself is a namespace package: check its search path.
            places = [origin] if origin else list(mod.__path__)
            assert places, name
            for place in places:
                place = os.path.realpath(place)
                assert place.startswith(tree + os.sep), (name, place, tree)
            loaded += 1
    assert loaded > 10, loaded
    default_opts = Options.build("")
    for tdir in default_opts.templates:
        assert os.path.realpath(tdir).startswith(tree + os.sep), (tdir, tree)
    gen = gapic_generator.Generator(default_opts)
    for sp in gen._env.loader.searchpath:
        assert os.path.realpath(sp).startswith(tree + os.sep), (sp, tree)

    with open(out_path, "wb") as f:
        pickle.dump(results, f)


# --------------------------------------------------------------------------
# Descriptor construction (no protoc available).
# --------------------------------------------------------------------------
def build_cases(scratch):
    from google.protobuf import descriptor_pb2 as d
    from google.protobuf import any_pb2, duration_pb2, empty_pb2, timestamp_pb2
    from google.protobuf import field_mask_pb2
    from google.protobuf import descriptor_pb2
    from google.api import annotations_pb2, client_pb2, http_pb2
    from google.api import field_behavior_pb2, resource_pb2, launch_stage_pb2
    from google.rpc import status_pb2
    from google.longrunning import operations_pb2
    from google.cloud import extended_operations_pb2 as ex_ops_pb2

    F = d.FieldDescriptorProto

    def dep_closure(*modules):
        """FileDescriptorProtos of the given *_pb2 modules and their deps."""
        seen, ordered = set(), []

        def visit(file_desc):
            if file_desc.name in seen:
                return
            seen.add(file_desc.name)
            for dep in file_desc.dependencies:
                visit(dep)
            fdp = d.FileDescriptorProto()
            file_desc.CopyToProto(fdp)
            ordered.append(fdp)

        for m in modules:
            visit(m.DESCRIPTOR)
        return ordered

    common = dep_closure(
        annotations_pb2,
        client_pb2,
        http_pb2,
        field_behavior_pb2,
        resource_pb2,
        launch_stage_pb2,
        any_pb2,
        duration_pb2,
        empty_pb2,
        timestamp_pb2,
        field_mask_pb2,
        status_pb2,
        operations_pb2,
        ex_ops_pb2,
    )

    SCALARS = {
        "string": F.TYPE_STRING,
        "int32": F.TYPE_INT32,
        "int64": F.TYPE_INT64,
        "bool": F.TYPE_BOOL,
        "double": F.TYPE_DOUBLE,
        "bytes": F.TYPE_BYTES,
    }

    def field(name, number, type_, repeated=False, oneof=None, optional=False,
              required=False, enum=False):
        f = F(name=name, number=number, json_name=name)
        f.label = F.LABEL_REPEATED if repeated else F.LABEL_OPTIONAL
        if type_ in SCALARS:
            f.type = SCALARS[type_]
        else:
            f.type = F.TYPE_ENUM if enum else F.TYPE_MESSAGE
            f.type_name = type_ if type_.startswith(".") else "." + type_
        if oneof is not None:
            f.oneof_index = oneof
        if optional:
            f.proto3_optional = True
        if required:
            f.options.Extensions[field_behavior_pb2.field_behavior].append(
                field_behavior_pb2.REQUIRED
            )
        return f

    def message(name, fields=(), oneofs=(), nested=(), enums=()):
        m = d.DescriptorProto(name=name)
        m.field.extend(fields)
        for o in oneofs:
            m.oneof_decl.add(name=o)
        m.nested_type.extend(nested)
        m.enum_type.extend(enums)
        # synthetic oneofs for proto3 optional fields
        for f in m.field:
            if f.proto3_optional:
                f.oneof_index = len(m.oneof_decl)
                m.oneof_decl.add(name="_" + f.name)
        return m

    def map_field(msg_full, name, number, value_type):
        """Return (entry nested type, field) for map<string, value_type>."""
        entry_name = "".join(p.capitalize() for p in name.split("_")) + "Entry"
        entry = d.DescriptorProto(name=entry_name)
        entry.field.extend([field("key", 1, "string"), field("value", 2, value_type)])
        entry.options.map_entry = True
        fld = field(name, number, msg_full + "." + entry_name, repeated=True)
        return entry, fld

    def enum(name, *values):
        e = d.EnumDescriptorProto(name=name)
        for i, v in enumerate(values):
            e.value.add(name=v, number=i)
        return e

    def method(name, inp, out, http=None, sigs=(), lro=None, cstream=False,
               sstream=False, ext_service=None, polling=False, extra_http=()):
        m = d.MethodDescriptorProto(
            name=name,
            input_type="." + inp,
            output_type="." + out,
            client_streaming=cstream,
            server_streaming=sstream,
        )
        if http:
            verb, uri, body = http
            rule = m.options.Extensions[annotations_pb2.http]
            setattr(rule, verb, uri)
            if body:
                rule.body = body
            for verb2, uri2, body2 in extra_http:
                extra = rule.additional_bindings.add()
                setattr(extra, verb2, uri2)
                if body2:
                    extra.body = body2
        for s in sigs:
            m.options.Extensions[client_pb2.method_signature].append(s)
        if lro is not None:
            info = m.options.Extensions[operations_pb2.operation_info]
            info.response_type, info.metadata_type = lro
        if ext_service:
            m.options.Extensions[ex_ops_pb2.operation_service] = ext_service
        if polling:
            m.options.Extensions[ex_ops_pb2.operation_polling_method] = True
        return m

    def service(name, host, methods, scopes=None):
        s = d.ServiceDescriptorProto(name=name)
        s.options.Extensions[client_pb2.default_host] = host
        if scopes:
            s.options.Extensions[client_pb2.oauth_scopes] = scopes
        s.method.extend(methods)
        return s

    def fileproto(name, package, deps=(), messages=(), enums=(), services=(),
                  comments=()):
        f = d.FileDescriptorProto(name=name, package=package, syntax="proto3")
        f.dependency.extend(deps)
        f.message_type.extend(messages)
        f.enum_type.extend(enums)
        f.service.extend(services)
        for path, text in comments:
            f.source_code_info.location.add(path=list(path), leading_comments=text)
        return f

    ANN = "google/api/annotations.proto"
    CLI = "google/api/client.proto"
    FB = "google/api/field_behavior.proto"
    LRO = "google/longrunning/operations.proto"
    EMPTY = "google/protobuf/empty.proto"
    EXOPS = "google/cloud/extended_operations.proto"
    OP = "google.longrunning.Operation"

    def ser(files):
        return [f.SerializeToString() for f in files]

    cases = []

    # ---------------------------------------------------------------- library
    P = "google.example.library.v1"

    def library_files(break_lro=None, unknown_input=False, with_common=True):
        labels_entry, labels_field = map_field(P + ".Book", "labels", 5, "string")
        book = message(
            "Book",
            [
                field("name", 1, "string"),
                field("title", 2, "string", required=True),
                field("pages", 3, "int32", repeated=True),
                field("genre", 4, P + ".Genre", enum=True),
                labels_field,
                field("isbn", 6, "string", oneof=0),
                field("barcode", 7, "int64", oneof=0),
                field("subtitle", 8, "string", optional=True),
                field("class", 9, "string"),
            ],
            oneofs=["identifier"],
            nested=[labels_entry],
        )
        resources = fileproto(
            "google/example/library/v1/resources.proto",
            P,
            deps=[FB],
            messages=[
                book,
                message("WriteBookMetadata", [field("progress", 1, "double")]),
            ],
            enums=[enum("Genre", "GENRE_UNSPECIFIED", "FICTION", "SCIENCE")],
            comments=[((4, 0), " A single book in the library.\n")],
        )
        other = fileproto(
            "google/example/library/v1/archive_types.proto",
            P,
            messages=[
                message("ArchiveResponse", [field("archived", 1, "int32")]),
                message("ArchiveMetadata", [field("shelf", 1, "string")]),
            ],
        )
        req = lambda n, *fs: message(n, list(fs))
        msgs = [
            req("CreateBookRequest", field("parent", 1, "string", required=True),
                field("book", 2, P + ".Book"), field("book_id", 3, "string")),
            req("GetBookRequest", field("name", 1, "string")),
            req("DeleteBookRequest", field("name", 1, "string")),
            req("ListBooksRequest", field("parent", 1, "string"),
                field("page_size", 2, "int32"), field("page_token", 3, "string")),
            req("ListBooksResponse", field("books", 1, P + ".Book", repeated=True),
                field("next_page_token", 2, "string")),
            req("WriteBookRequest", field("name", 1, "string"),
                field("text", 2, "bytes")),
            req("ArchiveBooksRequest", field("parent", 1, "string"),
                field("filter", 2, "string")),
            req("PurgeBooksRequest", field("parent", 1, "string"),
                field("force", 2, "bool")),
            req("PurgeMetadata", field("purged", 1, "int64")),
            req("RawRequest", field("name", 1, "string")),
            req("StreamBooksRequest", field("parent", 1, "string")),
            req("UploadSummary", field("count", 1, "int32")),
        ]
        lros = {
            "WriteBook": ("Book", "WriteBookMetadata"),
            "ArchiveBooks": ("ArchiveResponse", P + ".ArchiveMetadata"),
            "PurgeBooks": ("google.protobuf.Empty", "PurgeMetadata"),
        }
        if break_lro:
            lros.update(break_lro)
        methods = [
            method("CreateBook", P + ".CreateBookRequest", P + ".Book",
                   http=("post", "/v1/{parent=shelves/*}/books", "book"),
                   sigs=["parent,book,book_id", "parent,book"]),
            method("GetBook", P + ".GetBookRequest", P + ".Book",
                   http=("get", "/v1/{name=shelves/*/books/*}", None), sigs=["name"]),
            method("DeleteBook", P + ".DeleteBookRequest", "google.protobuf.Empty",
                   http=("delete", "/v1/{name=shelves/*/books/*}", None),
                   sigs=["name"]),
            method("ListBooks", P + ".ListBooksRequest", P + ".ListBooksResponse",
                   http=("get", "/v1/{parent=shelves/*}/books", None),
                   sigs=["parent"]),
            method("WriteBook",
                   P + (".NoSuchRequest" if unknown_input else ".WriteBookRequest"),
                   OP,
                   http=("post", "/v1/{name=shelves/*/books/*}:write", "*"),
                   sigs=["name,text"], lro=lros["WriteBook"]),
            method("ArchiveBooks", P + ".ArchiveBooksRequest", OP,
                   http=("post", "/v1/{parent=shelves/*}/books:archive", "*"),
                   extra_http=[("post", "/v1/{parent=rooms/*}/books:archive", "*")],
                   lro=lros["ArchiveBooks"]),
            method("PurgeBooks", P + ".PurgeBooksRequest", OP,
                   http=("post", "/v1/{parent=shelves/*}/books:purge", "*"),
                   sigs=["parent"], lro=lros["PurgeBooks"]),
            method("RawOperation", P + ".RawRequest", OP,
                   http=("get", "/v1/{name=raw/*}", None)),
            method("StreamBooks", P + ".StreamBooksRequest", P + ".Book",
                   http=("get", "/v1/{parent=shelves/*}/books:stream", None),
                   sstream=True),
            method("UploadBooks", P + ".Book", P + ".UploadSummary", cstream=True),
            method("Discuss", P + ".Book", P + ".Book", cstream=True, sstream=True),
        ]
        lib = fileproto(
            "google/example/library/v1/library.proto",
            P,
            deps=[ANN, CLI, FB, LRO, EMPTY,
                  "google/example/library/v1/resources.proto"],
            messages=msgs,
            services=[
                service("Library", "library.example.com", methods,
                        scopes="https://www.googleapis.com/auth/cloud-platform"),
            ],
            comments=[
                ((6, 0), " Manages books.\n"),
                ((6, 0, 2, 0), " Creates a book, and returns the new Book.\n"),
                ((6, 0, 2, 4), " Writes a book.\n\n Long-running; see `Book`.\n"),
                ((6, 0, 2, 6), " Purges all the books of a shelf.\n"),
            ],
        )
        if not with_common:
            return [resources, other, lib]
        return common + [resources, other, lib]

    cases.append(dict(name="library_grpc_rest", package=P,
                      files=ser(library_files()),
                      opts="transport=grpc+rest"))
    cases.append(dict(name="library_default_grpc", package=P,
                      files=ser(library_files()), opts=""))

    yaml_path = os.path.join(scratch, "library_v1.yaml")
    with open(yaml_path, "w") as f:
        f.write(
            "type: google.api.Service\n"
            "config_version: 3\n"
            "name: library.example.com\n"
            "title: Library API\n"
            "apis:\n"
            "- name: google.example.library.v1.Library\n"
            "- name: google.longrunning.Operations\n"
            "- name: google.cloud.location.Locations\n"
            "http:\n"
            "  rules:\n"
            "  - selector: google.longrunning.Operations.GetOperation\n"
            "    get: '/v1/{name=operations/*}'\n"
            "    additional_bindings:\n"
            "    - get: '/v1/{name=shelves/*/operations/*}'\n"
            "  - selector: google.longrunning.Operations.ListOperations\n"
            "    get: '/v1/{name=shelves/*}/operations'\n"
            "  - selector: google.longrunning.Operations.CancelOperation\n"
            "    post: '/v1/{name=operations/*}:cancel'\n"
            "    body: '*'\n"
            "  - selector: google.longrunning.Operations.DeleteOperation\n"
            "    delete: '/v1/{name=operations/*}'\n"
            "  - selector: google.cloud.location.Locations.GetLocation\n"
            "    get: '/v1/{name=locations/*}'\n"
            "  - selector: google.cloud.location.Locations.ListLocations\n"
            "    get: '/v1/{name=projects/*}/locations'\n"
        )
    cases.append(dict(
        name="library_rest_yaml_numeric_enums", package=P,
        files=ser(library_files()),
        opts="transport=rest,python-gapic-rest-numeric-enums,"
             "autogen-snippets=false,metadata,service-yaml=" + yaml_path))
    cases.append(dict(
        name="library_grpc_rest_yaml", package=P, files=ser(library_files()),
        opts="transport=grpc+rest,add-iam-methods,service-yaml=" + yaml_path))

    # generation-time rejections (compared as error strings)
    cases.append(dict(
        name="reject_missing_metadata_type", package=P,
        files=ser(library_files(break_lro={"PurgeBooks": ("PurgeMetadata", "")})),
        opts=""))
    cases.append(dict(
        name="reject_missing_response_type", package=P,
        files=ser(library_files(break_lro={"ArchiveBooks": ("", "ArchiveMetadata")})),
        opts=""))
    cases.append(dict(
        name="reject_unknown_lro_type", package=P,
        files=ser(library_files(break_lro={"WriteBook": ("Nope", "WriteBookMetadata")})),
        opts=""))
    cases.append(dict(
        name="reject_unknown_input_before_bad_lro", package=P,
        files=ser(library_files(break_lro={"WriteBook": ("", "")},
                                unknown_input=True)),
        opts=""))

    # ------------------------------------------- module-name collisions
    K = "google.example.keywords.v1"
    op_types = fileproto(
        "google/example/keywords/v1/operation.proto",
        K,
        messages=[
            message("ImportResult", [field("from", 1, "string"),
                                     field("global", 2, "int32")]),
            message("ImportProgress", [field("percent", 1, "int32")]),
        ],
    )
    kw_service = fileproto(
        "google/example/keywords/v1/import.proto",
        K,
        deps=[ANN, CLI, LRO, EMPTY, "google/example/keywords/v1/operation.proto"],
        messages=[
            message("ImportRequest", [field("class", 1, "string"),
                                      field("operation", 2, "string"),
                                      field("request", 3, "string")]),
            message("ExportRequest", [field("name", 1, "string"),
                                      field("result", 2, K + ".ImportResult")]),
            message("OperationRequest", [field("name", 1, "string")]),
        ],
        services=[
            service("Def", "keywords.example.com", [
                method("Import", K + ".ImportRequest", OP,
                       http=("post", "/v1/{class=things/*}:import", "*"),
                       sigs=["class,operation"],
                       lro=("ImportResult", "ImportProgress")),
                method("Export", K + ".ExportRequest", OP,
                       http=("post", "/v1/{name=things/*}:export", "*"),
                       sigs=["name,result"],
                       lro=(K + ".ImportResult",
                            "google.protobuf.Empty")),
                method("Operation", K + ".OperationRequest",
                       K + ".ImportProgress",
                       http=("get", "/v1/{name=things/*}", None)),
                method("CreateChannel", K + ".OperationRequest",
                       "google.protobuf.Empty",
                       http=("post", "/v1/{name=things/*}:channel", "*")),
                method("OperationsClient", K + ".OperationRequest", OP,
                       http=("post", "/v1/{name=things/*}:client", "*")),
            ]),
        ],
    )
    cases.append(dict(name="keywords_collisions", package=K,
                      files=ser(common + [op_types, kw_service]),
                      opts="transport=grpc+rest"))

    # ------------------------------- sub-package, several services
    FL = "google.example.fleet.v1"
    attrs_entry, attrs_field = map_field(FL + ".Vehicle", "attributes", 3,
                                         FL + ".Attribute")
    fleet_types = fileproto(
        "google/example/fleet/v1/vehicle.proto",
        FL,
        messages=[
            message("Attribute", [field("text", 1, "string", oneof=0),
                                  field("number", 2, "double", oneof=0)],
                    oneofs=["value"]),
            message("Vehicle", [field("name", 1, "string"),
                                field("wheels", 2, "int32", repeated=True),
                                attrs_field,
                                field("state", 4, FL + ".Vehicle.State", enum=True)],
                    nested=[attrs_entry],
                    enums=[enum("State", "STATE_UNSPECIFIED", "IDLE", "MOVING")]),
            message("RepairMetadata", [field("step", 1, "string")]),
        ],
    )
    fleet_main = fileproto(
        "google/example/fleet/v1/fleet.proto",
        FL,
        deps=[ANN, CLI, LRO, EMPTY, "google/example/fleet/v1/vehicle.proto"],
        messages=[
            message("GetVehicleRequest", [field("name", 1, "string")]),
            message("RepairVehicleRequest", [field("name", 1, "string"),
                                             field("vehicle", 2, FL + ".Vehicle")]),
            message("PingRequest", []),
            message("PingResponse", [field("ok", 1, "bool")]),
        ],
        services=[
            service("Fleet", "fleet.example.com", [
                method("GetVehicle", FL + ".GetVehicleRequest", FL + ".Vehicle",
                       http=("get", "/v1/{name=vehicles/*}", None), sigs=["name"]),
                method("RepairVehicle", FL + ".RepairVehicleRequest", OP,
                       http=("post", "/v1/{name=vehicles/*}:repair", "*"),
                       sigs=["name,vehicle"],
                       lro=("Vehicle", "RepairMetadata")),
            ]),
            service("Health", "fleet.example.com", [
                method("Ping", FL + ".PingRequest", FL + ".PingResponse",
                       http=("get", "/v1/ping", None)),
            ]),
        ],
    )
    AD = FL + ".admin"
    fleet_admin = fileproto(
        "google/example/fleet/v1/admin/admin.proto",
        AD,
        deps=[ANN, CLI, LRO, EMPTY],
        messages=[
            message("DecommissionRequest", [field("name", 1, "string"),
                                            field("reasons", 2, "string",
                                                  repeated=True)]),
            message("AdminMetadata", [field("actor", 1, "string")]),
            message("AuditRequest", [field("parent", 1, "string")]),
        ],
        services=[
            service("FleetAdmin", "fleet.example.com", [
                # response type lives in the parent package, in a file that
                # this file does not import.
                method("Decommission", AD + ".DecommissionRequest", OP,
                       http=("post", "/v1/{name=vehicles/*}:decommission", "*"),
                       sigs=["name"],
                       lro=(FL + ".Vehicle", "AdminMetadata")),
                method("Audit", AD + ".AuditRequest", OP,
                       http=("post", "/v1/{parent=fleets/*}:audit", "*"),
                       lro=("google.protobuf.Empty",
                            FL + ".admin.AdminMetadata")),
            ]),
        ],
    )
    cases.append(dict(name="fleet_subpackage_multi_service", package=FL,
                      files=ser(common + [fleet_types, fleet_main, fleet_admin]),
                      opts="autogen-snippets=false,lazy-import"))
    cases.append(dict(name="fleet_rest_only", package=FL,
                      files=ser(common + [fleet_types, fleet_main, fleet_admin]),
                      opts="transport=rest,autogen-snippets=false"))

    # ------------------------------------------- extended operations
    X = "google.example.compute.v1"

    def opfield(f, code=None, response_field=None, request_field=None):
        if code is not None:
            f.options.Extensions[ex_ops_pb2.operation_field] = code
        if response_field:
            f.options.Extensions[ex_ops_pb2.operation_response_field] = response_field
        if request_field:
            f.options.Extensions[ex_ops_pb2.operation_request_field] = request_field
        return f

    operation_msg = message(
        "Operation",
        [
            opfield(field("name", 1, "string", optional=True),
                    ex_ops_pb2.NAME, response_field="name"),
            opfield(field("http_error_message", 202521945, "string", optional=True),
                    ex_ops_pb2.ERROR_MESSAGE),
            opfield(field("http_error_status_code", 312345196, "int32",
                          optional=True), ex_ops_pb2.ERROR_CODE),
            opfield(field("status", 181260274, X + ".Operation.Status",
                          optional=True, enum=True), ex_ops_pb2.STATUS),
        ],
        enums=[enum("Status", "UNDEFINED_STATUS", "DONE", "PENDING", "RUNNING")],
    )
    compute = fileproto(
        "google/example/compute/v1/compute.proto",
        X,
        deps=[ANN, CLI, EXOPS],
        messages=[
            operation_msg,
            message("GetOperationRequest", [field("name", 1, "string"),
                                            field("project", 2, "string"),
                                            field("zone", 3, "string")]),
            message("DeleteOperationRequest", [field("name", 1, "string")]),
            message("DeleteOperationResponse", [field("success", 1, "bool")]),
            message("StartInstanceRequest", [
                opfield(field("project", 1, "string"), request_field="project"),
                opfield(field("zone", 2, "string"), request_field="zone"),
                field("instance", 3, "string"),
            ]),
            message("PeekInstanceRequest", [field("instance", 1, "string")]),
            message("PeekInstanceResponse", []),
        ],
        services=[
            service("ZoneOperations", "compute.example.com", [
                method("Get", X + ".GetOperationRequest", X + ".Operation",
                       http=("get",
                             "/v1/projects/{project}/zones/{zone}/operations/{name}",
                             None),
                       polling=True, sigs=["project,zone,name"]),
                method("Delete", X + ".DeleteOperationRequest",
                       X + ".DeleteOperationResponse",
                       http=("delete", "/v1/operations/{name}", None)),
            ]),
            service("Instances", "compute.example.com", [
                method("Start", X + ".StartInstanceRequest", X + ".Operation",
                       http=("post",
                             "/v1/projects/{project}/zones/{zone}/instances/"
                             "{instance}/start", None),
                       ext_service="ZoneOperations",
                       sigs=["project,zone,instance"]),
                method("Peek", X + ".PeekInstanceRequest",
                       X + ".PeekInstanceResponse",
                       http=("post", "/v1/instances/{instance}:peek", "*")),
            ]),
        ],
    )
    cases.append(dict(name="compute_extended_operations_rest", package=X,
                      files=ser(common + [compute]),
                      opts="transport=rest"))

    # ------------------- an API built on top of prior protos (non-empty
    # `prior_protos`): the common protos come from the earlier library API.
    cases.append(dict(name="fleet_on_prior_library", package=FL,
                      files=ser([fleet_types, fleet_main, fleet_admin]),
                      prior_files=ser(library_files()), prior_package=P,
                      # (the snippet generator cannot cope with services of a
                      # prior package, in either tree)
                      opts="transport=grpc+rest,autogen-snippets=false"))

    # ------------------- the alternative (Ads) template set, same schema code
    cases.append(dict(name="library_ads_templates", package=P,
                      files=ser(library_files()),
                      opts="python-gapic-templates=ads-templates,old-naming"))

    # ------------------- file names that the first pass has to rewrite:
    # a reserved word, a name that collides with the rewritten one, dots in
    # the basename; the LRO types live in a file the service does not import.
    N = "google.example.names.v1"
    names_types = fileproto(
        "google/example/names/v1/lro.result.types.proto",
        N,
        messages=[
            message("RenameResult", [field("new_name", 1, "string")]),
            message("RenameProgress", [field("done", 1, "bool")]),
        ],
    )
    names_kw = fileproto(
        "google/example/names/v1/import.proto",
        N,
        messages=[message("Thing", [field("name", 1, "string"),
                                    field("in", 2, "string")])],
    )
    names_kw2 = fileproto(
        "google/example/names/v1/import_.proto",
        N,
        messages=[message("OtherThing", [field("name", 1, "string")])],
    )
    names_service = fileproto(
        "google/example/names/v1/class.proto",
        N,
        deps=[ANN, CLI, LRO, EMPTY, "google/example/names/v1/import.proto"],
        messages=[
            message("RenameRequest", [field("name", 1, "string"),
                                      field("thing", 2, N + ".Thing")]),
            message("ForgetRequest", [field("name", 1, "string")]),
        ],
        services=[
            service("Renamer", "names.example.com", [
                method("Rename", N + ".RenameRequest", OP,
                       http=("post", "/v1/{name=things/*}:rename", "*"),
                       sigs=["name,thing"],
                       lro=("RenameResult", N + ".RenameProgress")),
                method("Forget", N + ".ForgetRequest", "google.protobuf.Empty",
                       http=("delete", "/v1/{name=things/*}", None),
                       sigs=["name"]),
            ]),
            service("Plain", "names.example.com", [
                method("Look", N + ".ForgetRequest", N + ".OtherThing",
                       http=("get", "/v1/{name=things/*}", None)),
            ]),
        ],
    )
    cases.append(dict(name="names_sanitized_files", package=N,
                      files=ser(common + [names_kw, names_kw2, names_types,
                                          names_service]),
                      opts="transport=grpc+rest"))
    cases.append(dict(name="names_sanitized_files_reordered", package=N,
                      # (a file must still follow the files whose messages
                      # its own messages use)
                      files=ser(common + [names_types, names_kw2, names_kw,
                                          names_service]),
                      opts="autogen-snippets=false"))

    return cases


# --------------------------------------------------------------------------
# Driver
# --------------------------------------------------------------------------
def main(argv):
    if len(argv) == 5 and argv[1] == "--worker":
        worker(argv[2], argv[3], argv[4])
        return 0
    if len(argv) != 2:
        print("usage: demo.py <checkout-with-the-change>")
        return 2
    checkout = os.path.realpath(argv[1])
    scratch = tempfile.mkdtemp(prefix="twin-W08-")
    try:
        pristine = os.path.join(scratch, "pristine")
        os.mkdir(pristine)
        archive = subprocess.Popen(
            ["git", "-C", checkout, "archive", "HEAD"], stdout=subprocess.PIPE
        )
        subprocess.check_call(["tar", "-x", "-C", pristine], stdin=archive.stdout)
        archive.stdout.close()
        if archive.wait() != 0:
            raise RuntimeError("git archive failed")

        cases = build_cases(scratch)
        cases_path = os.path.join(scratch, "cases.pkl")
        with open(cases_path, "wb") as f:
            pickle.dump(cases, f)

        env = dict(os.environ)
        env.pop("PYTHONPATH", None)
        env["PYTHONDONTWRITEBYTECODE"] = "1"
        env["PYTHONHASHSEED"] = "0"
        procs = {}
        for label, tree in (("pristine", pristine), ("changed", checkout)):
            out_path = os.path.join(scratch, label + ".pkl")
            procs[label] = (
                subprocess.Popen(
                    [sys.executable, HERE, "--worker", tree, cases_path, out_path],
                    cwd=scratch,
                    env=env,
                ),
                out_path,
            )
        results = {}
        for label, (proc, out_path) in procs.items():
            if proc.wait() != 0:
                print("worker for %s tree failed (exit %d)" % (label, proc.returncode))
                return 1
            with open(out_path, "rb") as f:
                results[label] = pickle.load(f)

        differences = []
        n_files = n_errors = 0
        for case in cases:
            name = case["name"]
            a, b = results["pristine"][name], results["changed"][name]
            if ("error" in a) or ("error" in b):
                n_errors += 1
                if a != b:
                    differences.append(
                        "%s: outcome differs: %r vs %r"
                        % (name, a.get("error", "<generated>"),
                           b.get("error", "<generated>")))
                continue
            for key in ("proto_names", "fd_names"):
                if a[key] != b[key]:
                    differences.append("%s: %s differ: %r vs %r"
                                       % (name, key, a[key], b[key]))
            fa, fb = a["files"], b["files"]
            for fname in sorted(set(fa) | set(fb)):
                n_files += 1
                if fname not in fa:
                    differences.append("%s: %s only in changed tree" % (name, fname))
                elif fname not in fb:
                    differences.append("%s: %s only in pristine tree" % (name, fname))
                elif fa[fname] != fb[fname]:
                    differences.append("%s: %s differs" % (name, fname))

        if differences:
            print("DIFFERENT: %d difference(s)" % len(differences))
            for line in differences:
                print("  " + line)
            return 1

        # sanity: the interesting code paths really were exercised
        def text(case, suffix):
            files = results["changed"][case]["files"]
            hits = [v for k, v in files.items()
                    if k.endswith(suffix) and not k.startswith("raw:")]
            assert len(hits) == 1, (case, suffix, len(hits))
            return hits[0].decode("utf-8")

        lib_client = text("library_grpc_rest", "services/library/client.py")
        assert "operation.from_gapic(" in lib_client
        assert "archive_types.ArchiveResponse," in lib_client
        assert "metadata_type=library.PurgeMetadata," in lib_client
        lib_async = text("library_grpc_rest", "services/library/async_client.py")
        assert "operation_async.from_gapic(" in lib_async
        assert ") -> operation_async.AsyncOperation:" in lib_async
        assert ") -> Awaitable[AsyncIterable[resources.Book]]:" in lib_async
        rest = text("library_rest_yaml_numeric_enums",
                    "services/library/transports/rest.py")
        assert "'google.longrunning.Operations.CancelOperation': [" in rest
        assert "'body': '*'," in rest
        assert "google.cloud.location.Locations.GetLocation': [" not in rest
        kw_client = text("keywords_collisions", "services/def/client.py")
        assert "gac_operation.from_gapic(" in kw_client, "alias path not exercised"
        adm = text("fleet_subpackage_multi_service",
                   "admin/services/fleet_admin/client.py")
        assert "vehicle.Vehicle," in adm
        cmp_client = text("compute_extended_operations_rest",
                          "services/instances/client.py")
        assert "extended_operation.ExtendedOperation" in cmp_client
        # -- this round: sync / async operations clients on the gRPC transports
        grpc_t = text("library_default_grpc", "services/library/transports/grpc.py")
        assert ("self._operations_client: Optional[operations_v1.OperationsClient]"
                " = None") in grpc_t
        assert "def operations_client(self) -> operations_v1.OperationsClient:" in grpc_t
        assert ("self._operations_client = operations_v1.OperationsClient(\n"
                "                self._logged_channel\n") in grpc_t
        aio_t = text("library_default_grpc",
                     "services/library/transports/grpc_asyncio.py")
        assert ("self._operations_client: Optional[operations_v1."
                "OperationsAsyncClient] = None") in aio_t
        assert ("def operations_client(self) -> operations_v1."
                "OperationsAsyncClient:") in aio_t
        assert ("self._operations_client = operations_v1.OperationsAsyncClient(\n"
                "                self._logged_channel\n") in aio_t
        # a service without LRO methods has no operations client at all
        for suffix in ("services/health/transports/grpc.py",
                       "services/health/transports/grpc_asyncio.py"):
            assert "perations" not in text("fleet_subpackage_multi_service", suffix)
        # both surfaces of an extended operation, next to a plain method
        assert "def start_unary(self," in cmp_client
        assert "def start(self," in cmp_client
        assert cmp_client.count("operation_service = self._transport._") == 1
        # sanitized file names (reserved word, collision, dotted basename)
        for case_name in ("names_sanitized_files", "names_sanitized_files_reordered"):
            got = results["changed"][case_name]
            mine = sorted(n for n in got["proto_names"] if "/names/v1/" in n)
            assert got["fd_names"] == got["proto_names"], case_name
            assert "google/example/names/v1/lro_result_types.proto" in mine, mine
            assert "google/example/names/v1/class_.proto" in mine, mine
            assert "google/example/names/v1/import_.proto" in mine, mine
            assert "google/example/names/v1/import__.proto" in mine, mine
            assert len(mine) == 4, mine
        ren = text("names_sanitized_files", "services/renamer/client.py")
        assert "lro_result_types.RenameResult," in ren
        assert "metadata_type=lro_result_types.RenameProgress," in ren
        prior = results["changed"]["fleet_on_prior_library"]
        assert "google/longrunning/operations.proto" in prior["proto_names"]
        assert "google/longrunning/operations.proto" not in prior["fd_names"]
        ads = results["changed"]["library_ads_templates"]
        assert "files" in ads, ads

        for name in ("reject_missing_metadata_type", "reject_missing_response_type",
                     "reject_unknown_lro_type",
                     "reject_unknown_input_before_bad_lro"):
            assert "error" in results["changed"][name], name
        assert results["changed"]["reject_unknown_input_before_bad_lro"][
            "error"].startswith("KeyError"), results["changed"][
            "reject_unknown_input_before_bad_lro"]
        assert results["changed"]["reject_missing_metadata_type"][
            "error"].startswith("TypeError")

        print(
            "IDENTICAL: %d cases (%d generated, %d rejected identically), "
            "%d output files (formatted and raw renderings) compared byte for byte"
            % (len(cases), len(cases) - n_errors, n_errors, n_files)
        )
        return 0
    finally:
        shutil.rmtree(scratch, ignore_errors=True)


if __name__ == "__main__":
    sys.exit(main(sys.argv))
